#!/bin/sh
# Build the fact extractor and warm the dependency caches (offline).
set -e
cd "$(dirname "$0")"
export CARGO_NET_OFFLINE=true
(cd engine/factgen && cargo +nightly build --offline 2>&1 | tail -2)
python3 sa/extract.py core-default core-super tower tower-http >/dev/null
echo setup ok
