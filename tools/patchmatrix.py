#!/usr/bin/env python3
"""tools/patchmatrix.py [--workers N] [--checks C01,..] [--out file.json] <patch>...

Runs the checks against arbitrary patch files (each applied to its own scratch copy of /repo, removed afterwards) and prints, per
patch, the new violation keys every check reports.  Used for the behaviour-preserving refactorings written by independent
sub-agents (neutral/): every reported key there is a false alarm to be triaged.  Developer tool; not used by a registered command.
"""
import argparse
import concurrent.futures
import json
import os
import queue
import shutil
import subprocess
import sys
import tempfile
import time

HERE = os.path.dirname(os.path.dirname(os.path.abspath(__file__)))
sys.path.insert(0, HERE)
from sa import mutants as M          # noqa: E402
from sa import extract as X          # noqa: E402

ALL = ["C01", "C02", "C03", "C04", "C05", "C06", "C07", "C08", "C09", "C10", "C11", "C12", "C13", "C14", "C15", "C16", "C17", "C18", "C19", "C20"]


def main():
    ap = argparse.ArgumentParser()
    ap.add_argument("patches", nargs="+")
    ap.add_argument("--workers", type=int, default=4)
    ap.add_argument("--checks", default=",".join(ALL))
    ap.add_argument("--out", default=None)
    a = ap.parse_args()
    checks = a.checks.split(",")
    base = tempfile.mkdtemp(prefix="verif-patchcache-")
    q = queue.Queue()
    for i in range(a.workers):
        c = os.path.join(base, "w%d" % i)
        os.makedirs(c)
        for tdir in ("target-core", "target-tower"):
            src = os.path.join(X.CACHE, tdir)
            if os.path.isdir(src):
                subprocess.run(["cp", "-r", src, os.path.join(c, tdir)], check=False)
        q.put(c)

    def job(p):
        c = q.get()
        t0 = time.time()
        d = M.make_copy("/repo")
        out = {"patch": p, "checks": {}}
        try:
            if not M.apply(d, {"patch": os.path.abspath(p)}):
                out["error"] = "patch does not apply"
                print(p, "PATCH DOES NOT APPLY", flush=True)
                return out
            for ck in checks:
                rc, s, tail = M.run_check(ck, d, c)
                out["checks"][ck] = {"rc": rc, "new": (s or {}).get("new", []) if s else None}
                if rc == 2:
                    out["checks"][ck]["tail"] = tail[-600:]
        finally:
            shutil.rmtree(d, ignore_errors=True)
            q.put(c)
        out["wall_s"] = round(time.time() - t0, 1)
        print(p, {k: (v["new"] if v["rc"] != 2 else "RC2 " + v.get("tail", "")[-300:]) for k, v in out["checks"].items() if v["new"] or v["rc"] == 2}, flush=True)
        return out

    try:
        with concurrent.futures.ThreadPoolExecutor(max_workers=a.workers) as ex:
            results = list(ex.map(job, a.patches))
    finally:
        shutil.rmtree(base, ignore_errors=True)
    if a.out:
        json.dump(results, open(a.out, "w"), indent=1)


if __name__ == "__main__":
    main()
