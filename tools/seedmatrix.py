#!/usr/bin/env python3
"""tools/seedmatrix.py [--workers N] [--checks C01,C02,..] [seed-id ...]

Runs the checks against every stored seeded change (seeded/<id>/patch.diff applied to a scratch copy of /repo, removed afterwards)
and writes seeded/MATRIX.json: for each seed the new violation keys every check reports.  With --update it also rewrites each
meta.json's "reported_by" and "regression" entries from the result (developer tool; not used by any registered command).
"""
import argparse
import concurrent.futures
import glob
import json
import os
import queue
import shutil
import subprocess
import sys
import tempfile
import time

HERE = os.path.dirname(os.path.dirname(os.path.abspath(__file__)))
sys.path.insert(0, HERE)
from sa import mutants as M          # noqa: E402
from sa import extract as X          # noqa: E402

ALL = ["C01", "C02", "C03", "C04", "C05", "C06", "C07", "C08", "C09", "C10", "C11", "C12", "C13", "C14", "C15", "C16", "C17", "C18", "C19", "C20"]


def main():
    ap = argparse.ArgumentParser()
    ap.add_argument("ids", nargs="*")
    ap.add_argument("--workers", type=int, default=4)
    ap.add_argument("--checks", default=",".join(ALL))
    ap.add_argument("--update", action="store_true")
    ap.add_argument("--listed", action="store_true", help="per seed: only its own check and the checks its meta.json lists under regression")
    a = ap.parse_args()
    checks = a.checks.split(",")
    metas = {}
    for p in sorted(glob.glob(os.path.join(HERE, "seeded", "*", "meta.json"))):
        m = json.load(open(p))
        if not a.ids or m["id"] in a.ids:
            metas[m["id"]] = (p, m)
    base = tempfile.mkdtemp(prefix="verif-seedcache-")
    q = queue.Queue()
    for i in range(a.workers):
        c = os.path.join(base, "w%d" % i)
        os.makedirs(c)
        for tdir in ("target-core", "target-tower"):
            src = os.path.join(X.CACHE, tdir)
            if os.path.isdir(src):
                subprocess.run(["cp", "-r", src, os.path.join(c, tdir)], check=False)
        q.put(c)

    def job(sid):
        p, m = metas[sid]
        c = q.get()
        t0 = time.time()
        d = M.make_copy("/repo")
        out = {"id": sid, "checks": {}}
        try:
            ok = M.apply(d, {"patch": os.path.join(os.path.dirname(p), "patch.diff")})
            if not ok:
                out["error"] = "patch does not apply"
                return out
            cks = checks
            if a.listed:
                cks = sorted({m["breaks_property"]} | {r["check"] for r in m.get("regression") or []})
            for ck in cks:
                rc, s, tail = M.run_check(ck, d, c)
                out["checks"][ck] = {"rc": rc, "new": (s or {}).get("new", []) if s else None}
                if rc == 2:
                    out["checks"][ck]["tail"] = tail[-400:]
        finally:
            shutil.rmtree(d, ignore_errors=True)
            q.put(c)
        out["wall_s"] = round(time.time() - t0, 1)
        print(sid, {k: v["new"] for k, v in out["checks"].items() if v["new"] or v["rc"] == 2}, flush=True)
        return out

    try:
        with concurrent.futures.ThreadPoolExecutor(max_workers=a.workers) as ex:
            results = list(ex.map(job, sorted(metas)))
    finally:
        shutil.rmtree(base, ignore_errors=True)
    mp = os.path.join(HERE, "seeded", "MATRIX.json")
    old = json.load(open(mp)) if os.path.exists(mp) else {}
    for r in results:
        old[r["id"]] = r
    json.dump(old, open(mp, "w"), indent=1, sort_keys=True)
    if a.update:
        for r in results:
            p, m = metas[r["id"]]
            rep = []
            reg = []
            for ck, v in sorted(r.get("checks", {}).items()):
                if v["new"]:
                    rep.append("%s: %s" % (ck, ", ".join(v["new"][:4])))
                    reg.append({"check": ck, "expect": v["new"][:6]})
            if not a.listed:
                m["static_checks_run"] = checks
            m["reported_by"] = rep
            m["regression"] = reg
            if rep:
                m["missed_because"] = None
            json.dump(m, open(p, "w"), indent=1)


if __name__ == "__main__":
    main()
