#!/bin/sh
# tools/seedcheck_wt.sh <patch> <Cxx>... : like seedcheck.sh but on a scratch worktree (/tmp/seedwt) via --repo, so that /repo stays untouched
# (used while a thorough sweep is copying /repo); the worktree is left in place between calls, remove with `git -C /repo worktree remove --force /tmp/seedwt`
P="$1"; shift
W=${SEEDWT:-/tmp/seedwt}
[ -d $W ] || git -C /repo worktree add -q --detach $W HEAD
git -C $W checkout -q -- . ; git -C $W clean -fdq >/dev/null 2>&1
git -C $W checkout -q --detach $(git -C /repo rev-parse HEAD)
git -C $W apply "$P" || { echo "PATCH DOES NOT APPLY"; exit 3; }
for c in "$@"; do /verif/check "$c" --repo $W --cache ${W}-cache 2>&1 | grep -E "VIOLATION|what:|BUILD|Traceback|quick:" | cut -c1-300; done
git -C $W checkout -q -- .
