#!/usr/bin/env python3
"""Regenerate /verif/MANIFEST.json from the table below (keeps it schema-valid)."""
import json, os, sys
HERE = os.path.dirname(os.path.dirname(os.path.abspath(__file__)))
sys.path.insert(0, HERE)
from tools.manifest_table import CHECKS, NOT_APPLICABLE, FIX_COMMITS

def main():
    checks = []
    for pid, c in sorted(CHECKS.items()):
        checks.append({
            "property_id": pid,
            "quick_cmd": "./check %s --tier quick" % pid,
            "thorough_cmd": "./check %s --tier thorough" % pid,
            "evidence_file": "evidence/%s.json" % pid,
            "replay_cmd_template": "./check %s --replay {path}" % pid,
            "engine": "sa",
            "level_claimed": {"category": "other", "text": c["text"], "design_ref": c.get("design_ref", "DESIGN.md §3 " + pid)},
            "level_note": c["note"],
            "technique": c["technique"],
        })
    m = {
        "version": 1,
        "setup_cmd": "./setup.sh",
        "hooks": {
            "guard": "flea1lt_sentinel_rust_verif",
            "enable": "none needed: static analysis reads the source as it is; no hook was added to /repo",
            "baseline_off_cmd": "cd /repo && cargo test --workspace --no-fail-fast --offline",
            "source_commits": [],
            "add_only": True,
        },
        "engines": [
            {"name": "factgen", "path": "engine/factgen", "serves_properties": sorted(CHECKS),
             "kind_free_text": "rustc_private driver (nightly) injected with RUSTC_WORKSPACE_WRAPPER under cargo check; dumps mir_built facts (CFG, resolved callees, places with field names, ADTs, impl tables) as JSON from /repo's current working tree"},
            {"name": "sa", "path": "sa", "serves_properties": sorted(CHECKS),
             "kind_free_text": "Python rule library over the facts (rules read role-located functions in normalised views - private helpers inlined, closures of higher-order calls unfolded, sa/inline.py): CFG/dominators/must-pass-through, origin slices, call graph with CHA + EXTERNAL callbacks, lock-order graph, panic reachability, decision tables, units, sibling/field agreement"},
            {"name": "witness", "path": "engine/witness", "serves_properties": ["C13", "C03", "C16", "C02", "C04"],
             "kind_free_text": "compile_fail doctest witnesses with compiling twins (supplementary; closes who-may-write sets against external code)"},
        ],
        "checks": checks,
        "not_applicable": [{"property_id": k, "reason": v} for k, v in sorted(NOT_APPLICABLE.items())],
        "notes": "All checks are static (nothing of /repo is executed). Unguarded 'fix:' commits in /repo: " + ", ".join(FIX_COMMITS) + ". Known findings: /verif/known_findings.json.",
    }
    json.dump(m, open(os.path.join(HERE, "MANIFEST.json"), "w"), indent=1)
    try:
        import jsonschema
        jsonschema.validate(m, json.load(open("/root/.vp/MANIFEST.schema.json")))
        print("MANIFEST.json valid;", len(checks), "checks,", len(NOT_APPLICABLE), "not applicable")
    except ImportError:
        print("written (jsonschema not importable)")

if __name__ == "__main__":
    main()
