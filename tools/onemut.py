#!/usr/bin/env python3
"""tools/onemut.py <Cxx> <mutant name>... : apply corpus mutants (mutants/<Cxx>/<name>.json or seeded:<id>) one by one to a scratch copy, run the check, print keys"""
import os, shutil, sys
sys.path.insert(0, os.path.dirname(os.path.dirname(os.path.abspath(__file__))))
from sa import mutants as M
prop = sys.argv[1]
ms = {m["name"]: m for m in M.load(prop)}
for name in sys.argv[2:] or sorted(ms):
    m = ms[name]
    d = M.make_copy("/repo")
    try:
        if not M.apply(d, m):
            print(name, "STALE"); continue
        rc, s, out = M.run_check(prop, d)
        keys = (s or {}).get("new", [])
        print(name, m["kind"], "rc=%s" % rc, "keys=%s" % keys[:4], "expect=%s" % m.get("expect"))
        if rc == 2: print(out[-800:])
    finally:
        shutil.rmtree(d, ignore_errors=True)
