#!/bin/sh
# tools/trymut.sh <patch-file|-e sed-expr file> -- <Cxx>...   : apply a change to a scratch copy of /repo and run checks on it
set -e
S=$(mktemp -d /tmp/scratch.XXXXXX)
rsync -a --exclude target --exclude .git /repo/ "$S/"
if [ "$1" = "-e" ]; then sed -i "$2" "$S/$3"; shift 3; else (cd "$S" && patch -p1 -s < "$1"); shift; fi
[ "$1" = "--" ] && shift
(cd "$S" && diff -ru /repo/sentinel-core/src sentinel-core/src | head -30) || true
for c in "$@"; do /verif/check "$c" --repo "$S" 2>&1 | grep -E "VIOLATION|KNOWN|what:|BUILD|MACHINERY|Traceback|quick:" ; done
rm -rf "$S"
