#!/usr/bin/env python3
"""tools/seedtable.py : writes seeded/TABLE.md - one row per seeded change: files changed, first-pass verdict (seeded/FIRSTPASS.json),
and the checks that report it today with their first key (seeded/MATRIX.json, written by tools/seedmatrix.py)."""
import json, os
HERE = os.path.dirname(os.path.dirname(os.path.abspath(__file__)))
m = json.load(open(os.path.join(HERE, "seeded", "MATRIX.json")))
fp = json.load(open(os.path.join(HERE, "seeded", "FIRSTPASS.json")))
rows = ["| seed | batch | file(s) changed | first pass | reported by (today) |", "|---|---|---|---|---|"]
own_hit = 0
for sid in sorted(m):
    meta = json.load(open(os.path.join(HERE, "seeded", sid, "meta.json")))
    files = ", ".join(os.path.basename(x) for x in (meta.get("files_changed") or []))
    rep = []
    for ck, v in sorted(m[sid].get("checks", {}).items()):
        if v.get("new"):
            rep.append("%s `%s`" % (ck, v["new"][0][:70].replace("|", "¦")))
    if m[sid].get("checks", {}).get(sid.split("-")[0], {}).get("new"):
        own_hit += 1
    f = fp.get(sid, {})
    rows.append("| %s | %s | %s | %s | %s |" % (sid, f.get("batch", "?"), files, f.get("first_pass", "?"), "; ".join(rep) or "**not reported**"))
rows.append("")
rows.append("%d seeded changes; %d reported by the check of the property they were written against." % (len(m), own_hit))
open(os.path.join(HERE, "seeded", "TABLE.md"), "w").write("\n".join(rows) + "\n")
print(rows[-1])
