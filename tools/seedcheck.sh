#!/bin/sh
# tools/seedcheck.sh <patch> <Cxx>... : apply a seeded change to /repo, run the given checks, undo it straight afterwards
P="$1"; shift
git -C /repo apply "$P" || { echo "PATCH DOES NOT APPLY"; exit 3; }
for c in "$@"; do VERIF_NO_EVIDENCE=1 /verif/check "$c" 2>&1 | grep -E "VIOLATION|what:|BUILD|Traceback|quick:" | cut -c1-300; done
git -C /repo checkout -- . ; git -C /repo status --short | head -3
