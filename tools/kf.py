#!/usr/bin/env python3
"""tools/kf.py add <property> <rule> <key> <open|fixed> <commit|-> <what>   (developer helper; never used at check time)"""
import json, sys, os
p = os.path.join(os.path.dirname(os.path.dirname(os.path.abspath(__file__))), "known_findings.json")
d = json.load(open(p))
_, cmd, prop, rule, key, status, commit, what = sys.argv
e = {"property": prop, "rule": rule, "key": key, "status": status, "what": what}
if status == "fixed":
    e["commit"] = commit
    e["line"] = "fixed: property=%s %s %s" % (prop, commit, what)
else:
    e["line"] = "KNOWN-FINDING: property=%s %s" % (prop, what)
d["findings"] = [x for x in d["findings"] if x["key"] != key] + [e]
json.dump(d, open(p, "w"), indent=1)
print("ok", len(d["findings"]))
