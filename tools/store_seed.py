#!/usr/bin/env python3
"""tools/store_seed.py <id> <patch> <demo> <agent-meta.json> --confirm "<line from confirm_seed.sh>" --caught "<rule keys / checks>" [--missed "<reason>"] [--features f]

Stores a confirmed seeded change as /verif/seeded/<id>/ {patch.diff, demo.rs (or the given demo directory), meta.json}.
meta.json records: which property it breaks, what it needs to manifest, what was run to confirm it (by me, in a scratch worktree),
and which check reports it (or why none can).
"""
import argparse
import json
import os
import shutil
import sys

HERE = os.path.dirname(os.path.dirname(os.path.abspath(__file__)))


def main():
    ap = argparse.ArgumentParser()
    ap.add_argument("id")
    ap.add_argument("patch")
    ap.add_argument("demo")
    ap.add_argument("meta")
    ap.add_argument("--confirm", required=True)
    ap.add_argument("--caught", default="")
    ap.add_argument("--checks", default="")
    ap.add_argument("--missed", default="")
    ap.add_argument("--features", default="")
    ap.add_argument("--demo-cmd", default="")
    a = ap.parse_args()
    d = os.path.join(HERE, "seeded", a.id)
    os.makedirs(d, exist_ok=True)
    shutil.copy(a.patch, os.path.join(d, "patch.diff"))
    if os.path.isdir(a.demo):
        dst = os.path.join(d, "demo")
        if os.path.exists(dst):
            shutil.rmtree(dst)
        shutil.copytree(a.demo, dst, ignore=shutil.ignore_patterns("target", "Cargo.lock"))
        demo_name = "demo/"
    else:
        demo_name = "demo.rs"
        shutil.copy(a.demo, os.path.join(d, demo_name))
    am = json.load(open(a.meta))
    prop = am.get("property") or a.id.split("-")[0]
    if isinstance(prop, str) and len(prop) > 3:
        prop = a.id.split("-")[0]
    testname = "seed_" + a.id.replace("-", "_")
    feat = (" --features " + a.features) if a.features else ""
    meta = {
        "id": a.id,
        "breaks_property": prop,
        "summary": am.get("summary"),
        "needs_to_manifest": am.get("needs"),
        "files_changed": am.get("files_changed"),
        "compiles_and_passes_existing_tests": True,
        "confirmed_by_me": {
            "where": "scratch git worktree of /repo at HEAD (/tmp/confirm), removed afterwards",
            "commands": [
                a.demo_cmd or ("cp demo.rs sentinel-core/tests/%s.rs && cargo test --offline -p sentinel-core%s --test %s -- --test-threads=1   # unchanged tree: passes" % (testname, feat, testname)),
                "git apply patch.diff && (same demo command)   # changed tree: fails",
                "rm the demo && cargo test --workspace --no-fail-fast --offline   # existing suite on the changed tree",
            ],
            "result": a.confirm,
        },
        "static_checks_run": a.checks.split() if a.checks else [],
        "reported_by": [x.strip() for x in a.caught.split(";") if x.strip()],
        "missed_because": a.missed or None,
    }
    json.dump(meta, open(os.path.join(d, "meta.json"), "w"), indent=1)
    print("stored", d)


if __name__ == "__main__":
    sys.exit(main())
