#!/bin/sh
# tools/np.sh <group/nK | path.diff> <Cxx>... : run checks on a persistent scratch copy of /repo with one neutral patch applied
# (copy and fact cache are kept under /tmp/np for fast iteration while a rule is being repaired; remove with rm -rf /tmp/np)
ID="$1"; shift
P=/verif/neutral/$ID.diff; [ -f "$P" ] || P="$ID"
N=$(echo "$ID" | tr '/.' '__')
D=/tmp/np/$N
if [ ! -d "$D" ]; then
  mkdir -p "$D"; rsync -a --exclude target --exclude .git /repo/ "$D/"
  (cd "$D" && git apply "$P" 2>/dev/null || patch -p1 -s < "$P") || { echo "PATCH DOES NOT APPLY"; rm -rf "$D"; exit 3; }
  mkdir -p "$D-cache"; for t in target-core target-tower; do [ -d /verif/.cache/$t ] && cp -r /verif/.cache/$t "$D-cache/$t"; done
fi
for c in "$@"; do VERIF_NO_EVIDENCE=1 /verif/check "$c" --repo "$D" --cache "$D-cache" 2>&1 | grep -E "rule:|what:|where:|BUILD|MACHINERY|Traceback|Error|quick:" | cut -c1-${W:-400}; done
