"""Source of MANIFEST.json (tools/mkmanifest.py)."""
PENDING = "check not built yet (machinery under construction; DESIGN.md §9 build order)"
FIX_COMMITS = ["efb25bc (C20 tower exit on error)", "0669e6c (C05 isolation block type)"]
CHECKS = {
 "C20": dict(
   technique="static analysis: CFG path rules (dominance, must-pass-through) over MIR of the Tower service impls and their async blocks",
   text="Decides, for every non-unwind path of both cfg variants of the Tower service and of the futures they return, that the inner service is called exactly on the admitted arm and that EntryStrongPtr::exit is passed on every completion path (after Poll::Ready, at most once). All paths of the code are covered instead of the sampled request sequences a test would drive; the numeric in-flight count is not computed.",
   note="Trusts rustc's MIR construction (mir_built) and the fact extractor; unwind edges excluded; poll_ready and tonic's interceptor not analysed (tonic 0.8.2 not in the offline cache)."),
 "C05": dict(
   technique="static analysis: decision tables extracted from MIR by path enumeration with role-identified comparison atoms (A6), constant/origin checks at blocked sites, sibling agreement of the +1/-1 callbacks",
   text="Decides the admission predicates of the isolation checker (trip iff in_flight + n > T) and of the hotspot concurrency checker (pass iff in_flight <= limit, limit = per-value override else threshold) for every ordering of the compared quantities, the BlockType/rule/snapshot carried by the rejection, and that the per-value in-flight counter is raised and lowered by one under identical guards. It decides these structural clauses on all paths, not the behaviour over build/exit interleavings (the numeric cap over histories follows only together with C04/C13's pairing rules).",
   note="Values are touched only through the listed comparisons; NaN ignored; LRU eviction and concurrency (C14) outside this check. Known finding: hotspot concurrency ignores the batch count."),
 "C09": dict(
   technique="static analysis: exhaustiveness of the metric match against the enum + per-arm decision tables extracted from MIR (A6), origin checks of the observed operands, path rules for the Outbound early return and the block gate",
   text="Decides, for each of the five system metric arms, that the extracted decision formula equals the statement's (>= for QPS/concurrency/RT; > plus the BBR side condition for load/CPU) on every ordering of (observed, threshold) x strategy x bbr_ok, that the BBR capacity test is !(n > 1 && n > max_avg(Complete)*min_rt/1000) on the inbound node, that Outbound entries return before any rule is read, and that the rejection is SystemFlow with rule and observed value. It does not decide that the observed statistics equal the traffic history.",
   note="Comparison atoms identified by operand origin slices; NaN ignored; injected load/CPU readings trusted."),
 "C13": dict(
   technique="static analysis: CFG rules over SlotChain::add_*/entry/exit and EntryBuilder::build (push-then-sort on one field keyed by order(), phase reachability, loop-exit analysis, dominance of the verdict store, decision tables for the notification and Blocked->Err mapping)",
   text="Decides on every path of the chain's own code: each add_* sorts the vector it pushed to by order(), and that vector is the one iterated for the role; the three phases cannot interleave; each loop walks the whole vector front to back (check loop may stop only after a block); the verdict is reset before checking and overwritten only by a slot's own blocked return; each stat slot gets exactly the notification matching the verdict; on_completed runs iff not blocked; build maps Blocked to Err after exiting. This covers all chain shapes and slot results at once because the code under analysis is the chain, not the slots.",
   note="Trusts std sort_by_key (ascending) and slice::Iter order; custom slots that overwrite the context verdict themselves are outside the statement's quantifier."),
 "C04": dict(
   technique="static analysis: who-may-call over the whole-crate call graph (CHA for dyn slot calls), effect-sequence decision tables of the recorder callbacks, single-RMW rule on the in-flight counter; thorough adds must-pass-through of exit() in the examples' macro-generated wrappers",
   text="Decides that the in-flight counter is raised only from pass callbacks and lowered only from completion callbacks, that each ResourceNodeStatSlot callback records exactly its counters (with the batch count / response time as the count) on the entry's node and mirrors them on the inbound node iff the entry is inbound, on every path, and that the counter itself moves by single +1/-1 RMWs. Together with C13's chain rules (one of pass/blocked per entry; completion iff passed; build exits blocked entries) this is the pass-xor-block / inc-dec pairing; totals over histories are not computed.",
   note="Closed world of the analysed crate; custom external StatSlots unconstrained; depends on C13's rules holding."),
}
NOT_APPLICABLE = {("C%02d" % i): PENDING for i in range(1, 21) if ("C%02d" % i) not in CHECKS}
NOT_APPLICABLE["C08"] = "numerical trajectory over runtime values (ramp shape, 2p+2 s bound); no structural clause is a necessary condition of the stated bounds (DESIGN.md §3 C08)"
