#!/bin/sh
# tools/confirm_seed.sh <patch> <demo.rs> <testname> [features]  : confirm a seeded change in the scratch worktree /tmp/confirm
# prints: DEMO_UNCHANGED=pass|fail DEMO_CHANGED=pass|fail BASELINE_CHANGED=<n passed>/<n failed>
W=${CONFIRM_WT:-/tmp/confirm}
[ -d $W ] || git -C /repo worktree add -q --detach $W HEAD
git -C $W checkout -q -- . ; git -C $W clean -fdq sentinel-core/tests sentinel-core/examples 2>/dev/null
git -C $W checkout -q --detach $(git -C /repo rev-parse HEAD) 2>/dev/null
P="$1"; D="$2"; N="$3"; F="$4"
FE=""; [ -n "$F" ] && FE="--features $F"
cp "$D" $W/sentinel-core/tests/$N.rs
(cd $W && cargo test --offline -p sentinel-core $FE --test $N -- --test-threads=1 >$W-u.log 2>&1) && U=pass || U=fail
git -C $W apply "$P" || { echo "PATCH DOES NOT APPLY"; exit 3; }
(cd $W && cargo test --offline -p sentinel-core $FE --test $N -- --test-threads=1 >$W-c.log 2>&1) && C=pass || C=fail
rm -f $W/sentinel-core/tests/$N.rs
(cd $W && cargo test --workspace --no-fail-fast --offline >$W-b.log 2>&1)
B=$(grep -E "^test result" $W-b.log | head -1)
FT=$(grep -E "^test .* FAILED" $W-b.log | tr '\n' ' ')
if [ -n "$FT" ]; then
  # a failure in the existing suite: run it once more (the suite has one wall-clock sensitive test) and report both runs
  (cd $W && cargo test --workspace --no-fail-fast --offline >$W-b2.log 2>&1)
  B="$B first-run-failures: $FT second run: $(grep -E "^test result" $W-b2.log | head -1) $(grep -E "^test .* FAILED" $W-b2.log | tr '\n' ' ')"
fi
git -C $W checkout -q -- .
echo "DEMO_UNCHANGED=$U DEMO_CHANGED=$C BASELINE_CHANGED=[$B]"
echo "$N DEMO_UNCHANGED=$U DEMO_CHANGED=$C BASELINE_CHANGED=[$B]" >> /tmp/confirm-summary.txt
grep -E "^test .*FAILED|panicked" $W-c.log | head -5
