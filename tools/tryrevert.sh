#!/bin/sh
# tools/tryrevert.sh <commit> -- <Cxx>... : undo one /repo commit in a scratch copy and run checks on it
set -e
S=$(mktemp -d /tmp/scratch.XXXXXX)
rsync -a --exclude target --exclude .git /repo/ "$S/"
git -C /repo diff "$1^" "$1" | (cd "$S" && patch -R -p1 -s)
shift; [ "$1" = "--" ] && shift
for c in "$@"; do /verif/check "$c" --repo "$S" 2>&1 | grep -E "VIOLATION|what:|BUILD|MACHINERY|Traceback|quick:" | cut -c1-260 ; done
rm -rf "$S"
