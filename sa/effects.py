"""Effect summaries for the statistic recorders (used by C04, C01, C14).

A primitive effect is a call to one of
    ConcurrencyStat::increase_concurrency / decrease_concurrency     -> ('inc'|'dec', None)
    WriteStat::add_count(MetricEvent::<E>, n)                          -> ('add', E)
on a receiver.  For a helper body, `summary` enumerates its acyclic paths and returns the set of
effect sequences, each effect tagged with the parameter index its receiver derives from.
"""
from .core import *

PRIMS = {
    "ConcurrencyStat::increase_concurrency": "inc",
    "ConcurrencyStat::decrease_concurrency": "dec",
    "WriteStat::add_count": "add",
}


def prim_of(t):
    for k, v in PRIMS.items():
        if callee_is(t, k):
            return v
    return None


def event_of(sl, t):
    at = sl.of_operand(t["args"][1])
    ev = sorted(a.rsplit("::", 1)[1] for a in at if a.startswith("variant:") and "MetricEvent::" in a)
    if ev:
        return "|".join(ev)
    ps = sorted(a for a in at if a.startswith("param:"))
    return "<" + ",".join(ps) + ">" if ps else "?"


def enumerate_paths(body, start=0, limit=4000):
    """Acyclic non-unwind block paths from start to return (loops cut at the repeat)."""
    out = []
    stack = [(start, (start,))]
    while stack and len(out) < limit:
        bb, path = stack.pop()
        ss = body.succs(bb)
        t = body.term(bb)
        if t and t["k"] == "return":
            out.append(path)
            continue
        if not ss:
            continue
        for s in ss:
            if s in path:
                out.append(path + (s,))
            else:
                stack.append((s, path + (s,)))
    return out


class Effects:
    def __init__(self, facts):
        self.f = facts
        self._sum = {}

    def site_effect(self, body, bb, sl=None):
        """Effects of the call at bb: list of (kind, event, receiver-atoms, count-atoms)."""
        t = body.term(bb)
        if not t or t["k"] != "call":
            return []
        sl = sl or Slicer(self.f, body)
        k = prim_of(t)
        if k:
            recv = sl.of_operand(t["args"][0])
            if k == "add":
                return [(k, event_of(sl, t), recv, sl.of_operand(t["args"][2]))]
            return [(k, None, recv, set())]
        # local helper?
        out = []
        for tgt in self.f.call_targets(body, t):
            hb = self.f.bodies.get(tgt)
            if hb is None or hb.kind not in ("Fn", "AssocFn"):
                continue
            seqs = self.summary(hb)
            if not seqs or seqs == {()}:
                continue
            if len(seqs) != 1:
                out.append(("varies", tgt, set(), set()))
                continue
            for kind, ev, pidx, cidx in next(iter(seqs)):
                recv = sl.of_operand(t["args"][pidx - 1]) if pidx and pidx - 1 < len(t["args"]) else set()
                cnt = set()
                for ci in cidx:
                    if ci - 1 < len(t["args"]):
                        cnt |= sl.of_operand(t["args"][ci - 1])
                ev2 = ev
                if ev and ev.startswith("<") and len(t["args"]) > 1:
                    # event passed through a parameter: resolve at this site
                    ev2 = None
                    for a in t["args"]:
                        at = sl.of_operand(a)
                        vs = sorted(x.rsplit("::", 1)[1] for x in at if x.startswith("variant:") and "MetricEvent::" in x)
                        if vs:
                            ev2 = "|".join(vs)
                    ev2 = ev2 or ev
                out.append((kind, ev2, recv, cnt))
        return out

    def summary(self, hb, depth=0):
        """set of effect sequences; effect = (kind, event, receiver param index or 0, tuple(count param indices))."""
        if hb.path in self._sum:
            return self._sum[hb.path]
        self._sum[hb.path] = set()  # recursion guard
        if depth > 3:
            return set()
        sl = Slicer(self.f, hb)
        per_block = {}
        for bb, t in hb.calls():
            effs = []
            k = prim_of(t)
            if k:
                recv = sl.of_operand(t["args"][0])
                pidx = _param_index(hb, recv)
                if k == "add":
                    cidx = tuple(sorted(_param_indices(hb, sl.of_operand(t["args"][2]))))
                    effs.append((k, event_of(sl, t), pidx, cidx))
                else:
                    effs.append((k, None, pidx, ()))
            else:
                for tgt in self.f.call_targets(hb, t):
                    h2 = self.f.bodies.get(tgt)
                    if h2 is None or h2.kind not in ("Fn", "AssocFn") or h2.path == hb.path:
                        continue
                    s2 = self.summary(h2, depth + 1)
                    if s2 and s2 != {()}:
                        for seq in s2:
                            for kind, ev, p2, c2 in seq:
                                recv = sl.of_operand(t["args"][p2 - 1]) if p2 and p2 - 1 < len(t["args"]) else set()
                                effs.append((kind, ev, _param_index(hb, recv), ()))
                            break
            if effs:
                per_block[bb] = effs
        seqs = set()
        if not per_block:
            seqs = {()}
        else:
            for path in enumerate_paths(hb):
                seq = []
                for bb in path:
                    seq.extend(per_block.get(bb, []))
                seqs.add(tuple(seq))
        self._sum[hb.path] = seqs
        return seqs


def _param_index(b, atoms):
    for i in range(1, b.argc + 1):
        nm = b.param_name(i)
        if ("param:%s" % nm) in atoms:
            return i
    return 0


def _param_indices(b, atoms):
    out = []
    for i in range(1, b.argc + 1):
        nm = b.param_name(i)
        if ("param:%s" % nm) in atoms:
            out.append(i)
    return out


def roots_of(facts, path, stop_pred, limit=5000):
    """Ascend the call graph from `path`; stop at bodies satisfying stop_pred or without callers.
    Returns set of root body paths."""
    roots = set()
    seen = {path}
    work = [path]
    while work and len(seen) < limit:
        p = work.pop()
        b = facts.bodies.get(p)
        if b is not None and stop_pred(b) and p != path:
            roots.add(p)
            continue
        cs = facts.callers_of(p)
        if b is not None and b.root and b.root in facts.bodies:
            # a closure is 'called' by the body that creates it
            cs = list(cs) + [(facts.bodies[b.root], 0, None)]
        if not cs:
            roots.add(p)
            continue
        for cb, bb, t in cs:
            if cb.path not in seen:
                seen.add(cb.path)
                work.append(cb.path)
    return roots
