"""A10 — run the compile_fail witnesses (and their compiling twins) of engine/witness with `cargo +nightly test --doc`.
Supplementary: closes the who-may-write / who-may-construct sets of the MIR rules against external code.  Twins are `no_run`."""
import os
import re
import shutil
import subprocess

from . import extract as X

WDIR = os.path.join(X.VERIF, "engine", "witness")

WITNESSES = {
    "W1GlobalChainImmutable": ["C13"], "W2SlotVectorsPrivate": ["C13"], "W3BreakerStatePrivate": ["C03", "C16"],
    "W4LeapArrayNotNameable": ["C02"], "W5BlockedEntryHasNoHandle": ["C04", "C13"], "W6ConfigCellPrivate": ["C17"],
}


def run(ctx):
    if os.path.realpath(ctx.repo) != os.path.realpath("/repo"):
        return
    mine = [w for w, ps in WITNESSES.items() if ctx.prop in ps]
    if not mine:
        return
    shutil.copy(os.path.join(ctx.repo, "Cargo.lock"), os.path.join(WDIR, "Cargo.lock"))
    env = dict(os.environ, CARGO_TARGET_DIR=os.path.join(X.CACHE, "target-witness"), CARGO_NET_OFFLINE="true")
    r = subprocess.run(["cargo", "+nightly", "test", "--doc", "--offline"], cwd=WDIR, env=env, capture_output=True, text=True)
    res = {}
    for m in re.finditer(r"^test src/lib.rs - (\w+) \(line \d+\) - (compile fail|compile) \.\.\. (\w+)", r.stdout, re.M):
        res.setdefault(m.group(1), {})[m.group(2)] = m.group(3)
    for w in mine:
        got = res.get(w, {})
        ok = got.get("compile fail") == "ok" and got.get("compile") == "ok"
        ctx.instance("witness/" + w, "engine/witness/src/lib.rs", got, {"compile fail": "ok", "compile": "ok"}, ok, "witness")
        if not ok:
            ctx.violation("witness", "%s.witness|%s" % (ctx.prop, w),
                          "type-level witness %s no longer holds (the offending line compiles, or its twin stopped compiling): %s" % (w, got or r.stderr[-300:]), "engine/witness/src/lib.rs")
