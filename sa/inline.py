"""Normalised views of MIR bodies: private helpers inlined, closures of higher-order std calls unfolded.

Why: a rule that reads one body sees the *shape* of that body.  A maintainer who extracts a helper, wraps `.lock().unwrap()` in a
private accessor, or turns a `for` loop into `iter().for_each(|x| ..)` / `find_map(..)` changes the shape and nothing else.  The
view built here undoes exactly those edits before a rule looks:

* **helper inlining** - a call whose single resolved target is a crate-local, non-public function or inherent method (never a
  trait-role or public-API item: those are the anchors rules look for) is replaced by the callee's blocks: parameters become
  locals assigned from the arguments, `return` becomes an assignment of the callee's `_0` to the call's destination and a jump
  to the continuation.  Depth-bounded (3), recursion-free, size-bounded.
* **closure unfolding** - a call to a std function that receives a crate-local closure (`for_each`, `find_map`, `filter`, `map`,
  `any`, `map_err`, `unwrap_or_else`, `sort_by_key`, ...) is kept, and in front of it a region is inserted in which the closure's
  body may run zero or more times: `head -> (closure body -> head) | call`.  The closure's environment parameter is bound to a
  reference to the closure object (so captured values keep their origins), its other parameters to the non-closure arguments of
  the call (the collection / iterator the elements come from).  The value the closure returns is joined into the destination of the
  call.  This is a may-model: it says the closure body can run on the way through the call, which is what path and origin rules need;
  it does not model laziness order between chained adaptors.

Blocks and locals are renumbered; every copied block remembers its source body (`src`) and every statement keeps its line, so reports
still point at real source lines.  The original facts are never modified.
"""
import copy

from .core import Body, callee_def

MAX_DEPTH = 3
MAX_BLOCKS = 4000


def _is_place(o):
    return isinstance(o, dict) and "l" in o and "p" in o and len(o) == 2


def _remap(o, lo, bo):
    """deep copy of a JSON fragment with locals shifted by lo and block ids by bo"""
    if isinstance(o, dict):
        if _is_place(o):
            return {"l": o["l"] + lo, "p": [("[_%d]" % (int(p[2:-1]) + lo)) if p.startswith("[_") else p for p in o["p"]]}
        k = o.get("k")
        out = {}
        for key, v in o.items():
            if key == "l" and k in ("live", "dead") and isinstance(v, int):
                out[key] = v + lo
            elif key in ("target", "unwind", "otherwise", "drop") and isinstance(v, int) and k in ("goto", "switch", "call", "drop", "assert", "yield", "falseedge"):
                out[key] = v + bo
            elif key == "targets" and k == "switch":
                out[key] = [[val, tg + bo] for val, tg in v]
            elif key == "pl" and k == "drop":
                out[key] = _remap(v, lo, bo)
            else:
                out[key] = _remap(v, lo, bo)
        return out
    if isinstance(o, list):
        return [_remap(x, lo, bo) for x in o]
    return o


def default_policy(facts, caller, callee):
    """inline private, crate-local helpers only: public items and trait-role methods are what rules anchor on"""
    if callee.kind not in ("Fn", "AssocFn"):
        return False
    if callee.pub or callee.impl_trait or callee.in_trait:
        return False
    if callee.crate != caller.crate:
        return False
    return True


class _Builder:
    def __init__(self, facts, root, policy, keep, unfold):
        self.f = facts
        self.root = root
        self.policy = policy
        self.keep = keep
        self.unfold = unfold
        self.locals = copy.deepcopy(root.j["locals"])
        self.vars = copy.deepcopy(root.j.get("vars", []))
        self.blocks = []
        self.inlined = []
        self.clos = {}     # local (merged numbering) -> def path of the closure it holds
        self.alias = {}    # local -> local it is a plain copy / reference of

    def _note(self, blk):
        for s in blk["stmts"]:
            if s["k"] != "assign" or s["lhs"]["p"]:
                continue
            rv = s["rv"]
            if rv["k"] == "agg" and rv.get("closure"):
                self.clos[s["lhs"]["l"]] = rv["closure"]
            elif rv["k"] == "use" and rv["op"].get("k") in ("copy", "move") and rv["op"]["pl"]["p"] in ([], ["*"]):
                self.alias[s["lhs"]["l"]] = rv["op"]["pl"]["l"]
            elif rv["k"] == "ref" and rv["pl"]["p"] in ([], ["*"]):
                self.alias[s["lhs"]["l"]] = rv["pl"]["l"]

    def closure_of(self, op):
        pl = op.get("pl") if op else None
        if pl is None:
            return None
        l = pl["l"]
        for _ in range(8):
            if l in self.clos:
                return self.clos[l]
            if l not in self.alias:
                return None
            l = self.alias[l]
        return None

    def add_body(self, b, lo, stack, depth):
        """append b's blocks (locals already allocated at offset lo); returns block offset"""
        bo = len(self.blocks)
        for blk in b.blocks:
            nb = _remap(blk, lo, bo)
            nb["src"] = b.path
            nb["src_file"] = b.file
            nb["src_bb"] = len(self.blocks) - bo
            self.blocks.append(nb)
            self._note(nb)
        # now expand calls inside the copied range
        for bi in range(bo, bo + len(b.blocks)):
            if len(self.blocks) > MAX_BLOCKS:
                break
            blk = self.blocks[bi]
            t = blk["term"]
            if not t or t["k"] != "call":
                continue
            if depth < MAX_DEPTH and callee_def(t).endswith(("Fn::call", "FnMut::call_mut", "FnOnce::call_once")) and len(t["args"]) == 2 and t.get("target") is not None:
                # a closure value called directly (a parameter of an inlined helper that was given a closure, or a local closure)
                cp = self.closure_of(t["args"][0])
                cb = self.f.bodies.get(cp) if cp else None
                if cb is not None and cp not in stack:
                    self.inline_closure_call(bi, cb, stack | {cp}, depth + 1)
                    continue
            if depth < MAX_DEPTH:
                tg = self.f.call_targets(b, b.blocks[bi - bo]["term"])
                tg = [x for x in tg if x in self.f.bodies]
                if len(tg) == 1 and tg[0] not in stack and tg[0] not in self.keep:
                    cb = self.f.bodies[tg[0]]
                    if self.policy(self.f, b, cb) and t.get("target") is not None:
                        self.inline_call(bi, cb, stack | {tg[0]}, depth + 1)
                        continue
            if self.unfold and depth < MAX_DEPTH:
                self.unfold_closures(bi, b, stack, depth)
        return bo

    def alloc(self, b):
        lo = len(self.locals)
        self.locals.extend(copy.deepcopy(b.j["locals"]))
        for v in b.j.get("vars", []):
            nv = copy.deepcopy(v)
            nv["pl"] = _remap(v["pl"], lo, 0)
            nv["inl"] = True
            self.vars.append(nv)
        return lo

    def inline_closure_call(self, bi, cb, stack, depth):
        """Fn::call(closure, (a, b, ..)): environment := the closure operand, parameters := the fields of the argument tuple"""
        blk = self.blocks[bi]
        t = blk["term"]
        tup = t["args"][1]
        args = [t["args"][0]]
        if tup.get("pl") is not None:
            for i in range(cb.argc - 1):
                args.append({"k": "copy", "pl": {"l": tup["pl"]["l"], "p": list(tup["pl"]["p"]) + [".%d" % i]}})
        t2 = dict(t)
        t2["args"] = args
        t2["arg_defs"] = []
        blk["term"] = t2
        self.inline_call(bi, cb, stack, depth)

    def inline_call(self, bi, cb, stack, depth):
        blk = self.blocks[bi]
        t = blk["term"]
        lo = self.alloc(cb)
        line = t.get("line", 0)
        # parameters := arguments
        for i, a in enumerate(t["args"]):
            if i + 1 <= cb.argc:
                blk["stmts"].append({"k": "assign", "lhs": {"l": lo + i + 1, "p": []}, "rv": {"k": "use", "op": a}, "line": line, "dline": 0, "exp": False, "inl": "param"})
                ds = (t.get("arg_defs") or [])
                if i < len(ds) and ds[i] and ds[i][0] in self.f.bodies and self.f.bodies[ds[i][0]].kind == "Closure":
                    self.clos[lo + i + 1] = ds[i][0]
                elif a.get("pl") is not None and a["pl"]["p"] in ([], ["*"]):
                    self.alias[lo + i + 1] = a["pl"]["l"]
        cont = t["target"]
        dest = t["dest"]
        bo = self.add_body(cb, lo, stack, depth)
        blk["term"] = {"k": "goto", "target": bo, "inl_call": callee_def(t), "line": line}
        self.inlined.append(cb.path)
        # returns -> dest := _0'; goto cont       (only the blocks that belong to this copy of cb, not to deeper inlinees)
        for k in range(bo, len(self.blocks)):
            nb = self.blocks[k]
            if nb.get("src") != cb.path or nb.get("_ret_done"):
                continue
            tt = nb["term"]
            if tt and tt["k"] == "return" and not nb["cleanup"] and nb.get("_owner", bo) == bo:
                nb["stmts"].append({"k": "assign", "lhs": dest, "rv": {"k": "use", "op": {"k": "move", "pl": {"l": lo, "p": []}}}, "line": tt.get("line", line), "dline": 0, "exp": False, "inl": "ret", "inl_callee": cb.path})
                nb["term"] = {"k": "goto", "target": cont, "inl_ret": cb.path}
                nb["_ret_done"] = True
            elif tt and tt["k"] in ("return",) and nb["cleanup"]:
                nb["term"] = {"k": "resume"}

    # std functions that may invoke a closure argument while they run
    def unfold_closures(self, bi, b, stack, depth):
        blk = self.blocks[bi]
        t = blk["term"]
        defs = t.get("arg_defs") or []
        cls = []
        for i, ds in enumerate(defs):
            for d in ds:
                cb = self.f.bodies.get(d)
                if cb is not None and cb.kind == "Closure" and d not in stack:
                    cls.append((i, cb))
        if not cls or t.get("target") is None:
            return
        cd = callee_def(t)
        if cd.startswith(("std::thread", "std::sync::Once", "std::boxed", "std::sync::Arc", "std::rc")) or "lazy" in cd:
            return        # the closure is stored or run elsewhere, not on this path
        line = t.get("line", 0)
        # adaptors whose result IS what the closure returned when it ran last (None / the receiver otherwise)
        last = cd.rsplit("::", 1)[-1]
        if last in ("find_map", "and_then", "or_else", "unwrap_or_else", "map_or_else", "then", "find", "position", "any", "all") or (last == "map" and "option::Option" in cd):
            t["hof_passthrough"] = last
        others = [a for i, a in enumerate(t["args"]) if i not in {j for j, _ in cls}]
        # move the call into a fresh block; this block becomes the loop head
        call_blk = {"stmts": [], "term": t, "cleanup": blk["cleanup"], "src": blk.get("src"), "src_file": blk.get("src_file")}
        self.blocks.append(call_blk)
        call_id = len(self.blocks) - 1
        head = {"stmts": [], "term": None, "cleanup": blk["cleanup"], "src": blk.get("src"), "src_file": blk.get("src_file"), "hof_head": cd}
        self.blocks.append(head)
        head_id = len(self.blocks) - 1
        blk["term"] = {"k": "goto", "target": head_id}
        entries = []
        for ai, cb in cls:
            lo = self.alloc(cb)
            pre = {"stmts": [], "term": None, "cleanup": blk["cleanup"], "src": blk.get("src"), "src_file": blk.get("src_file")}
            # environment: a reference to the closure object; other parameters: where the elements come from
            arg = t["args"][ai]
            pl = arg.get("pl")
            if pl is not None:
                pre["stmts"].append({"k": "assign", "lhs": {"l": lo + 1, "p": []}, "rv": {"k": "ref", "mut": False, "pl": pl}, "line": line, "dline": 0, "exp": False, "inl": "env"})
            for pi in range(2, cb.argc + 1):
                for o in others:
                    pre["stmts"].append({"k": "assign", "lhs": {"l": lo + pi, "p": []}, "rv": {"k": "use", "op": _as_copy(o)}, "line": line, "dline": 0, "exp": False, "inl": "elem"})
            self.blocks.append(pre)
            pre_id = len(self.blocks) - 1
            bo = self.add_body(cb, lo, stack | {cb.path}, depth + 1)
            pre["term"] = {"k": "goto", "target": bo}
            self.inlined.append(cb.path)
            for k in range(bo, len(self.blocks)):
                nb = self.blocks[k]
                if nb.get("src") != cb.path or nb.get("_ret_done"):
                    continue
                tt = nb["term"]
                if tt and tt["k"] == "return" and not nb["cleanup"]:
                    nb["stmts"].append({"k": "assign", "lhs": t["dest"], "rv": {"k": "use", "op": {"k": "copy", "pl": {"l": lo, "p": []}}}, "line": tt.get("line", line), "dline": 0, "exp": False, "inl": "cret"})
                    nb["term"] = {"k": "goto", "target": head_id, "inl_ret": cb.path}
                    nb["_ret_done"] = True
                elif tt and tt["k"] == "return":
                    nb["term"] = {"k": "resume"}
            entries.append(pre_id)
        # nondeterministic head: an integer switch on a fresh local nobody defines
        self.locals.append({"ty": "usize", "user": False, "line": line})
        sel = len(self.locals) - 1
        head["term"] = {"k": "switch", "op": {"k": "copy", "pl": {"l": sel, "p": []}}, "ty": "usize", "targets": [[i + 1, e] for i, e in enumerate(entries)], "otherwise": call_id, "line": line, "hof": cd}


def _as_copy(op):
    if op.get("k") == "move":
        return {"k": "copy", "pl": op["pl"]}
    return op


def build(facts, body, policy=None, keep=(), unfold=True):
    """normalised view of `body`; `keep` = def paths never to inline (anchors the calling rule wants to see as calls)"""
    policy = policy or default_policy
    bld = _Builder(facts, body, policy, set(keep), unfold)
    bld.add_body(body, 0, {body.path}, 0)
    j = dict(body.j)
    j["locals"] = bld.locals
    j["vars"] = bld.vars
    j["blocks"] = bld.blocks
    nb = ViewBody(j, body.crate)
    nb.path = body.path
    nb.inlined = bld.inlined
    nb.base = body
    return nb


class ViewBody(Body):
    __slots__ = ("inlined", "base")

    def loc(self, bb=None, line=None):
        if bb is not None and 0 <= bb < len(self.blocks):
            sf = self.blocks[bb].get("src_file")
            if sf and sf != self.file:
                s = Body.loc(self, bb, line)
                return sf + ":" + s.rsplit(":", 1)[1]
        return Body.loc(self, bb, line)

    def src_of(self, bb):
        return self.blocks[bb].get("src", self.path)
