"""C11 — hot reload keeps the state of unchanged rules and applies changed ones at once.

Decided (DESIGN §3 C11), for the three stateful families (flow, hotspot, circuit breaker):
  C11.eq-coverage   PartialEq for Rule reads every field of the rule except `id` (strategy-dependent fields count when compared on some
                    path): equality ignores ids and order but sees every parameter change
  C11.reuse-index   calculate_reuse_index_for: the "equal" index is set only on the true edge of that equality between the old controller's
                    rule and the new rule; the "reusable statistics" index only on the true edge of is_stat_reusable
  C11.rebuild       build_resource_*, per new rule: equal old rule -> the OLD object (taken from the old list) is pushed and no generator
                    runs; otherwise the generator is called with the NEW rule and its result pushed; old statistics are handed over only
                    when the reuse index is set
  C11.reuse-shape   is_stat_reusable compares every rule field that flows into the statistics constructor and (hotspot, circuit breaker)
                    the field that selects the generator: old statistics are handed over only to a rule they fit
  C11.old-list      every load path hands build_resource_* the currently enforced list of the same key (so state can be found)
  C11.fresh-read    entries read the controller/breaker list of their resource from the enforced map on every check (no cached copy)
"""
from .core import *
from . import decision as D
from .decrules import *

FAMS = {"flow": ("core::flow::rule::Rule", "build_resource_traffic_shaping_controller", "CONTROLLER_MAP"),
        "hotspot": ("core::hotspot::rule::Rule", "build_resource_traffic_shaping_controller", "CONTROLLER_MAP"),
        "circuitbreaker": ("core::circuitbreaker::rule::Rule", "build_resource_circuit_breaker", "BREAKER_MAP")}


def run(ctx):
    ctx.explanation = (
        "Field-coverage rule on the three manual PartialEq impls (set of Rule fields projected in the body vs the ADT's field list); "
        "dominance rules in calculate_reuse_index_for; per-iteration decision table of build_resource_* (which object is pushed, whether a "
        "generator runs, with which rule and statistics); origin rule for the old list at every call site; origin rule for the lists the "
        "slots consult.")
    ctx.not_decided = "decision equality of traffic histories with and without a reload (needs execution)."
    ctx.assumptions = ["Arc<Rule> equality forwards to Rule equality (std)"]
    cfg = "core-default"
    f = ctx.facts(cfg)
    n = 0
    for fam, (adt, builder, emap) in FAMS.items():
        n += 1
        eq_coverage(ctx, f, fam, adt, cfg)
        reuse_index(ctx, f, fam, cfg)
        rebuild(ctx, f, fam, builder, cfg)
        old_list(ctx, f, fam, builder, emap, cfg)
        reuse_shape(ctx, f, fam, cfg)
        reuse_predicate(ctx, f, fam, cfg)
        # a changed rule set is not mistaken for "unchanged": the snapshot the next load is compared with is updated on every path
        # that reports a change, and the enforced list is replaced on every such path (rules of C10, run here for this property)
        from . import rules_C10
        bodies = rules_C10.manager_bodies(f, fam)
        rules_C10.raw_snapshot(ctx, f, fam, bodies, cfg)
        rules_C10.enforced_updated(ctx, f, fam, bodies, cfg)
    fresh_read(ctx, f, cfg)


def eq_coverage(ctx, f, fam, adt, cfg, R="C11.eq-coverage"):
    a = f.adts.get(adt)
    eqs = [b for b in f.impl_methods("PartialEq", "eq") if b.impl_self == adt]
    if not ctx.floor(R, "impl PartialEq for %s" % adt, len(eqs), 1) or not a:
        return
    b = eqs[0]
    fields = [fl["name"] for fl in a["variants"][0]["fields"]]
    used = {1: set(), 2: set()}
    sl = Slicer(f, b)

    def scan_place(pl):
        for p in pl["p"]:
            if p.startswith("." + adt + "."):
                fn = p.rsplit(".", 1)[-1]
                # which parameter?
                at = sl.of_place({"l": pl["l"], "p": []})
                if "param:self" in at:
                    used[1].add(fn)
                if "param:other" in at:
                    used[2].add(fn)
    for blk in b.blocks:
        if blk["cleanup"]:
            continue
        for s in blk["stmts"]:
            if s["k"] == "assign":
                rv = s["rv"]
                for key in ("pl",):
                    if key in rv:
                        scan_place(rv[key])
                for key in ("op", "a", "b"):
                    if key in rv and isinstance(rv[key], dict) and rv[key].get("pl"):
                        scan_place(rv[key]["pl"])
        t = blk["term"]
        if t and t["k"] == "call":
            for x in t["args"]:
                if x.get("pl"):
                    scan_place(x["pl"])
    both = used[1] & used[2]
    missing = [x for x in fields if x != "id" and x not in both]
    # guards: a field may be compared conditionally only under (a) the outcome of earlier field comparisons (the && chain) or
    # (b) a test of one of the rule's own enum-typed fields against a constant (strategy-dependent parameters)
    enum_fields = set()
    for fl in a["variants"][0]["fields"]:
        for ap, ad in f.adts.items():
            if ad["kind"] == "Enum" and ap in fl["ty"]:
                enum_fields.add(fl["name"])
    opaque_guards = []
    for bi, blk in enumerate(b.blocks):
        t = blk["term"]
        if blk["cleanup"] or not t or t["k"] != "switch":
            continue
        at = sl.of_operand(t["op"])
        fl_self = {x.rsplit(".", 1)[-1] for x in at if x.startswith("field:" + adt + ".")}
        has_other = "param:other" in at
        calls = sorted(x for x in at if x.startswith("call:") and not (("PartialEq" in x or "PartialOrd" in x) or x.endswith(("::deref", "::eq", "::ne", "::as_ref", "::borrow"))))
        if has_other and "param:self" in at and not calls:
            continue        # chain: comparison between self.X and other.X
        if not has_other and fl_self and fl_self <= enum_fields and not calls:
            continue        # test on an own enum field (match self.strategy / == Strategy::X)
        # something else decides whether later fields are compared
        guarded = sorted({x for bj in range(len(b.blocks)) if b.dominates(bi, bj) and bj != bi for x in _fields_in_block(b, sl, adt, bj)})
        if guarded:
            opaque_guards.append({"guard": [short(c) for c in calls] or sorted(fl_self), "fields_compared_under_it": guarded})
    okg = not opaque_guards
    ctx.instance(R, b.path, {"compared_on_both_sides": sorted(both), "not_compared": missing, "id_compared": "id" in both, "opaque_guards": opaque_guards},
                 "every field except id is compared (id is not); conditional comparisons only under own strategy enums", not missing and "id" not in both and okg, cfg)
    if missing:
        ctx.violation(R, "%s|%s|missing:%s" % (R, fam, ",".join(missing)),
                      "%s rule equality ignores %s: a reload that changes it is treated as unchanged and the change never takes effect" % (fam, missing), b.loc(), config=cfg)
    if "id" in both:
        ctx.violation(R, "%s|%s|id" % (R, fam), "%s rule equality compares ids: re-loading the same rules under new ids would drop their state" % fam, b.loc(), config=cfg)
    for g in opaque_guards:
        ctx.violation(R, "%s|%s|conditional:%s" % (R, fam, ",".join(g["fields_compared_under_it"])),
                      "%s rule equality compares %s only when %s holds - not a test of the rule's own strategy field: a change of those parameters can go unnoticed" % (fam, g["fields_compared_under_it"], g["guard"]), b.loc(), config=cfg)


def _fields_in_block(b, sl, adt, bj):
    out = set()
    blk = b.blocks[bj]
    if blk["cleanup"]:
        return out
    pls = []
    for s in blk["stmts"]:
        if s["k"] == "assign":
            rv = s["rv"]
            if "pl" in rv:
                pls.append(rv["pl"])
            for key in ("op", "a", "b"):
                if key in rv and isinstance(rv[key], dict) and rv[key].get("pl"):
                    pls.append(rv[key]["pl"])
    t = blk["term"]
    if t and t["k"] == "call":
        for x in t["args"]:
            if x.get("pl"):
                pls.append(x["pl"])
    for pl in pls:
        for p in pl["p"]:
            if p.startswith("." + adt + "."):
                if "param:other" in sl.of_place({"l": pl["l"], "p": []}):
                    out.add(p.rsplit(".", 1)[-1])
    return out


def _is_max(op, atoms):
    if op is not None and op.get("k") == "const" and op.get("val") == 2 ** 64 - 1:
        return True
    return any(x.startswith("item:") and x.endswith("usize::MAX") for x in atoms) or "const:18446744073709551615" in atoms


def reuse_index(ctx, f, fam, cfg):
    b = f.bodies.get("core::%s::rule_manager::calculate_reuse_index_for" % fam)
    if b is None:
        cands = [x for p, x in f.bodies.items() if p.startswith("core::%s::rule_manager::" % fam) and x.kind == "Fn" and x.ret_ty == "(usize, usize)"]
        b = cands[0] if cands else None
    if not ctx.floor("C11.reuse-index", "%s reuse-index helper (fn -> (usize, usize))" % fam, 1 if b else 0, 1):
        return None
    sl = Slicer(f, b)
    # assignments of a non-MAX value to user locals; the returned tuple tells which is which
    ret = None
    for blk in b.blocks:
        for s in blk["stmts"]:
            if s["k"] == "assign" and s["lhs"]["l"] == 0 and not s["lhs"]["p"] and s["rv"]["k"] == "agg" and s["rv"].get("tuple"):
                ret = [op_place(o)["l"] if op_place(o) else None for o in s["rv"]["ops"]]
    if not ret:
        ctx.violation("C11.reuse-index", "C11.reuse-index|%s|shape" % fam, "reuse-index helper does not return (eq_idx, reuse_idx)", b.loc(), config=cfg)
        return b

    def root(l):
        d = def_of_local(b, l)
        while d and d[0] == "assign" and d[3]["rv"]["k"] == "use" and op_place(d[3]["rv"]["op"]):
            l = op_place(d[3]["rv"]["op"])["l"]
            d = def_of_local(b, l)
        return l
    roots = [root(x) if x is not None else None for x in ret]
    res = {}
    for which, rl in zip(("eq", "reuse"), roots):
        sets = []
        for bi, blk in enumerate(b.blocks):
            for s in blk["stmts"]:
                if s["k"] == "assign" and s["lhs"]["l"] == rl and not s["lhs"]["p"]:
                    a = sl.of_operand(s["rv"].get("op")) if s["rv"]["k"] == "use" else set()
                    if _is_max(s["rv"].get("op"), a) or s["rv"]["k"] != "use":
                        continue
                    sets.append(bi)
        guard = "call:PartialEq::eq" if which == "eq" else "call:Rule::is_stat_reusable"
        ok = bool(sets)
        for sb in sets:
            g = False
            for d in b.dominators()[sb]:
                t = b.term(d)
                if t and t["k"] == "switch" and t.get("ty") == "bool":
                    a = sl.of_operand(t["op"])
                    has_guard = any_atom(a, guard)
                    if which == "eq":
                        # the comparison must be between the two *rules* (Arc<Rule> == Arc<Rule>), not between some of their fields
                        pl = op_place(t["op"])
                        dd = def_of_local(b, pl["l"]) if pl else None
                        has_guard = bool(dd and dd[0] == "call" and "PartialEq" in callee_def(dd[3]) and callee_def(dd[3]).endswith("::eq")
                                         and all(("Arc<core::%s::rule::Rule>" % fam) in x for x in (dd[3].get("arg_tys") or ["", ""])[:2]))
                    if has_guard and any_atom(a, "param:r") and (any_atom(a, "call:rule") or any_atom(a, "call:bound_rule") or any(x.endswith("::rule") or x.endswith("bound_rule") for x in a)):
                        te = bool_edge_targets(b, d)
                        if te and b.dominates(te[0], sb) and "op:Not" not in a:
                            g = True
            ok = ok and g
        res[which] = ok
        ctx.instance("C11.reuse-index", "%s#%s" % (b.path, which), {"assignments": len(sets), "all_guarded_by": guard, "ok": ok},
                     "index set only on the true edge of %s(old rule, new rule)" % guard.split(":")[1], ok, cfg)
        if not ok:
            ctx.violation("C11.reuse-index", "C11.reuse-index|%s|%s" % (fam, which), "%s: the %s index is not set exactly where %s holds between the old and the new rule" % (b.path, which, guard.split(":")[1]), b.loc(), config=cfg)
    # sufficiency: per old controller, an equal rule ALWAYS yields the equal index (no other condition may hide it), and a
    # reusable one yields the reuse index when none was found yet
    its = [bb for bb, t in b.calls() if callee_is(t, "Iterator::next")]
    if its and None not in roots:
        eq_l, re_l = roots

        def cls(atoms, op=None):
            pl = op_place(op) if op else None
            if op is not None and pl is not None and pl["l"] == re_l or (op is not None and ("lid:%d" % re_l) in atoms and not any(x.startswith("call:") for x in atoms)):
                return "reuse_idx"
            if any_atom(atoms, "call:Iterator::next") and "discr" in atoms:
                return "iter"
            return make_classifier([])(atoms, op)

        def oname(t, atoms):
            d = callee_def(t)
            if "PartialEq" in d and d.endswith("::eq") and all(("Arc<core::%s::rule::Rule>" % fam) in x for x in (t.get("arg_tys") or ["", ""])[:2]):
                return "rules_equal"
            if d.endswith("Rule::is_stat_reusable"):
                return "stat_reusable"
            return d.rsplit("::", 1)[-1]
        w = D.Walker(f, b, cls, opaque_name=oname)
        w.force_opaque = lambda t: "rules_equal" if oname(t, set()) == "rules_equal" else None
        start = b.term(its[0])["target"]
        paths = w.walk(start, lambda bb, env: ("iteration-done",) if bb == its[0] else None)

        def assigns(p, l):
            n = 0
            for x in p["blocks"]:
                for st in b.blocks[x]["stmts"]:
                    if st["k"] == "assign" and st["lhs"]["l"] == l and not st["lhs"]["p"] and not _is_max(st["rv"].get("op") if st["rv"]["k"] == "use" else None, set()):
                        n += 1
            return n

        def outcome(p, asg):
            return "eq=%d,reuse=%d" % (assigns(p, eq_l), assigns(p, re_l))

        def expected(asg):
            if asg["disc"].get("iter") != 1:
                return None
            e = asg["opaque"].get("rules_equal")
            if e is None:
                return None
            if e:
                return "eq=1,reuse=0"
            r = asg["opaque"].get("stat_reusable")
            m = D.rel_of(asg, "reuse_idx", "const:%d" % (2 ** 64 - 1))
            if r is None or m is None:
                return None
            return "eq=0,reuse=1" if (r and m == "=") else "eq=0,reuse=0"
        n, ncon, mism = run_table(ctx, "C11.reuse-index/complete", b.path, cfg, paths, outcome, expected)
        okc = not mism and ncon >= 4
        ctx.instance("C11.reuse-index/complete", b.path, {"rows": n, "constrained": ncon, "mismatches": mism[:3]},
                     "equal rule -> equal index (always); else first stat-reusable rule -> reuse index", okc, cfg)
        if not okc:
            ctx.violation("C11.reuse-index", "C11.reuse-index|%s|complete" % fam,
                          "an old controller whose rule equals the new rule is not always recognised (some other condition hides it): its state is rebuilt on reload: %s" % (mism[:1] or "tests not recognised"), b.loc(), config=cfg)
    return b


def rebuild(ctx, f, fam, builder, cfg, R="C11.rebuild"):
    b = f.bodies.get("core::%s::rule_manager::%s" % (fam, builder))
    if not ctx.floor(R, "%s::%s" % (fam, builder), 1 if b else 0, 1):
        return
    sl = Slicer(f, b)
    helper = [t for _, t in b.calls() if callee_def(t).rsplit("::", 1)[-1] == "calculate_reuse_index_for" or (f.call_targets(b, t) and f.bodies.get(f.call_targets(b, t)[0]) is not None and f.bodies[f.call_targets(b, t)[0]].ret_ty == "(usize, usize)")]
    if not helper:
        ctx.violation(R, "%s|%s|no-helper" % (R, fam), "builder does not compute reuse indices", b.loc(), config=cfg)
        return
    hdest = helper[0]["dest"]["l"]
    roles = [("eq_idx", ["field:.0"], []), ("reuse_idx", ["field:.1"], [])]

    def classify(atoms, op=None):
        pl = op_place(op) if op else None
        # operands derived from the helper's tuple: .0 -> eq index, .1 -> reuse index
        if op is not None and pl is not None:
            l = pl["l"]
            for _ in range(6):
                d = def_of_local(b, l)
                if d and d[0] == "assign" and d[3]["rv"]["k"] == "use" and op_place(d[3]["rv"]["op"]):
                    p2 = op_place(d[3]["rv"]["op"])
                    if p2["l"] == hdest and p2["p"] in ([".0"], [".1"]):
                        return "eq_idx" if p2["p"] == [".0"] else "reuse_idx"
                    l = p2["l"]
                else:
                    break
        if _is_max(op, atoms) and not any(x.startswith("call:") for x in atoms):
            return "MAX"
        if any_atom(atoms, "call:Iterator::next") and "discr" in atoms and not any(x.endswith("::get") for x in atoms):
            return "iter"
        return make_classifier([])(atoms, op)
    gens = {bb for bb, t in b.calls() if "indirect" not in t["callee"] and callee_def(t).endswith(("Fn::call", "FnMut::call_mut", "FnOnce::call_once")) or ("indirect" in t["callee"])}
    pushes = {}
    for bb, t in b.calls():
        if callee_def(t).rsplit("::", 1)[-1] == "push" and len(t["args"]) > 1:
            a = sl.of_operand(t["args"][1])
            from_old = any_atom(a, "param:old_res_tcs") or any_atom(a, "param:old_res_cbs") or any(x.startswith("param:old") for x in a)
            from_gen = any(x.startswith("call:") and x.endswith(("Fn::call", "::call")) for x in a) or any_atom(a, "call:Fn::call")
            pushes[bb] = "old" if (from_old and not from_gen) else ("generated" if from_gen else "other")
    gen_sites = {}
    for bb, t in b.calls():
        if callee_is(t, "Fn::call"):
            a = set()
            for x in t["args"]:
                a |= sl.of_operand(x)
            with_old_stat = any(x.startswith("param:old") for x in a)
            gen_sites[bb] = "gen(new rule, old stat)" if with_old_stat else "gen(new rule, None)"
    its = [bb for bb, t in b.calls() if callee_is(t, "Iterator::next")]
    if not its:
        ctx.violation(R, "%s|%s|no-loop" % (R, fam), "builder does not iterate the new rules", b.loc(), config=cfg)
        return

    def oname(t, atoms):
        n = callee_def(t).rsplit("::", 1)[-1]
        return n
    w = D.Walker(f, b, classify, opaque_name=oname)
    start = b.term(its[0])["target"]
    paths = w.walk(start, lambda bb, env: ("iteration-done",) if bb == its[0] else None)

    def outcome(p, asg):
        ev = []
        for x in p["blocks"]:
            if x in gen_sites:
                ev.append(gen_sites[x])
            if x in pushes:
                ev.append("push " + pushes[x])
        return ";".join(ev) or "-"

    def expected(asg):
        if asg["disc"].get("iter") != 1:
            return None
        r = D.rel_of(asg, "eq_idx", "MAX")
        if r is None:
            return None
        # unmatched resource name -> skipped
        ne = [k for k in asg["pairs"] if "other:" in k[0] or "other:" in k[1]]
        if r != "=":
            # an equal old rule exists: reuse it, never generate
            for k in asg["opaque"]:
                pass
            return "__reuse__"
        return None
    rows_ok = True
    try:
        rows, atoms = D.table(paths, outcome)
    except OverflowError as e:
        ctx.violation(R, "%s|%s|table" % (R, fam), str(e), config=cfg)
        return
    n_reuse = n_gen = 0
    bad = []
    for asg, outs in rows:
        if not outs or asg["disc"].get("iter") != 1:
            continue
        r = D.rel_of(asg, "eq_idx", "MAX") or D.rel_of(asg, "eq_idx", "const:%d" % (2 ** 64 - 1))
        ru = D.rel_of(asg, "reuse_idx", "MAX") or D.rel_of(asg, "reuse_idx", "const:%d" % (2 ** 64 - 1))
        if r is None:
            continue
        for o in outs:
            if r != "=":
                # equal rule exists
                if o not in ("push old", "-"):
                    bad.append((D.fmt_asg(asg)[:120], o, "push old (no generator)"))
                if o == "push old":
                    n_reuse += 1
            else:
                if "push old" in o:
                    bad.append((D.fmt_asg(asg)[:120], o, "never the old object when no equal rule exists"))
                if "gen(" in o:
                    n_gen += 1
                    if ru is not None:
                        want = "gen(new rule, None)" if ru == "=" else "gen(new rule, old stat)"
                        if want not in o:
                            bad.append((D.fmt_asg(asg)[:120], o, want))
                    if "push generated" not in o and "push" in o:
                        bad.append((D.fmt_asg(asg)[:120], o, "push the generated object"))
    ok = not bad and n_reuse > 0 and n_gen > 0
    ctx.instance(R, b.path, {"rows_reusing": n_reuse, "rows_generating": n_gen, "mismatches": bad[:3], "generator_sites": sorted(set(gen_sites.values())), "push_kinds": sorted(set(pushes.values()))},
                 "equal old rule -> push the old object, no generator; otherwise generator(new rule, old stat iff reuse index set) and push its result", ok, cfg)
    if not ok:
        ctx.violation(R, "%s|%s" % (R, fam), "%s does not keep the old object for an unchanged rule / build a new one for a changed rule: %s" % (builder, bad[:2] or {"reuse": n_reuse, "gen": n_gen}), b.loc(), config=cfg)
    # an object / statistics handed over is taken OUT of the old list (so it can be handed out at most once per rebuild);
    # judged per feasible path of the symbolic walk (the removal is guarded by the same index test as the hand-over)
    removes = {bb for bb, t in b.calls() if callee_def(t).endswith(("Vec::<T, A>::remove", "Vec::<T, A>::swap_remove"))}
    lost = []
    n_take = 0
    for p_ in paths:
        seq = []
        for x in p_["blocks"]:
            if x in gen_sites:
                seq.append(gen_sites[x])
            if x in pushes:
                seq.append("push " + pushes[x])
            if x in removes:
                seq.append("remove")
        # is the path feasible at all? (some assignment satisfies all its literals)
        if p_["outcome"][0] != "iteration-done":
            continue
        if _contradictory(p_["lits"]):
            continue
        if "push old" in seq:
            n_take += 1
            if "remove" not in seq:
                lost.append("equal object")
        if any(e.startswith("gen(new rule, old stat)") for e in seq) and "push generated" in seq:
            n_take += 1
            if "remove" not in seq:
                lost.append("reused statistics")
    lost = sorted(set(lost))
    ctx.instance(R + "/take-out", b.path, {"paths_handing_over": n_take, "remove_sites": len(removes), "not_removed_on_some_path": lost},
                 "whatever is reused is removed from the old list before the next rule is considered", not lost and bool(removes) and n_take >= 2, cfg)
    if lost or not removes or n_take < 2:
        ctx.violation(R, "%s|%s|take-out" % (R, fam),
                      "%s hands over %s of an old rule without removing it from the old list: a second new rule can inherit the same object (e.g. two rules sharing one private window)" % (builder, lost or "state"), b.loc(), config=cfg)
    # the generator gets the NEW rule
    for bb, t in b.calls():
        if callee_is(t, "Fn::call"):
            a = set()
            for x in t["args"][1:]:
                a |= sl.of_operand(x)
            okn = any_atom(a, "call:Iterator::next") or any_atom(a, "param:rules_of_res")
            ctx.instance(R + "/new-rule", "%s@%s" % (b.path, gen_sites.get(bb)), "generator argument derives from the iterated new rules: %s" % okn, "true", okn, cfg)
            if not okn:
                ctx.violation(R, "%s|%s|generator-arg" % (R, fam), "the generator is not called with the new rule", b.loc(bb), config=cfg)


# ---- what the reuse predicate has to cover -------------------------------------------------------------------------------------------
# constructor sites of the per-rule statistics object, per family (confirmed by reading; floors = sites counted on the pinned tree)
SHAPE_SITES = {
    "flow": (lambda p: p == "core::flow::rule_manager::generate_stat_for",
             ("StandaloneStat::new", "SlidingWindowMetric::new", "BucketLeapArray::new", "LeapArray::<T>::new"), 5),
    "hotspot": (lambda p: p == "core::hotspot::traffic_shaping::Controller::<C>::new", ("CounterTrait::with_capacity",), 3),
    "circuitbreaker": (lambda p: p.startswith("core::circuitbreaker::breaker::") and p.endswith("Breaker::new"), ("LeapArray::<T>::new",), 3),
}
# families whose generator implementations interpret the handed-over statistics differently (sibling implementations share the cells):
# the field that selects the generator has to be part of the predicate.  flow is not listed: every flow checker reads the same
# event counts of a window, whatever the control behaviour.
SELECTOR_FAMS = {
    "hotspot": "reject and throttling checkers keep different quantities (refill time / last pass time) in ParamsMetric.rule_time_counter",
    "circuitbreaker": "the three breakers count different events (slow / error / total) in the same CounterLeapArray type",
}


def _self_fields(f, adt, path, depth=0, seen=None):
    """Fields of `adt` read through `self` in method `path` (transitively through other methods of the type)."""
    seen = seen if seen is not None else set()
    if path in seen or depth > 3:
        return set()
    seen.add(path)
    b = f.bodies.get(path)
    out = set()
    if b is None:
        return out
    for blk in b.blocks:
        if blk["cleanup"]:
            continue
        pls = []
        for st in blk["stmts"]:
            if st["k"] == "assign":
                rv = st["rv"]
                if "pl" in rv:
                    pls.append(rv["pl"])
                for key in ("op", "a", "b"):
                    if key in rv and isinstance(rv[key], dict) and rv[key].get("pl"):
                        pls.append(rv[key]["pl"])
        t = blk["term"]
        if t and t["k"] == "call":
            for x in t["args"]:
                if x.get("pl"):
                    pls.append(x["pl"])
            for tgt in f.call_targets(b, t) or []:
                if tgt.startswith(adt + "::"):
                    out |= _self_fields(f, adt, tgt, depth + 1, seen)
        if t and t["k"] == "switch" and t["op"].get("pl"):
            pls.append(t["op"]["pl"])
        for pl in pls:
            for pj in pl["p"]:
                if pj.startswith("." + adt + "."):
                    out.add(pj.rsplit(".", 1)[-1])
    return out


def _rule_fields_of(f, adt, atoms):
    out = {x.rsplit(".", 1)[-1] for x in atoms if x.startswith("field:" + adt + ".")}
    for x in atoms:
        if x.startswith("call:" + adt + "::"):
            out |= _self_fields(f, adt, x[5:])
    return out


def compared_in_reuse_predicate(f, adt):
    b = f.bodies.get(adt + "::is_stat_reusable")
    if b is None:
        return None, None
    sl = Slicer(f, b)
    used = {"self": set(), "other": set()}
    for blk in b.blocks:
        if blk["cleanup"]:
            continue
        pls = []
        for st in blk["stmts"]:
            if st["k"] == "assign":
                rv = st["rv"]
                if "pl" in rv:
                    pls.append(rv["pl"])
                for key in ("op", "a", "b"):
                    if key in rv and isinstance(rv[key], dict) and rv[key].get("pl"):
                        pls.append(rv[key]["pl"])
        t = blk["term"]
        if t and t["k"] == "call":
            for x in t["args"]:
                if x.get("pl"):
                    pls.append(x["pl"])
            for tgt in f.call_targets(b, t) or []:
                if tgt.startswith(adt + "::") and t["args"]:
                    at = sl.of_operand(t["args"][0])
                    for side in ("self", "other"):
                        if "param:" + side in at:
                            used[side] |= _self_fields(f, adt, tgt)
        for pl in pls:
            for pj in pl["p"]:
                if pj.startswith("." + adt + "."):
                    at = sl.of_place({"l": pl["l"], "p": []})
                    for side in ("self", "other"):
                        if "param:" + side in at:
                            used[side].add(pj.rsplit(".", 1)[-1])
    return b, used["self"] & used["other"]


def reuse_shape(ctx, f, fam, cfg, R="C11.reuse-shape"):
    """The statistics of an old rule may be handed to a new one only if every rule field that shapes the statistics object (flows into
    its constructor) - and, where sibling generators interpret the same cells differently, the field that selects the generator - is
    equal: is_stat_reusable has to compare them."""
    adt = FAMS[fam][0]
    pb, compared = compared_in_reuse_predicate(f, adt)
    if not ctx.floor(R, "%s::is_stat_reusable" % adt, 1 if pb else 0, 1):
        return
    sel, names, floor = SHAPE_SITES[fam]
    shape, nsites = set(), 0
    for p, b in f.bodies.items():
        if not sel(p):
            continue
        sl = Slicer(f, b)
        for bb, t in b.calls():
            if callee_def(t).endswith(names):
                nsites += 1
                at = set()
                for a in t["args"]:
                    at |= sl.of_operand(a)
                shape |= _rule_fields_of(f, adt, at)
    ctx.floor(R, "%s statistics constructor sites" % fam, nsites, floor)
    selector = set()
    if fam in SELECTOR_FAMS:
        b = f.bodies.get("core::%s::rule_manager::%s" % (fam, FAMS[fam][1]))
        if b is not None:
            sl = Slicer(f, b)
            for bb, t in b.calls():
                if callee_def(t).endswith("::get") and len(t["args"]) == 2 and any(x.startswith("static:") and x.endswith("GEN_FUN_MAP") for x in sl.of_operand(t["args"][0])):
                    selector |= _rule_fields_of(f, adt, sl.of_operand(t["args"][1]))
        ctx.floor(R, "%s generator selector fields" % fam, len(selector), 1)
    missing = sorted((shape | selector) - compared)
    ctx.instance(R, pb.path, {"compared": sorted(compared), "shape_fields": sorted(shape), "selector_fields": sorted(selector), "not_compared": missing},
                 "every shaping / selecting field is compared", not missing, cfg)
    if missing:
        ctx.violation(R, "%s|%s|not-compared:%s" % (R, fam, ",".join(missing)),
                      "%s::is_stat_reusable ignores %s although %s: statistics built for a different %s are handed to the new rule" % (
                          fam, missing, "the field selects the generator (%s)" % SELECTOR_FAMS[fam] if set(missing) & selector else "the statistics constructor is fed from it", missing),
                      pb.loc(), config=cfg)


def reuse_predicate(ctx, f, fam, cfg, R="C11.reuse-predicate"):
    """is_stat_reusable(old, new) may answer true only if every field it looks at is EQUAL in both rules (an ordering test such as
    `>=` hands a smaller cache / another window to the new rule) and - where the family has such a test - both rules need statistics
    (otherwise a rule inherits the shared no-op statistics and admits everything)."""
    adt = "core::%s::rule::Rule" % fam
    pb = f.raw(f.bodies.get(adt + "::is_stat_reusable"))
    if not ctx.floor(R, "%s Rule::is_stat_reusable" % fam, 1 if pb else 0, 1):
        return
    b = f.view(pb)
    p1, p2 = b.param_name(1) or "self", b.param_name(2) or "other"
    flds = [x["name"] for x in f.adts[adt]["variants"][0]["fields"]]

    def cls(atoms, op=None):
        fs = sorted(a.rsplit(".", 1)[-1] for a in atoms if a.startswith("field:" + adt + "."))
        who = "a" if ("param:" + p1) in atoms and ("param:" + p2) not in atoms else ("b" if ("param:" + p2) in atoms and ("param:" + p1) not in atoms else "?")
        if len(fs) == 1 and who != "?":
            return "%s.%s" % (who, fs[0])
        return "other:" + ",".join(fs)[:60]

    def oname(t, atoms):
        n = callee_def(t).rsplit("::", 1)[-1]
        if n == "need_statistic":
            return "need_statistic(%s)" % ("a" if ("param:" + p1) in atoms else "b")
        return n
    w = D.Walker(f, b, cls, opaque_name=oname)
    paths = [p for p in w.walk(0, lambda bb, env: None) if p["outcome"][0] == "return"]

    def outcome(p, asg):
        v = p["env"].get("_0")
        return "?" if v is None else ("reusable" if D.ev(v, asg) else "not-reusable")

    def expected(asg):
        for (x, y), r in asg["pairs"].items():
            if x[:2] in ("a.", "b.") and y[:2] in ("a.", "b.") and x[2:] == y[2:] and x[0] != y[0] and r != "=":
                return "not-reusable"
        if any(k.startswith("need_statistic(") and not v for k, v in asg["opaque"].items()):
            return "not-reusable"
        return None
    n, ncon, mism = run_table(ctx, R, b.path, cfg, paths, outcome, expected)
    pairs = sorted({x[2:] for p in paths for l in p["lits"] + list(p["env"].values()) for e in [l] if False})
    seen_ns = {x for p in paths for l in list(p["lits"]) + list(p["env"].values()) for x in ("need_statistic(a)", "need_statistic(b)") if x in str(l)}
    has_ns = seen_ns == {"need_statistic(a)", "need_statistic(b)"}
    need_ns = fam == "flow"      # the only family with statistics-free rules (the shared no-op pair)
    ok = not mism and ncon >= 2 and (has_ns or not need_ns)
    ctx.instance(R, b.path, {"rows": n, "constrained": ncon, "mismatches": mism[:3], "tests_need_statistic": has_ns}, "reusable only if every compared field is equal%s" % (" and both rules need statistics" if need_ns else ""), ok, cfg)
    if mism or ncon < 2:
        ctx.violation(R, "%s|%s|not-equality" % (R, fam), "%s::is_stat_reusable can answer true although a compared field differs: %s" % (fam, mism[:2] or "field comparisons not found"), b.loc(), config=cfg)
    elif need_ns and not has_ns:
        ctx.violation(R, "%s|%s|need-statistic" % (R, fam), "%s::is_stat_reusable does not require both rules to need statistics: a rule can inherit the shared no-op statistics of a rule that records nothing" % fam, b.loc(), config=cfg)


def _contradictory(lits):
    """A path is infeasible if it asserts an atom and its negation (same comparison with both outcomes)."""
    pos, neg = set(), set()
    for l in lits:
        if l[0] == "not":
            neg.add(l[1])
        else:
            pos.add(l)
    if pos & neg:
        return True
    # cmp atoms: a == b together with a != b etc.
    rel = {}
    for l in pos:
        if l[0] == "cmp":
            rel.setdefault((l[2], l[3]), []).append((l[1], True))
    for l in neg:
        if l[0] == "cmp":
            rel.setdefault((l[2], l[3]), []).append((l[1], False))
    for k, lst in rel.items():
        ok_any = False
        for r in "<=>":
            good = True
            for sym, want in lst:
                v = {"<": r == "<", "<=": r in "<=", ">": r == ">", ">=": r in ">=", "==": r == "=", "!=": r != "="}[sym]
                if v != want:
                    good = False
            ok_any = ok_any or good
        if not ok_any:
            return True
    return False


def old_list(ctx, f, fam, builder, emap, cfg):
    n = 0
    from . import rules_C10
    seen_sites = set()
    for p, b in rules_C10.manager_bodies(f, fam).items():
        sl = Slicer(f, b)
        for bb, t in b.calls():
            if callee_def(t).rsplit("::", 1)[-1] != builder:
                continue
            n += 1
            a = sl.of_operand(t["args"][2])
            st = sorted(x[7:].rsplit("::", 1)[-1] for x in a if x.startswith("static:"))
            ka = sl.of_operand(t["args"][0])
            same_key = bool({x for x in a if x.startswith(("param:res", "lid:")) or x.endswith("Rule.resource")} & {x for x in ka if x.startswith(("param:res", "lid:")) or x.endswith("Rule.resource")})
            ok = st == [emap] and any_atom(a, "call:get_mut") and same_key
            ctx.instance("C11.old-list", "%s -> %s" % (p, builder), {"old_from": st, "same_key_as_res": same_key}, "old = %s.get_mut(res) of the same resource" % emap, ok, cfg)
            if not ok:
                ctx.violation("C11.old-list", "C11.old-list|%s" % p.replace("core::", "", 1), "%s does not hand the currently enforced list of that resource to %s: existing state cannot be reused" % (p, builder), b.loc(bb), config=cfg)
    ctx.floor("C11.old-list", "callers of %s::%s" % (fam, builder), n, 3)


def fresh_read(ctx, f, cfg):
    pairs = [("flow", "get_traffic_controller_list_for", "CONTROLLER_MAP"), ("hotspot", "get_traffic_controller_list_for", "CONTROLLER_MAP"), ("circuitbreaker", "get_breakers_of_resource", "BREAKER_MAP")]
    for fam, getter, emap in pairs:
        g = f.view(f.bodies.get("core::%s::rule_manager::%s" % (fam, getter)))
        if not ctx.floor("C11.fresh-read", "%s::%s" % (fam, getter), 1 if g else 0, 1):
            continue
        src = set()
        sl = Slicer(f, g)
        for bb, t in g.calls():
            if callee_def(t).rsplit("::", 1)[-1] in ("push", "collect", "extend", "clone", "cloned", "to_vec", "unwrap_or_default", "map") and t["args"]:
                for a in t["args"]:
                    src |= {x[7:].rsplit("::", 1)[-1] for x in sl.of_operand(a) if x.startswith("static:")}
        at0 = {x[7:].rsplit("::", 1)[-1] for x in sl.of_local(0) if x.startswith("static:")}
        ok = emap in (src | at0)
        # slots call the getter inside check / callbacks (per entry), not from a cached static
        users = [cb.path for cb, bb, t in f.callers_of(g.path) if "slot" in cb.path]
        ctx.instance("C11.fresh-read", g.path, {"reads": sorted(src | at0), "slot_callers": len(users)}, "reads %s; called by the slots per entry" % emap, ok and len(users) >= 1, cfg)
        if not (ok and users):
            ctx.violation("C11.fresh-read", "C11.fresh-read|%s" % fam, "%s slots do not read the enforced list of the entry's resource on every check" % fam, g.loc(), config=cfg)
