"""C07 — throttling paces admissions, bounds queueing and really delays the caller.

Decided (DESIGN §3 C07):
  C07.units        A8 over the whole crate: every +, -, comparison, atomic store/CAS and sink argument with both units known has equal
                   units; in particular the value handed to TokenResult::new_should_wait / Wait is in ns, the unit sleep_for_ns sleeps in
  C07.wait-origin  that value is (scheduled time - now)
  C07.sleeps       flow and hotspot slots: the Wait(n) arm calls sleep_for_ns with exactly that n before the next controller / the return
  C07.decision     flow throttling: batch == 0 -> pass; threshold <= 0 -> blocked; batch > threshold -> blocked; otherwise
                   wait > max_queueing -> blocked, wait < max_queueing -> pass or Wait (equality unconstrained);
                   hotspot throttling: accept iff expected <= now or expected - now < max_queueing (equality unconstrained); threshold 0 -> blocked
  C07.early-reject the always-rejected cases touch no scheduling state
  C07.spacing-inputs the spacing has batch_count, the allowed threshold and the interval (flow) / duration_in_sec and the per-value threshold
                   (hotspot) in its origin set
  C07.sleep-under-lock no sleep with a lock other than the entry's own context held (A1.4)
"""
from .core import *
from . import decision as D
from .decrules import *
from .units import Units
from .lockgraph import LockGraph


def run(ctx):
    ctx.explanation = (
        "Unit-of-measure inference (ns/ms/s) over the MIR of the whole crate, seeded by callee signatures, name suffixes and a short "
        "carrier table; reports any operation or sink whose operand units are both known and differ. Decision tables for the two "
        "throttling checkers (direction of the queueing test, early rejections), path rule for the sleeping Wait arm of both slots, "
        "origin completeness of the spacing, lock-graph rule for sleeping under locks.")
    ctx.not_decided = "the spacing batch*interval/r between consecutive admissions over arrival patterns (arithmetic over runtime values); CAS races."
    ctx.assumptions = ["unit seeds (names, carrier table in sa/units.py) describe the intended units", "equality in the queueing test is unconstrained by the statement"]
    cfg = "core-default"
    f = ctx.facts(cfg)
    units(ctx, f, cfg)
    sleeps(ctx, f, cfg)
    flow_decision(ctx, f, cfg)
    hotspot_decision(ctx, f, cfg)
    schedule_store(ctx, f, cfg)
    pacing_arithmetic(ctx, f, cfg)
    # the schedule in force is the one of the rule last loaded: rule equality (which decides whether a reload keeps the old checker) reads
    # every parameter, in particular the interval a throttling rule paces by
    from . import rules_C11
    rules_C11.eq_coverage(ctx, f, "flow", "core::flow::rule::Rule", cfg, R="C07.rule-current/equality")
    rules_C11.eq_coverage(ctx, f, "hotspot", "core::hotspot::rule::Rule", cfg, R="C07.rule-current/equality")
    g = LockGraph(f)
    g.build()
    bad = [(s, sorted({h["cls"] for h in s["held"]} - {"inst:EntryContext"})) for s in g.sleep_sites]
    bad = [(s, o) for s, o in bad if o]
    ctx.instance("C07.sleep-under-lock", "sleep sites", {"with_any_lock": len(g.sleep_sites), "with_shared_lock": len(bad)}, "only the entry's own context", not bad, cfg)
    for s, o in bad:
        ctx.violation("C07.sleep-under-lock", "C07.sleep-under-lock|%s|%s" % (s["body"].path.replace("core::", "", 1), ",".join(o)), "the caller is put to sleep while %s is held" % o, s["body"].loc(s["bb"]), config=cfg)


def units(ctx, f, cfg):
    n_checked = 0
    sink_sites = {"new_should_wait": 0, "sleep_for_ns": 0}
    per_mod = {}
    for p, b in f.bodies.items():
        u = Units(f, b).run()
        n_checked += len(u.checked)
        for c in u.checked:
            mod = "::".join(p.replace("<", "").split("::")[:3])
            per_mod[mod] = per_mod.get(mod, 0) + 1
            for k in sink_sites:
                if k in c["what"]:
                    sink_sites[k] += 1
        for c in u.conflicts:
            ctx.instance("C07.units", "%s @ %s" % (p, c["what"]), "%s vs %s" % (c["a"], c["b"]), "equal units", False, cfg)
            ctx.violation("C07.units", "C07.units|%s|%s|%s-vs-%s" % (p.replace("core::", "", 1), c["what"], c["a"], c["b"]),
                          "unit mismatch: %s gets a value in %s where %s is required (%s)" % (c["what"], c["b"], c["a"], p), c["loc"], config=cfg)
        for c in u.checked[:2]:
            if c not in u.conflicts and ("throttling" in p or "slot" in p):
                ctx.instance("C07.units", "%s @ %s" % (p, c["what"]), "%s vs %s" % (c["a"], c["b"]), "equal units", True, cfg)
    ctx.extra["unit_sites_checked"] = n_checked
    ctx.extra["unit_sites_per_module"] = per_mod
    ctx.floor("C07.units", "operations/sinks with both units known", n_checked, 60)
    ctx.floor("C07.units", "new_should_wait arguments with a known unit", sink_sites["new_should_wait"], 2)
    # the wait handed out is (scheduled - now)
    n = 0
    for p, b in f.bodies.items():
        sl = None
        for bb, t in b.calls():
            if callee_is(t, "TokenResult::new_should_wait"):
                if const_val(t["args"][0]) == 0:
                    continue
                sl = sl or Slicer(f, b)
                a = sl.of_operand(t["args"][0])
                ok = "op:Sub" in a and (any_atom(a, "call:curr_time_nanos") or any_atom(a, "call:curr_time_millis")) and any(x.startswith("field:") for x in a)
                n += 1
                ctx.instance("C07.wait-origin", p, sorted(short(x) for x in a if x.startswith(("call:core", "op:Sub", "field:core")))[:8], "scheduled time - now", ok, cfg)
                if not ok:
                    ctx.violation("C07.wait-origin", "C07.wait-origin|" + p.replace("core::", "", 1), "the wait handed to the slot is not (scheduled time - now)", b.loc(bb), config=cfg)
    ctx.floor("C07.wait-origin", "non-constant new_should_wait sites", n, 2)


def sleeps(ctx, f, cfg):
    enum = f.adts.get("core::base::result::TokenResult")
    names = [v["name"] for v in enum["variants"]]
    n = 0
    for fam in ("flow", "hotspot"):
        slots = [b for b in f.impl_methods("RuleCheckSlot", "check") if "::%s::" % fam in b.path]
        if not slots:
            continue
        b = f.view(f.raw(slots[0]))
        sl = Slicer(f, b)
        # sleeps whose argument is the payload of the Wait verdict (the arm's binding, or verdict.nanos_to_wait())
        good = set()
        any_sleep = 0
        for sb, st in b.calls():
            if callee_is(st, "utils::time::sleep_for_ns", "sleep_for_ns"):
                any_sleep += 1
                aa = sl.of_operand(st["args"][0])
                if (any("TokenResult::Wait" in x for x in aa if x.startswith("field:")) or any_atom(aa, "call:TokenResult::nanos_to_wait")) and any_atom(aa, "call:Controller::perform_checking") \
                        or (any("TokenResult::Wait" in x for x in aa if x.startswith("field:")) and any(x.endswith("perform_checking") or x.endswith("can_pass_check") for x in aa if x.startswith("call:"))):
                    good.add(sb)

        def classify(atoms, op=None, b=b):
            if op is not None and discr_of_call(b, op, "Iterator::next"):
                return "iter"
            if "discr" in atoms and any(x.endswith("perform_checking") for x in atoms if x.startswith("call:")):
                return "verdict"
            keep = sorted(short(a) for a in atoms if a.startswith(("field:core", "call:core")))
            return "other:" + ",".join(keep[:6])
        w = D.Walker(f, b, classify)
        w.summarise_predicates = True
        pcs = [bb for bb, t in b.calls() if callee_def(t).endswith("perform_checking")]
        detail = {"sleep_sites": any_sleep, "sleep_with_payload": len(good), "verdict_sites": len(pcs)}
        ok = False
        if pcs and good:
            its = [x for x, tt in b.calls() if callee_is(tt, "Iterator::next")]
            paths = []
            for pc in pcs:
                paths += w.walk(b.term(pc)["target"], lambda bb, env: ("next",) if bb in its else None)

            def outcome(p, asg):
                return "sleeps=%d" % sum(1 for x in p["blocks"] if x in good)

            def expected(asg):
                v = asg["disc"].get("verdict")
                if not isinstance(v, int) or v >= len(names):
                    return None
                return "sleeps=1" if names[v] == "Wait" else "sleeps=0"
            nr, ncon, mism = run_table(ctx, "C07.sleeps", b.path, cfg, paths, outcome, expected)
            detail.update({"rows": nr, "constrained": ncon, "mismatches": mism[:3]})
            ok = not mism and ncon >= 3
        n += 1
        ctx.instance("C07.sleeps", b.path, detail, "Wait(n) verdict -> exactly one sleep_for_ns(n) before the next controller / the return; no sleep otherwise", ok, cfg)
        if not ok:
            ctx.violation("C07.sleeps", "C07.sleeps|" + fam, "%s slot: a Wait verdict does not hold the caller for the scheduled time: %s" % (fam, detail), b.loc(), config=cfg)
    ctx.floor("C07.sleeps", "slots with a Wait arm", n, 2)
    # sleep_for_ns really sleeps for that many ns
    sf = f.one("utils::time::sleep_for_ns")
    if sf is not None:
        names_ = [callee_def(t) for _, t in sf.calls()]
        ok = any(x.endswith("thread::sleep") for x in names_) and any(x.endswith("Duration::from_nanos") for x in names_)
        ctx.instance("C07.sleeps/impl", sf.path, [x.rsplit("::", 2)[-2] + "::" + x.rsplit("::", 1)[-1] for x in names_], "thread::sleep(Duration::from_nanos(ns))", ok, cfg)
        if not ok:
            ctx.violation("C07.sleeps", "C07.sleeps|sleep_for_ns", "sleep_for_ns does not sleep for the given nanoseconds", sf.loc(), config=cfg)


def _outcome_kind(b, p, blocked, passed, waits, touch):
    k = p["outcome"][0]
    tch = any(x in touch for x in p["blocks"][:-1]) or (p["blocks"][-1] in touch and k not in ("blocked", "pass", "wait"))
    return k, tch


def flow_decision(ctx, f, cfg):
    cands = [b for b in f.impl_methods("flow::traffic_shaping::Checker", "do_check") if any(callee_is(t, "TokenResult::new_should_wait") for _, t in b.calls())]
    if not ctx.floor("C07.decision", "flow throttling checker (impl Checker::do_check calling new_should_wait)", len(cands), 1):
        return
    b = cands[0]
    roles = [
        ("wait", ["field:ThrottlingChecker.last_passed_time", "call:curr_time_nanos", "op:Sub"], []),
        ("expected", ["field:ThrottlingChecker.last_passed_time", "op:Add"], ["call:curr_time_nanos"]),
        ("now", ["call:curr_time_nanos"], ["field:ThrottlingChecker.last_passed_time"]),
        ("maxq", ["field:ThrottlingChecker.max_queueing_time_ns"], []),
        ("batch", ["param:batch_count"], ["param:threshold"]),
        ("threshold", ["param:threshold"], ["param:batch_count"]),
    ]
    cls = make_classifier(roles)
    blocked = {bb for bb, t, vs, c in blocked_sites(f, b)}
    passed = {bb for bb, t in b.calls() if callee_is(t, "TokenResult::new_pass")}
    waits = {bb for bb, t in b.calls() if callee_is(t, "TokenResult::new_should_wait")}
    touch = {bb for bb, t in b.calls() if atomic_op(t)}

    def oname(t, atoms):
        n = callee_def(t).rsplit("::", 1)[-1]
        return "cas.is_ok" if n == "is_ok" else n
    w = D.Walker(f, b, cls, opaque_name=oname)

    def stop(bb, env):
        if bb in blocked:
            return ("blocked",)
        if bb in passed:
            return ("pass",)
        if bb in waits:
            return ("wait",)
        return None
    paths = w.walk(0, stop)

    def outcome(p, asg):
        k = p["outcome"][0]
        t = sum(1 for x in p["blocks"] if x in touch)
        return "%s,state_touched=%s" % (k, "yes" if t else "no")

    def expected(asg):
        rb = D.rel_of(asg, "batch", "const:0")
        if rb == "=":
            return "pass,state_touched=no"
        rt = D.rel_of(asg, "threshold", "const:0.0")
        if rt is None or rb is None:
            return None
        if rt in "<=":
            return "blocked,state_touched=no"
        rbt = D.rel_of(asg, "batch", "threshold")
        if rbt is None:
            return None
        if rbt == ">":
            return "blocked,state_touched=no"
        re_ = D.rel_of(asg, "expected", "now")
        cas = asg["opaque"].get("cas.is_ok")
        if re_ is None:
            return None
        if re_ in "<=" and cas:
            return "pass,state_touched=yes"
        rw = D.rel_of(asg, "wait", "maxq")
        if rw is None or rw == "=":
            return None
        if rw == ">":
            return "blocked,state_touched=yes"
        return "wait,state_touched=yes"
    n, ncon, mism = run_table(ctx, "C07.decision", b.path, cfg, paths, outcome, expected)
    ctx.instance("C07.decision", b.path, {"rows": n, "constrained": ncon, "mismatches": mism[:3], "paths": len(paths)},
                 "batch==0 pass; threshold<=0 or batch>threshold blocked untouched; wait>maxq blocked; wait<maxq queued", not mism and ncon >= 20, cfg)
    if mism or ncon < 20:
        ctx.violation("C07.decision", "C07.decision|flow", "flow throttling decision deviates: %s" % (mism[:1] or "tests not recognised"), b.loc(), ["case [%s]: found %s expected %s" % m for m in mism[:6]], config=cfg)
    # spacing inputs
    sl = Slicer(f, b)
    spacing = set()
    for bb, t in b.calls():
        if atomic_op(t) == "fetch_add":
            spacing |= sl.of_operand(t["args"][1])
    need = ["param:batch_count", "param:threshold", "field:ThrottlingChecker.stat_interval_ns"]
    missing = [x for x in need if not any_atom(spacing, x)]
    ctx.instance("C07.spacing-inputs", b.path, sorted(short(a) for a in spacing if a.startswith(("param:", "field:core", "op:")))[:8], need, not missing, cfg)
    if missing:
        ctx.violation("C07.spacing-inputs", "C07.spacing-inputs|flow|" + ",".join(missing), "the spacing added to the schedule does not depend on %s" % missing, b.loc(), config=cfg)
    # stat_interval_ns derives from the rule's interval (ms -> ns), default 1000 ms
    nb = [x for p, x in f.bodies.items() if x.impl_self == b.impl_self and x.name == "new"]
    if nb:
        at = set()
        for blk in nb[0].blocks:
            for s in blk["stmts"]:
                if s["k"] == "assign" and s["rv"]["k"] == "agg" and s["rv"].get("adt") == b.impl_self:
                    fi = s["rv"]["fields"]
                    if "stat_interval_ns" in fi:
                        at = Slicer(f, nb[0]).of_operand(s["rv"]["ops"][fi.index("stat_interval_ns")])
        ok = any_atom(at, "field:Rule.stat_interval_ms") and any_atom(at, "call:milli2nano")
        ctx.instance("C07.spacing-inputs/interval", nb[0].path, sorted(short(a) for a in at if a.startswith(("field:core", "call:core", "const:")))[:6], "milli2nano(rule.stat_interval_ms)", ok, cfg)
        if not ok:
            ctx.violation("C07.spacing-inputs", "C07.spacing-inputs|flow|interval", "the throttling interval is not the rule's statistic interval converted to ns", nb[0].loc(), config=cfg)


def hotspot_decision(ctx, f, cfg):
    cands = [b for b in f.impl_methods("hotspot::traffic_shaping::Checker", "do_check") if any(callee_is(t, "TokenResult::new_should_wait") for _, t in b.calls())]
    if not ctx.floor("C07.decision", "hotspot throttling checker", len(cands), 1):
        return
    b = cands[0]
    roles = [
        ("wait", ["field:ParamsMetric.rule_time_counter", "call:curr_time_millis", "op:Sub"], []),
        ("expected", ["field:ParamsMetric.rule_time_counter", "op:Add"], ["call:curr_time_millis"]),
        ("now", ["call:curr_time_millis"], ["field:ParamsMetric.rule_time_counter"]),
        ("maxq", ["field:Rule.max_queueing_time_ms"], []),
        ("tokens", ["field:Rule.threshold"], ["call:curr_time_millis"]),
        ("cap", ["call:CounterTrait::cap"], []),
    ]
    cls = make_classifier(roles)
    blocked = {bb for bb, t, vs, c in blocked_sites(f, b)}
    passed = {bb for bb, t in b.calls() if callee_is(t, "TokenResult::new_pass")}
    waits = {bb for bb, t in b.calls() if callee_is(t, "TokenResult::new_should_wait")}

    def oname(t, atoms):
        n = callee_def(t).rsplit("::", 1)[-1]
        if n == "is_ok":
            return "cas.is_ok"
        if n == "is_none":
            return "first_sight"
        return n
    w = D.Walker(f, b, cls, opaque_name=oname)

    def stop(bb, env):
        if bb in blocked:
            return ("blocked",)
        if bb in passed:
            return ("pass",)
        if bb in waits:
            return ("wait",)
        return None
    paths = w.walk(0, stop)

    def outcome(p, asg):
        k = p["outcome"][0]
        return "retry" if k == "loop" else k

    def expected(asg):
        rc = D.rel_of(asg, "cap", "const:0")
        if rc == "=":
            return "pass"
        rt = D.rel_of(asg, "tokens", "const:0")
        if rt is None:
            return None
        if rt == "=":
            return "blocked"
        if asg["opaque"].get("first_sight"):
            return "pass"
        re_ = D.rel_of(asg, "expected", "now")
        rw = D.rel_of(asg, "wait", "maxq")
        if re_ is None or rw is None:
            return None
        accept = re_ in "<=" or rw == "<"
        if not accept:
            if rw == "=":
                return None
            return "blocked"
        if not asg["opaque"].get("cas.is_ok"):
            return "retry"
        return None   # pass or wait depending on the sign of the remaining wait (arithmetic)
    n, ncon, mism = run_table(ctx, "C07.decision", b.path, cfg, paths, outcome, expected)
    ctx.instance("C07.decision", b.path, {"rows": n, "constrained": ncon, "mismatches": mism[:3], "paths": len(paths)},
                 "threshold 0 blocked; accepted iff expected <= now or (expected - now) < max_queueing; otherwise blocked", not mism and ncon >= 10, cfg)
    if mism or ncon < 10:
        ctx.violation("C07.decision", "C07.decision|hotspot", "hotspot throttling decision deviates: %s" % (mism[:1] or "tests not recognised"), b.loc(), ["case [%s]: found %s expected %s" % m for m in mism[:6]], config=cfg)
    sl = Slicer(f, b)
    spacing = set()
    for blk in b.blocks:
        for s in blk["stmts"]:
            if s["k"] == "assign" and s["rv"]["k"] == "bin" and s["rv"]["op"].startswith("Add"):
                a = sl.of_operand(s["rv"]["a"]) | sl.of_operand(s["rv"]["b"])
                if any_atom(a, "field:ParamsMetric.rule_time_counter"):
                    spacing |= a
    need = ["param:batch_count", "field:Rule.duration_in_sec", "field:Rule.threshold", "field:Rule.specific_items"]
    missing = [x for x in need if not any_atom(spacing, x)]
    ctx.instance("C07.spacing-inputs", b.path, sorted(short(a) for a in spacing if a.startswith(("param:", "field:core")))[:8], need, not missing, cfg)
    if missing:
        ctx.violation("C07.spacing-inputs", "C07.spacing-inputs|hotspot|" + ",".join(missing), "the per-value spacing does not depend on %s" % missing, b.loc(), config=cfg)
    # per-value: the schedule cell is keyed by the checked argument
    keyed = True
    for bb, t in b.calls():
        if callee_def(t).rsplit("::", 1)[-1] in ("add_if_absent", "get", "add") and any_atom(sl.of_operand(t["args"][0]), "field:ParamsMetric.rule_time_counter"):
            keyed = keyed and any_atom(sl.of_operand(t["args"][1]), "param:arg")
    ctx.instance("C07.decision/per-value", b.path, "schedule cell keyed by the checked argument: %s" % keyed, "true", keyed, cfg)
    if not keyed:
        ctx.violation("C07.decision", "C07.decision|hotspot|key", "the throttling schedule is not kept per parameter value", b.loc(), config=cfg)


WIDE = ("u64", "i64", "u128", "i128", "f64", "usize", "isize")


def pacing_arithmetic(ctx, f, cfg, R="C07.pacing-arithmetic"):
    """The spacing batch * interval / rate and the unit conversions keep their precision and range: (a) no integer division whose
    truncated result is multiplied (or converted to a real number) afterwards in the throttling checkers - `batch * (interval / rate)`
    under-paces whenever rate does not divide the interval; (b) the ms <-> ns factor is applied in a 64-bit (or wider) type - a queueing
    time of a few seconds times 10^6 does not fit 32 bits."""
    from .lossy import int_div_sites
    bodies = [b for p, b in f.bodies.items() if "traffic_shaping::throttling" in p and "::test" not in p]
    lossy = []
    for b in bodies:
        for kind, bi, what in int_div_sites(f, b):
            lossy.append((b, bi, what))
    narrow = []
    for p, b in f.bodies.items():
        if "::test" in p or not ("traffic_shaping" in p or "::utils::time" in p or "::flow::slot" in p or "::hotspot::slot" in p):
            continue
        sl = None
        for bi, blk in enumerate(b.blocks):
            if blk["cleanup"]:
                continue
            for st in blk["stmts"]:
                if st["k"] == "assign" and st["rv"]["k"] == "bin" and st["rv"]["op"] in ("Mul", "MulWithOverflow", "Div") and not st.get("exp"):
                    sl = sl or Slicer(f, b)
                    ops = (st["rv"]["a"], st["rv"]["b"])
                    if any(any(x.endswith(("unix_time_unit_offset", "UNIX_TIME_UNIT_OFFSET")) for x in sl.of_operand(o)) for o in ops):
                        tys = [b.local_ty(op_place(o)["l"]) if op_place(o) else None for o in ops]
                        if any(t is not None and t not in WIDE for t in tys):
                            narrow.append((b, bi, tys))
    ok = not lossy and not narrow and len(bodies) >= 3
    ctx.instance(R, "throttling checkers + time conversions", {"bodies": len(bodies), "truncating_divisions": [x[0].path for x in lossy], "narrow_unit_conversions": [(x[0].path, x[2]) for x in narrow]},
                 "no divide-then-multiply; ms<->ns factor applied in 64 bits", ok, cfg)
    for b, bi, what in lossy:
        ctx.violation(R, "%s|lossy|%s" % (R, b.path.replace("core::", "", 1)), "%s: %s - the spacing is under-estimated whenever the divisor does not divide the interval" % (b.path, what), b.loc(bi), config=cfg)
    for b, bi, tys in narrow:
        ctx.violation(R, "%s|narrow|%s" % (R, b.path.replace("core::", "", 1)), "%s applies the ms<->ns factor in %s arithmetic: times above ~4.29 s overflow (panic with overflow checks, wrong wait otherwise)" % (b.path, [t for t in tys if t]), b.loc(bi), config=cfg)


def _user_local(b, op, depth=0):
    """First user-named local reached from the operand through copies / casts."""
    pl = op_place(op)
    while pl is not None and depth < 8:
        if b.vname(pl["l"]) and not pl["p"]:
            return pl["l"]
        d = def_of_local(b, pl["l"])
        if not d or d[0] != "assign":
            return None
        rv = d[3]["rv"]
        if rv["k"] in ("use", "cast") and isinstance(rv.get("op"), dict):
            pl = op_place(rv["op"])
        else:
            return None
        depth += 1
    return None


def schedule_store(ctx, f, cfg):
    """C07.schedule-store: what is written back to the schedule.
    (i) on the immediate-admission branch the schedule is set to *now* (not to a slot in the past);
    (ii) on the queueing branch the slot recorded is the very slot whose distance to now is handed out as the wait."""
    for fam, trait in (("flow", "flow::traffic_shaping::Checker"), ("hotspot", "hotspot::traffic_shaping::Checker")):
        cands = [b for b in f.impl_methods(trait, "do_check") if any(callee_is(t, "TokenResult::new_should_wait") for _, t in b.calls())]
        if not cands:
            continue
        b = cands[0]
        sl = Slicer(f, b)
        now_call = "call:curr_time_nanos" if fam == "flow" else "call:curr_time_millis"
        cell = "field:ThrottlingChecker.last_passed_time" if fam == "flow" else "field:ParamsMetric.rule_time_counter"
        # (i) compare_exchange new value
        cas = [(bb, t) for bb, t in b.calls() if atomic_op(t) == "compare_exchange" and any_atom(sl.of_operand(t["args"][0]), cell)]
        ok1 = bool(cas)
        form = []
        for bb, t in cas:
            a = sl.of_operand(t["args"][2])
            only_now = any_atom(a, now_call) and not any_atom(a, cell) and "op:Add" not in a and "op:Sub" not in a
            form.append({"new_value_is_now": only_now})
            ok1 = ok1 and only_now
        ctx.instance("C07.schedule-store/admit-now", b.path, form, "immediate admission records the current time", ok1, cfg)
        if not ok1:
            ctx.violation("C07.schedule-store", "C07.schedule-store|%s|admit-now" % fam, "%s throttling: an immediately admitted request does not set the schedule to the current time (a slot in the past lets the next request in too early)" % fam, b.loc(), config=cfg)
        # (ii) queued slot
        waits = [(bb, t) for bb, t in b.calls() if callee_is(t, "TokenResult::new_should_wait") and const_val(t["args"][0]) != 0]
        ok2 = bool(waits)
        detail = []
        for bb, t in waits:
            # minuend of the subtraction feeding the wait
            minuend = None
            seen = set()
            work = [t["args"][0]]
            while work and minuend is None:
                op = work.pop()
                pl = op_place(op)
                if pl is None or pl["l"] in seen:
                    continue
                seen.add(pl["l"])
                for kind, bi, si, node, projs in b.defs().get(pl["l"], []):
                    if kind == "assign":
                        rv = node["rv"]
                        if rv["k"] == "bin" and rv["op"].startswith("Sub"):
                            minuend = _user_local(b, rv["a"])
                            break
                        for key in ("op", "a"):
                            if key in rv and isinstance(rv[key], dict):
                                work.append(rv[key])
                    else:
                        work.extend(node["args"])
            recorded = False
            how = None
            if minuend is not None:
                # the schedule write on this path: a store of that local, or the local is itself the result of fetch_add on the cell
                at_m = sl.of_local(minuend)
                if fam == "flow":
                    recorded = any(x.startswith("call:") and x.endswith("fetch_add") for x in at_m) and any_atom(at_m, cell)
                    how = "slot = fetch_add(interval) + interval"
                else:
                    for sb, st in b.calls():
                        if atomic_op(st) == "store" and any_atom(sl.of_operand(st["args"][0]), cell) and b.dominates(sb, bb) or (atomic_op(st) == "store" and any_atom(sl.of_operand(st["args"][0]), cell) and bb in b.reachable([sb])):
                            if _user_local(b, st["args"][1]) == minuend:
                                recorded = True
                                how = "store(slot)"
            detail.append({"slot_local": b.vname(minuend) if minuend is not None else None, "recorded": recorded, "how": how})
            ok2 = ok2 and recorded
        ctx.instance("C07.schedule-store/queued-slot", b.path, detail, "the slot handed out (now + wait) is the slot recorded in the schedule", ok2, cfg)
        if not ok2:
            ctx.violation("C07.schedule-store", "C07.schedule-store|%s|queued-slot" % fam, "%s throttling: the slot recorded for a queued request is not the slot it was told to wait for: later callers are scheduled against a different time (%s)" % (fam, detail), b.loc(), config=cfg)
