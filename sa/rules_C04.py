"""C04 — every entry is accounted exactly once: pass xor block, completion, in-flight.

Decided (DESIGN §3 C04):
  C04.who-may          increase_concurrency is reachable only from on_entry_pass callbacks, decrease_concurrency only from
                       on_completed callbacks, add_count(Pass|Block|Complete|Rt) only from the matching callback
  C04.recorder         ResourceNodeStatSlot callbacks, per path (decision table): no node -> nothing;
                       pass  -> {inc, add(Pass, batch)} on the node (+ the same on the inbound node iff traffic == Inbound)
                       block -> {add(Block, batch)} (+ mirror), never inc/dec/Complete/Rt
                       done  -> {add(Rt, now - start), add(Complete, batch), dec} (+ mirror)
  C04.counter          ResourceNode in-flight counter: +1 / -1 single RMWs on `concurrency`; no other writer
  C04.pairing          (via C13's rules, re-checked here as preconditions) exactly one of pass/blocked per entry, completion iff
                       not blocked, build() exits blocked entries itself
  C04.macro-exit       (thorough, examples-full) macro-generated wrappers: the Ok(entry) arm reaches entry.exit() on every path
"""
from .core import *
from . import decision as D
from .decrules import *
from .effects import Effects, roots_of, prim_of, event_of


def run(ctx):
    ctx.explanation = (
        "Who-may-call rules over the whole-crate call graph (class-hierarchy resolution of the dyn slot calls) for the "
        "in-flight counter and the Pass/Block/Complete/Rt counters; effect-sequence decision tables of the three "
        "ResourceNodeStatSlot callbacks (which counters, on which node, under which guard, with which count origin); "
        "single-RMW discipline on ResourceNode.concurrency; C13's chain rules as the pairing precondition.")
    ctx.not_decided = "numerical totals over histories; window placement of the counts (C02); concurrent interleavings (C14)."
    ctx.assumptions = ["the callbacks are invoked as C13 decides (one of pass/blocked per entry; completion iff passed)",
                       "custom StatSlot implementations outside the crate are not constrained"]
    cfg = "core-default"
    f = ctx.facts(cfg)
    who_may(ctx, f, cfg)
    recorder(ctx, f, cfg)
    counter(ctx, f, cfg)
    # precondition from the chain (C13): the library's check slots never leave a non-Blocked, non-Pass verdict in the context
    from . import rules_C13
    rules_C13.slot_stores(ctx, f, cfg)
    # precondition from the node storage (C14): every entry of a resource is accounted on the node that readers of that resource see -
    # a node handed out without being retained in the map records its entries where nobody looks ("never neither")
    from . import rules_C14
    from .lockgraph import LockGraph
    g = LockGraph(f)
    g.build()
    rules_C14.one_node(ctx, f, g, cfg)
    if ctx.tier == "thorough":
        macro_exit(ctx)


CB = {"on_entry_pass": "pass", "on_entry_blocked": "blocked", "on_completed": "completed"}


def who_may(ctx, f, cfg):
    eff = Effects(f)
    cb_paths = {}
    for name, role in CB.items():
        for b in f.impl_methods("StatSlot", name):
            cb_paths[b.path] = role
    stop = lambda b: b.path in cb_paths
    expect = {("inc", None): {"pass"}, ("dec", None): {"completed"}, ("add", "Pass"): {"pass"}, ("add", "Block"): {"blocked"},
              ("add", "Complete"): {"completed"}, ("add", "Rt"): {"completed"}}
    seen = {k: 0 for k in expect}
    for p, b in f.bodies.items():
        if b.kind not in ("Fn", "AssocFn", "Closure"):
            continue
        sl = None
        for bb, t in b.calls():
            k = prim_of(t)
            if not k:
                continue
            sl = sl or Slicer(f, b)
            ev = event_of(sl, t) if k == "add" else None
            if k == "add" and (ev.startswith("<") or ev == "?"):
                continue   # delegation: the event is a parameter here; constrained at the site that fixes it
            key = (k, ev)
            if key not in expect:
                if k == "add":
                    continue   # other events (Error, ...) are not named by this property
            # skip the delegation inside StatNode/ConcurrencyStat impls themselves (ResourceNode -> arr)
            if b.impl_trait and b.impl_trait.endswith(("ConcurrencyStat", "WriteStat")):
                continue
            roots = roots_of(f, p, stop)
            roles = {cb_paths.get(r, "other:" + r) for r in roots}
            if p in cb_paths:
                roles = {cb_paths[p]}
            ok = roles <= expect[key]
            seen[key] += 1
            ctx.instance("C04.who-may", "%s@%s" % (p, "%s(%s)" % (k, ev) if ev else k), sorted(roles), sorted(expect[key]), ok, cfg)
            if not ok:
                bad = sorted(roles - expect[key])
                ctx.violation("C04.who-may", "C04.who-may|%s|%s|%s" % (k, ev or "-", ",".join(_strip(x) for x in bad)),
                              "%s%s is reachable from %s; only %s callbacks may do that" % (
                                  {"inc": "increase_concurrency", "dec": "decrease_concurrency", "add": "add_count"}[k], "(%s)" % ev if ev else "", bad, sorted(expect[key])),
                              b.loc(bb), config=cfg)
    for key, n in seen.items():
        ctx.floor("C04.who-may", "call sites of %s%s" % (key[0], "(%s)" % key[1] if key[1] else ""), n, 1)


def _strip(x):
    return x.replace("other:", "").rsplit("::", 2)[-2] + "::" + x.rsplit("::", 1)[-1] if "::" in x else x


def _node_slot_callbacks(f):
    out = {}
    for name in CB:
        for b in f.impl_methods("StatSlot", name):
            if "::stat::" in b.path and "circuitbreaker" not in b.path and "hotspot" not in b.path and "flow" not in b.path:
                out[name] = b
    return out


def recorder(ctx, f, cfg):
    global TRAFFIC
    TRAFFIC = [v["name"] for v in (f.adts.get("core::base::resource::TrafficType") or {}).get("variants", [])]
    eff = Effects(f)
    cbs = _node_slot_callbacks(f)
    if not ctx.floor("C04.recorder", "ResourceNodeStatSlot callbacks (impl StatSlot in core::stat)", len(cbs), 3):
        return
    cls = make_classifier([("traffic", ["call:ResourceWrapper::traffic_type"], []), ("Inbound", ["variant:TrafficType::Inbound"], []),
                           ("stat_node", ["call:EntryContext::stat_node"], ["call:ResourceWrapper::traffic_type"])])
    for name, b in cbs.items():
        sl = Slicer(f, b)
        per_block = {}
        origin_ok = True
        origin_notes = []
        for bb, t in b.calls():
            es = eff.site_effect(b, bb, sl)
            lst = []
            for kind, ev, recv, cnt in es:
                tgt = "inbound" if any_atom(recv, "call:inbound_node") else ("node" if any_atom(recv, "call:EntryContext::stat_node") else "other")
                lst.append((kind, ev, tgt))
                if kind == "add":
                    if ev == "Rt":
                        okc = atoms_have(cnt, "call:curr_time_millis", "call:EntryContext::start_time", "op:Sub")
                        origin_notes.append("Rt count from curr_time_millis() - ctx.start_time(): %s" % okc)
                    else:
                        okc = any_atom(cnt, "call:SentinelInput::batch_count")
                        origin_notes.append("%s count from input.batch_count(): %s" % (ev, okc))
                    origin_ok = origin_ok and okc
            if lst:
                per_block[bb] = lst
        w = D.Walker(f, b, cls)
        w.option_calls_as_disc = True
        paths = w.walk(0, lambda bb, env: None)

        def outcome(p, asg, per_block=per_block):
            seq = []
            for x in p["blocks"]:
                seq.extend(per_block.get(x, []))
            return ";".join(sorted("%s%s@%s" % (k, "(%s)" % e if e else "", t) for k, e, t in seq)) or "-"
        base = {"on_entry_pass": [("inc", None), ("add", "Pass")], "on_entry_blocked": [("add", "Block")],
                "on_completed": [("add", "Rt"), ("add", "Complete"), ("dec", None)]}[name]

        def expected(asg, base=base):
            sn = asg["disc"].get("stat_node")
            if sn is None:
                return None
            if sn == 0:
                return "-"
            if sn != 1:
                return None
            inb = variant_is(asg, "traffic", TRAFFIC, "Inbound")
            if inb is None:
                return None
            seq = [(k, e, "node") for k, e in base]
            if inb:
                seq += [(k, e, "inbound") for k, e in base]
            return ";".join(sorted("%s%s@%s" % (k, "(%s)" % e if e else "", t) for k, e, t in seq))
        n, ncon, mism = run_table(ctx, "C04.recorder", b.path, cfg, paths, outcome, expected)
        ok = not mism and ncon >= 3 and origin_ok
        ctx.instance("C04.recorder", b.path, {"rows": n, "constrained": ncon, "mismatches": mism[:3], "count_origins": sorted(set(origin_notes))},
                     "effects per path = %s on the entry's node, mirrored on the inbound node iff traffic_type == Inbound; nothing without a node" % base, ok, cfg)
        if mism or ncon < 3:
            ctx.violation("C04.recorder", "C04.recorder|%s|table" % name,
                          "%s does not record exactly %s on the node (+ inbound mirror iff Inbound): %s" % (name, base, mism[:1] or "guards not found"),
                          b.loc(), ["case [%s]: found %s expected %s" % m for m in mism[:6]], config=cfg)
        if not origin_ok:
            ctx.violation("C04.recorder", "C04.recorder|%s|count-origin" % name, "%s records a count that is not the entry's batch count / response time: %s" % (name, sorted(set(origin_notes))), b.loc(), config=cfg)


def counter(ctx, f, cfg):
    # impls of ConcurrencyStat for the statistics node
    inc = [b for b in f.impl_methods("ConcurrencyStat", "increase_concurrency")]
    dec = [b for b in f.impl_methods("ConcurrencyStat", "decrease_concurrency")]
    if not ctx.floor("C04.counter", "impl ConcurrencyStat::{increase,decrease}_concurrency", len(inc) + len(dec), 2):
        return
    for b, op in [(x, "fetch_add") for x in inc] + [(x, "fetch_sub") for x in dec]:
        sl = Slicer(f, b)
        ops = []
        for bb, t in b.calls():
            a = atomic_op(t)
            if a and a != "load":
                recv = sl.of_operand(t["args"][0])
                fld = sorted(x.rsplit(".", 1)[-1] for x in recv if x.startswith("field:") and "ResourceNode." in x)
                ops.append((a, const_val(t["args"][1]) if len(t["args"]) > 1 else None, fld, b.in_loop(bb)))
        ok = ops == [(op, 1, ["concurrency"], False)]
        ctx.instance("C04.counter/rmw", b.path, ops, [(op, 1, ["concurrency"], False)], ok, cfg)
        if not ok:
            ctx.violation("C04.counter", "C04.counter|%s" % b.name, "%s must be one %s(1) on ResourceNode.concurrency, found %s" % (b.name, op, ops), b.loc(), config=cfg)
    # no other writer of the in-flight counter
    writers = []
    for p, b in f.bodies.items():
        sl = None
        for bb, t in b.calls():
            a = atomic_op(t)
            if a and a != "load":
                sl = sl or Slicer(f, b)
                recv = sl.of_operand(t["args"][0])
                if any_atom(recv, "field:ResourceNode.concurrency"):
                    writers.append(p)
    extra = sorted(set(writers) - {b.path for b in inc + dec})
    ctx.instance("C04.counter/writers", "ResourceNode.concurrency", sorted(set(writers)), "only the two ConcurrencyStat methods", not extra, cfg)
    for p in extra:
        ctx.violation("C04.counter", "C04.counter|extra-writer|" + p, "%s writes the in-flight counter" % p, f.bodies[p].loc(), config=cfg)


def macro_exit(ctx):
    cfg = "examples-full"
    f = ctx.facts(cfg, crates=None)
    n = 0
    for p, b in f.bodies.items():
        if b.crate in ("sentinel_core", "sentinel_macros"):
            continue
        builds = [bb for bb, t in b.calls() if callee_is(t, "EntryBuilder::build")]
        for bbuild in builds:
            tb = b.term(bbuild)
            cur = tb["target"]
            sw = None
            for _ in range(8):
                t = b.term(cur)
                if t and t["k"] == "switch":
                    sw = cur
                    break
                nx = b.succs(cur)
                if len(nx) != 1:
                    break
                cur = nx[0]
            if sw is None:
                continue
            at = Slicer(f, b).of_operand(b.term(sw)["op"])
            if "discr" not in at or not any_atom(at, "call:EntryBuilder::build"):
                continue
            ok_t = [tg for v, tg in b.term(sw)["targets"] if v == 0]
            if not ok_t:
                continue
            exits = [x for x, t in b.calls() if callee_is(t, "EntryStrongPtr::exit")]
            w = must_pass(b, ok_t, b.return_blocks(), exits)
            n += 1
            ctx.instance("C04.macro-exit", p, "Ok(entry) arm -> return avoiding exit(): %s" % (fmt_path(b, w) if w else None), "none", w is None, cfg)
            if w:
                ctx.violation("C04.macro-exit", "C04.macro-exit|" + p, "an admitted entry can leave %s without exit()" % p, b.loc(ok_t[0]), fmt_path(b, w), config=cfg)
    ctx.floor("C04.macro-exit", "build() match sites in examples (incl. macro-generated wrappers)", n, 10)
