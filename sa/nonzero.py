"""Must-nonzero facts (local discharge of division / remainder asserts).

Forward must-dataflow over the non-unwind CFG.  Facts are keys of values known to be non-zero:
  - established on the edges of a switch whose condition compares the value with constant 0,
  - established on the Ok/Continue edge after a call to a local validator whose summary says
    "returns Ok only if parameter i != 0" (summaries computed by the same analysis, to a fixpoint depth of 3),
  - preserved through copies and integer casts.
"""
from .core import *

ZERO_OPS = {"Eq": ("nz_on_false",), "Ne": ("nz_on_true",), "Gt": ("nz_on_true_a",), "Lt": ("nz_on_true_b",),
            "Le": ("nz_on_false_a",), "Ge": ("nz_on_false_b",)}


def key_of(b, op, depth=0):
    """Canonical key of the value read by operand `op` (place string after following copies / casts)."""
    if op is None or depth > 10:
        return None
    if op.get("k") == "const":
        return None
    pl = op["pl"]
    if pl["p"]:
        # tuple field of a checked arithmetic result etc. are not tracked
        if all(p.startswith(".") and not p[1:].isdigit() or p == "*" for p in pl["p"]):
            base = key_of(b, {"k": "copy", "pl": {"l": pl["l"], "p": []}}, depth + 1) or ("_%d" % pl["l"])
            return base + "".join(pl["p"])
        return place_str(pl)
    d = def_of_local(b, pl["l"])
    if d and d[0] == "assign":
        rv = d[3]["rv"]
        if rv["k"] == "use" and rv["op"].get("k") in ("copy", "move"):
            return key_of(b, rv["op"], depth + 1)
        if rv["k"] == "cast" and rv["kind"].startswith(("IntToInt", "IntToFloat")) and rv["op"].get("k") in ("copy", "move"):
            return key_of(b, rv["op"], depth + 1)
        if rv["k"] == "ref":
            return key_of(b, {"k": "copy", "pl": rv["pl"]}, depth + 1)
    if d and d[0] == "call" and callee_is(d[3], "Deref::deref", "Clone::clone"):
        return key_of(b, d[3]["args"][0], depth + 1)
    return "_%d" % pl["l"]


def is_zero_const(op):
    return op is not None and op.get("k") == "const" and (op.get("val") == 0 or op.get("fval") in ("0.0", "-0.0"))


class NonZero:
    def __init__(self, facts):
        self.f = facts
        self._sum = {}
        self._in = {}

    def edge_facts(self, b, bb, cur=()):
        """For a switch block: {target: set(keys known nonzero on that edge)}."""
        t = b.term(bb)
        out = {}
        if not t or t["k"] != "switch":
            return out
        pl = op_place(t["op"])
        if pl is None:
            return out
        if t.get("ty") == "bool":
            te = bool_edge_targets(b, bb)
            if not te:
                return out
            true_t, false_t = te
            d = def_of_local(b, pl["l"])
            neg = False
            while d and d[0] == "assign" and d[3]["rv"]["k"] == "un" and d[3]["rv"]["op"] == "Not":
                neg = not neg
                p2 = op_place(d[3]["rv"]["a"])
                d = def_of_local(b, p2["l"]) if p2 else None
            # a boolean with conditional facts (see facts_in): its true edge yields them
            x0 = "_%d" % pl["l"]
            imps = {k[2] for k in cur if isinstance(k, tuple) and k[0] == "imp" and k[1] == x0}
            if imps and not pl["p"]:
                out.setdefault(true_t, set()).update(imps)
            if d and d[0] == "assign" and d[3]["rv"]["k"] == "bin" and d[3]["rv"]["op"] in ZERO_OPS:
                rv = d[3]["rv"]
                a, c = rv["a"], rv["b"]
                op = rv["op"]
                key = None
                on_true = None
                if op in ("Eq", "Ne"):
                    if is_zero_const(c):
                        key = key_of(b, a)
                    elif is_zero_const(a):
                        key = key_of(b, c)
                    on_true = (op == "Ne")
                elif op == "Gt" and is_zero_const(c):
                    key, on_true = key_of(b, a), True
                elif op == "Lt" and is_zero_const(a):
                    key, on_true = key_of(b, c), True
                elif op == "Le" and is_zero_const(c):
                    key, on_true = key_of(b, a), False
                elif op == "Ge" and is_zero_const(a):
                    key, on_true = key_of(b, c), False
                if key is not None:
                    if neg:
                        on_true = not on_true
                    out.setdefault(true_t if on_true else false_t, set()).add(key)
            return out
        # discriminant of Try::branch(V(..)) or of V(..) itself: Continue / Ok edge
        d = def_of_local(b, pl["l"])
        if d and d[0] == "assign" and d[3]["rv"]["k"] == "discr":
            src = d[3]["rv"]["pl"]["l"]
            d2 = def_of_local(b, src)
            call = None
            if d2 and d2[0] == "call":
                if callee_is(d2[3], "Try::branch"):
                    p3 = op_place(d2[3]["args"][0])
                    d3 = def_of_local(b, p3["l"]) if p3 else None
                    if d3 and d3[0] == "call":
                        call = d3[3]
                else:
                    call = d2[3]
            if call is not None:
                keys = set()
                for tgt in self.f.call_targets(b, call):
                    vb = self.f.bodies.get(tgt)
                    if vb is None:
                        continue
                    for i in self.ok_nonzero(vb):
                        if i - 1 < len(call["args"]):
                            k = key_of(b, call["args"][i - 1])
                            if k:
                                keys.add(k)
                if keys:
                    listed = [v for v, _ in t["targets"]]
                    for v, tg in t["targets"]:
                        if v == 0:
                            out.setdefault(tg, set()).update(keys)
                    if 0 not in listed and listed == [1] and (b.term(t["otherwise"]) or {}).get("k") != "unreachable":
                        out.setdefault(t["otherwise"], set()).update(keys)      # `if let Err(e) = v(..) { return .. }`: the fall-through is Ok
        return out

    def facts_in(self, b):
        if (b.path, hasattr(b, "base")) in self._in:
            return self._in[(b.path, hasattr(b, "base"))]
        n = len(b.blocks)
        TOP = None
        IN = {0: frozenset()}
        work = [0]
        preds = b.preds()
        def dead(k, x):
            return k == x or k.startswith(x + ".") or k.startswith(x + "*")

        def holds(x, S):
            if x in S:
                return True
            if isinstance(x, tuple) and x[0] == "imp":
                return ("false", x[1]) in S or x[2] in S
            return False
        while work:
            bb = work.pop()
            cur = set(IN[bb])
            # statements in order: a reassigned local loses its facts; a boolean local gains conditional facts
            #   L = const false            ->  ("false", L)              (L true implies anything)
            #   L = <any other value>      ->  ("imp", L, K) for every K known non-zero here (they hold whatever L turns out to be)
            #   L = copy/move M            ->  M's conditional facts carry over
            # (`a != 0 && b != 0 && a % b == 0` computed as a VALUE - e.g. returned by a predicate helper - is materialised this way)
            for s in b.blocks[bb]["stmts"]:
                if s["k"] != "assign" or s["lhs"]["p"]:
                    continue
                x = "_%d" % s["lhs"]["l"]
                carried = set()
                rv = s["rv"]
                if rv["k"] == "use" and rv["op"].get("k") in ("copy", "move") and not rv["op"]["pl"]["p"]:
                    y = "_%d" % rv["op"]["pl"]["l"]
                    for k in cur:
                        if isinstance(k, tuple) and k[1] == y:
                            carried.add((k[0], x) + tuple(k[2:]))
                cur = {k for k in cur if not ((isinstance(k, str) and dead(k, x)) or (isinstance(k, tuple) and (k[1] == x or (k[0] == "imp" and dead(k[2], x)))))}
                if b.local_ty(s["lhs"]["l"]) == "bool":
                    if rv["k"] == "use" and rv["op"].get("k") == "const" and rv["op"].get("val") in (0, False):
                        cur.add(("false", x))
                    else:
                        cur |= {("imp", x, k) for k in cur if isinstance(k, str)}
                cur |= carried
            ef = self.edge_facts(b, bb, cur)
            t = b.term(bb)
            if t and t["k"] == "call" and not t["dest"]["p"]:
                x = "_%d" % t["dest"]["l"]
                cur = {k for k in cur if not ((isinstance(k, str) and dead(k, x)) or (isinstance(k, tuple) and (k[1] == x or (k[0] == "imp" and dead(k[2], x)))))}
            base = frozenset(cur)
            for s2 in b.succs(bb):
                new = base | frozenset(ef.get(s2, ()))
                old = IN.get(s2)
                if old is None:
                    merged = new
                else:
                    merged = frozenset(x for x in (old | new) if holds(x, old) and holds(x, new))
                if merged != old:
                    IN[s2] = merged
                    work.append(s2)
        self._in[(b.path, hasattr(b, "base"))] = IN
        return IN

    def ok_nonzero(self, vb, depth=0):
        """Parameter indices (1-based) that are non-zero whenever `vb` returns Ok / true-ish success."""
        if vb.path in self._sum:
            return self._sum[vb.path]
        self._sum[vb.path] = set()
        if depth > 3 or "Result<" not in vb.ret_ty:
            return set()
        vb = self.f.view(vb)          # private predicate helpers of the validator are part of it
        IN = self.facts_in(vb)
        ok_blocks = []
        for bi, blk in enumerate(vb.blocks):
            if blk["cleanup"]:
                continue
            for s in blk["stmts"]:
                if s["k"] == "assign" and s["lhs"]["l"] == 0 and not s["lhs"]["p"] and s["rv"]["k"] == "agg" and s["rv"].get("variant") == "Ok":
                    ok_blocks.append(bi)
        if not ok_blocks:
            return set()
        common = None
        for bi in ok_blocks:
            fs = IN.get(bi)
            if fs is None:
                continue
            ks = set()
            for i in range(1, vb.argc + 1):
                if ("_%d" % i) in fs:
                    ks.add(i)
            common = ks if common is None else (common & ks)
        self._sum[vb.path] = common or set()
        return self._sum[vb.path]

    def divisor_nonzero(self, b, bb):
        """For an Assert(div_zero / rem_zero) block: is the divisor known nonzero here?  Returns reason or None."""
        t = b.term(bb)
        pl = op_place(t["cond"])
        if pl is None:
            return None
        d = def_of_local(b, pl["l"])
        if not d or d[0] != "assign" or d[3]["rv"]["k"] != "bin" or d[3]["rv"]["op"] != "Eq":
            return None
        rv = d[3]["rv"]
        div = rv["a"] if is_zero_const(rv["b"]) else (rv["b"] if is_zero_const(rv["a"]) else None)
        if div is None:
            return None
        if div.get("k") == "const":
            return "constant non-zero divisor" if div.get("val") not in (0, None) or (div.get("fval") not in (None, "0.0")) else None
        k = key_of(b, div)
        IN = self.facts_in(b)
        if k and k in IN.get(bb, ()):
            return "divisor %s tested non-zero on every path to the division" % k
        # multiplication by a non-zero constant of a non-zero value, or max(1, x) are not modelled
        return None
