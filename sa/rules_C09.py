"""C09 — system protection rejects inbound traffic exactly when a system metric trips.

Decided (DESIGN §3 C09):
  C09.arms        exhaustive match over system::MetricType (5 arms vs the enum's variant list)
  C09.decision    per arm: InboundQPS/Concurrency/AvgRT trip iff observed >= threshold;
                  Load/CpuUsage trip iff observed > threshold && (strategy != BBR || !bbr_ok)
  C09.operands    observed origins per arm (inbound node qps(Pass) / current_concurrency / avg_rt,
                  system_metric::current_load / current_cpu_usage)
  C09.bbr         bbr_ok == !(conc > 1 && conc > max_avg(Complete) * min_rt / 1000) on the inbound node
  C09.outbound    Outbound entries return the unchanged result before any rule is read
  C09.gate        Blocked constructed iff the checker refused; the loop stops at the first refusal
  C09.report      BlockType::SystemFlow, rule and observed value attached
"""
from .core import *
from . import decision as D
from .decrules import *

ARMS = {
    "InboundQPS": ("qps", "ge"),
    "Concurrency": ("conc", "ge"),
    "AvgRT": ("rt", "ge"),
    "Load": ("load", "gt_bbr"),
    "CpuUsage": ("cpu", "gt_bbr"),
}
OBS = {
    "qps": ["call:qps", "variant:MetricEvent::Pass", "call:inbound_node"],
    "conc": ["call:ConcurrencyStat::current_concurrency", "call:inbound_node"],
    "rt": ["call:avg_rt", "call:inbound_node"],
    "load": ["call:system_metric::current_load"],
    "cpu": ["call:system_metric::current_cpu_usage"],
}


def run(ctx):
    ctx.explanation = (
        "The system checker's match over MetricType is checked for exhaustiveness against the enum, and each arm's "
        "decision formula is extracted from MIR (A6: path enumeration, boolean environment for the `res` flag, "
        "role-identified comparisons) and compared with the statement's operator for that metric over all orderings "
        "of (observed, threshold) x strategy==BBR x bbr_ok; the BBR helper's own formula and operand origins are "
        "checked the same way; the Outbound early return, the block gate in the slot and the constants of the "
        "rejection (SystemFlow, rule, observed value) are path/origin rules.")
    ctx.not_decided = "that the observed statistics equal the traffic history (C02/C04); injected load/CPU readings themselves."
    ctx.assumptions = ["float NaN orderings ignored"]
    cfg = "core-default"
    f = ctx.facts(cfg)
    checks = [b for b in f.impl_methods("RuleCheckSlot", "check") if "::system::" in b.path]
    if not ctx.floor("C09.anchor", "impl RuleCheckSlot::check in core::system", len(checks), 1):
        return
    chk = checks[0]
    reach = f.reach_bodies([chk.path])
    decs = [f.bodies[p] for p in reach if "::system::" in p and any(callee_is(t, "system_metric::current_load") for _, t in f.bodies[p].calls())]
    if not ctx.floor("C09.anchor", "system decision body (reads system_metric::current_load)", len(decs), 1):
        return
    # the BBR capacity test stays a call (it is judged on its own below); every other private helper of the decision is inlined
    bbr_paths = [p for p in f.reach_bodies([decs[0].path]) if p != decs[0].path and "::system::" in p and f.bodies[p].ret_ty == "bool"
                 and any(callee_def(t).endswith("max_avg") for _, t in f.view(f.bodies[p]).calls())]
    # (a wrapper such as `exceeds(value, rule) = value > T && (strategy != BBR || !bbr())` also reaches max_avg: the BBR test is the
    # innermost such function, the wrapper belongs to the decision and is inlined)
    bbr_paths = [p for p in bbr_paths if not any(q != p and q in f.reach_bodies([p]) for q in bbr_paths)]
    dec = f.view(f.raw(decs[0]), keep=tuple(bbr_paths))
    enum = f.adts.get("core::system::rule::MetricType")
    variants = [v["name"] for v in enum["variants"]] if enum else []
    ok = sorted(variants) == sorted(ARMS)
    ctx.instance("C09.arms/enum", "core::system::rule::MetricType", variants, sorted(ARMS), ok, cfg)
    if not ok:
        ctx.violation("C09.arms", "C09.arms|enum-variants", "system MetricType variants %s differ from the five the statement names" % variants, config=cfg)
        return
    roles = [(r, pats, []) for r, pats in OBS.items()]
    roles += [("threshold", ["field:Rule.threshold"], []), ("strategy", ["field:Rule.strategy"], []),
              ("BBR", ["variant:AdaptiveStrategy::BBR"], []), ("metric_type", ["field:Rule.metric_type"], [])]
    cls = make_classifier(roles)
    bbr_bodies = [f.view(f.bodies[p]) for p in bbr_paths]

    def opaque_name(t, atoms):
        if bbr_bodies and callee_is(t, bbr_bodies[0].path):
            return "bbr_ok"
        return "call:" + callee_def(t).rsplit("::", 1)[-1]
    w = D.Walker(f, dec, cls, opaque_name=opaque_name)
    paths = w.walk(0, lambda bb, env: None)
    # the discriminant switched on must be the rule's metric type
    disc_roles = {l[1] for p in paths for l in p["lits"] if l[0] in ("disc", "disc_other")}
    if "metric_type" not in disc_roles:
        ctx.violation("C09.arms", "C09.arms|no-match-on-metric-type", "the system decision does not match on rule.metric_type", dec.loc(), config=cfg)
        return
    covered = sorted({l[2] for p in paths for l in p["lits"] if l[0] == "disc" and l[1] == "metric_type"})
    ok = covered == list(range(len(variants)))
    ctx.instance("C09.arms/exhaustive", dec.path, "arms for discriminants %s" % covered, "one arm per variant %s" % list(range(len(variants))), ok, cfg)
    if not ok:
        ctx.violation("C09.arms", "C09.arms|not-exhaustive", "match on metric_type handles discriminants %s of %d variants" % (covered, len(variants)), dec.loc(), config=cfg)

    def outcome(p, asg):
        v = p["env"].get("_0.0")
        if v is None:
            return "unknown"
        return "pass" if D.ev(v, asg) else "trip"
    n_arms = 0
    for vi, vname in enumerate(variants):
        role, kind = ARMS[vname]
        arm_paths = [p for p in paths if ("disc", "metric_type", vi) in p["lits"]]

        def expected(asg, role=role, kind=kind):
            r = D.rel_of(asg, role, "threshold")
            if r is None:
                return None
            if kind == "ge":
                return "trip" if r in ">=" else "pass"
            if r != ">":
                return "pass"
            s = D.rel_of(asg, "BBR", "strategy")
            bo = asg["opaque"].get("bbr_ok")
            if s is None or bo is None:
                return None
            is_bbr = s == "="
            return "trip" if (not is_bbr or not bo) else "pass"
        n, ncon, mism = run_table(ctx, "C09.decision", dec.path + "#" + vname, cfg, arm_paths, outcome, expected, fix_disc={"metric_type": vi})
        used_pair = any(l[0] == "cmp" and {l[2], l[3]} == {role, "threshold"} for p in arm_paths for l in _cmps(p))
        # neither side of that comparison may go through a lossy cast (a float threshold truncated to an integer trips at floor(T))
        lossy = []
        sl_d = Slicer(f, dec)
        for blk in dec.blocks:
            for st in blk["stmts"]:
                if st["k"] == "assign" and st["rv"]["k"] == "bin" and st["rv"]["op"] in D.CMP_OPS:
                    aa, ab = sl_d.of_operand(st["rv"]["a"]), sl_d.of_operand(st["rv"]["b"])
                    if {cls(aa), cls(ab)} == {role, "threshold"}:
                        lossy += sorted(x for x in (aa | ab) if x in ("cast:FloatToInt", "cast:narrow"))
        if lossy:
            ctx.instance("C09.operands/lossless", "%s arm %s" % (dec.path, vname), sorted(set(lossy)), "no truncating cast on either operand", False, cfg)
            ctx.violation("C09.operands", "C09.operands|%s|%s" % (vname, ",".join(sorted(set(lossy)))),
                          "arm %s compares through a truncating cast (%s): a fractional threshold trips at floor(T) instead of at the threshold" % (vname, sorted(set(lossy))), dec.loc(), config=cfg)
        okk = not mism and ncon > 0 and used_pair
        ctx.instance("C09.decision", "%s arm %s" % (dec.path, vname),
                     {"rows": n, "constrained": ncon, "mismatches": mism[:3], "paths": len(arm_paths), "compares": "%s vs threshold: %s" % (role, used_pair)},
                     {"ge": "trip iff observed >= threshold", "gt_bbr": "trip iff observed > threshold && (strategy != BBR || !bbr_ok)"}[kind], okk, cfg)
        n_arms += 1
        if not used_pair:
            ctx.violation("C09.operands", "C09.operands|%s" % vname,
                          "arm %s does not compare %s with rule.threshold" % (vname, "/".join(OBS[role])), dec.loc(), config=cfg)
        elif mism or not ncon:
            ctx.violation("C09.decision", "C09.decision|%s" % vname,
                          "system arm %s: decision differs from the statement (%s): e.g. [%s] gives %s, expected %s" % (
                              (vname, "observed >= threshold" if kind == "ge" else "observed > threshold && (strategy != BBR || !bbr_ok)") + (mism[0] if mism else ("-", "-", "-"))),
                          dec.loc(), ["case [%s]: found %s expected %s" % m for m in mism[:6]], config=cfg)
    ctx.floor("C09.decision", "arms of the system metric match", n_arms, 5)
    # snapshot carries the observed value per arm
    sl = Slicer(f, dec)
    somes = []
    for bi, blk in enumerate(dec.blocks):
        for s in blk["stmts"]:
            if s["k"] == "assign" and s["rv"]["k"] == "agg" and s["rv"].get("adt", "").endswith("Option") and s["rv"]["variant"] == "Some":
                somes.append(sl.of_operand(s["rv"]["ops"][0]))
    for role, pats in OBS.items():
        ok = any(atoms_have(a, *pats) for a in somes)
        ctx.instance("C09.report/snapshot", "%s#%s" % (dec.path, role), "Some(snapshot) built from %s: %s" % (pats[0], ok), "true", ok, cfg)
        if not ok:
            ctx.violation("C09.report", "C09.report|snapshot|%s" % role, "the snapshot of the %s arm is not the observed value" % role, dec.loc(), config=cfg)
    # BBR helper
    if ctx.floor("C09.bbr", "bbr helper (bool fn reachable from the system decision)", len(bbr_bodies), 1):
        bbr(ctx, f, bbr_bodies[0], cfg)
    slot(ctx, f, chk, dec, cfg)
    # the thresholds compared are the ones last loaded: a reload that changes a parameter is not mistaken for "unchanged"
    # (system::load_rules skips the update when the new list equals the current one)
    from . import rules_C11
    rules_C11.eq_coverage(ctx, f, "system", "core::system::rule::Rule", cfg, R="C09.rules-current/equality")
    # ... and the system rule manager keeps its snapshot in step with what it enforces (load / append), so that no rule that is no
    # longer loaded keeps rejecting traffic
    from . import rules_C10
    mod = "core::system::rule_manager"
    from . import rules_C02
    rules_C02.gateway(ctx, f, cfg)       # qps / avg_rt of the inbound node are window statistics: read only through the window filter
    bodies = rules_C10.manager_bodies(f, "system")
    rules_C10.raw_snapshot(ctx, f, "system", bodies, cfg)
    rules_C10.append_snapshot(ctx, f, "system", bodies, cfg)


def _cmps(p):
    out = []

    def rec(e):
        if e is None:
            return
        if e[0] == "cmp":
            out.append(e)
        elif e[0] == "not":
            rec(e[1])
        elif e[0] in ("and", "or"):
            rec(e[1])
            rec(e[2])
    for l in p["lits"]:
        rec(l)
    for v in p["env"].values():
        rec(v)
    return out


def bbr(ctx, f, b, cfg):
    roles = [
        ("capacity", ["call:max_avg", "variant:MetricEvent::Complete", "call:min_rt", "op:Mul"], []),
        ("conc", ["call:ConcurrencyStat::current_concurrency"], ["call:max_avg"]),
    ]
    cls = make_classifier(roles)
    w = D.Walker(f, b, cls)
    paths = w.walk(0, lambda bb, env: None)

    def outcome(p, asg):
        v = p["env"].get("_0")
        if v is None:
            return "unknown"
        return "ok" if D.ev(v, asg) else "overloaded"

    def expected(asg):
        r1 = D.rel_of(asg, "conc", "const:1.0")
        r2 = D.rel_of(asg, "conc", "capacity")
        if r1 is None or r2 is None:
            return None
        return "overloaded" if (r1 == ">" and r2 == ">") else "ok"
    n, ncon, mism = run_table(ctx, "C09.bbr", b.path, cfg, paths, outcome, expected)
    ctx.instance("C09.bbr", b.path, {"rows": n, "constrained": ncon, "mismatches": mism[:3]},
                 "bbr_ok == !(in_flight > 1 && in_flight > max_avg(Complete) * min_rt / 1000)", not mism and ncon > 0, cfg)
    if mism or not ncon:
        ctx.violation("C09.bbr", "C09.bbr|table", "BBR capacity test differs from `in_flight > 1 && in_flight > best_rate * min_rt`: %s" % (mism[:1] or "comparisons not found"),
                      b.loc(), config=cfg)
    # operand origins: everything from the inbound node; ms->s scaling by 1000
    sl = Slicer(f, b)
    cap = set()
    for bi, blk in enumerate(b.blocks):
        for s in blk["stmts"]:
            if s["k"] == "assign" and s["rv"]["k"] == "bin" and s["rv"]["op"] in D.CMP_OPS:
                for o in (s["rv"]["a"], s["rv"]["b"]):
                    at = sl.of_operand(o)
                    if cls(at) == "capacity":
                        cap |= at
    need = ["call:inbound_node", "call:max_avg", "variant:MetricEvent::Complete", "call:min_rt", "const:1000.0", "op:Mul", "op:Div"]
    missing = [p for p in need if not any_atom(cap, p)]
    ctx.instance("C09.bbr/operands", b.path, sorted(short(a) for a in cap if a.startswith(("call:core", "variant:", "const:", "op:"))), need, not missing, cfg)
    if missing:
        ctx.violation("C09.bbr", "C09.bbr|operands|" + ",".join(missing), "estimated capacity lacks inputs: %s" % missing, b.loc(), config=cfg)


def slot(ctx, f, chk, dec, cfg):
    # view of the slot in which the per-rule decision stays ONE call (its inside is judged per arm above); loops, search closures and
    # private wrappers around it are normalised
    chk = f.view(f.raw(chk), keep=(dec.path,))
    sl = Slicer(f, chk)
    tenum = f.adts.get("core::base::resource::TrafficType") or {}
    tvars = [v["name"] for v in tenum.get("variants", [])]
    base = make_classifier([("traffic", ["call:ResourceWrapper::traffic_type"], []), ("Outbound", ["variant:TrafficType::Outbound"], []),
                            ("Inbound", ["variant:TrafficType::Inbound"], [])])

    def cls(atoms, op=None):
        if op is not None and discr_of_call(chk, op, "Iterator::next"):
            return "iter"
        if ("call:" + dec.path) in atoms and not any_atom(atoms, "call:Iterator::next") or ("call:" + dec.path) in atoms:
            return "passed"
        return base(atoms, op)
    rules_bbs = {bb for bb, t in chk.calls() if callee_is(t, "system::rule_manager::get_rules", "get_rules")}
    blocked_bbs = {bb for bb, t, vs, c in blocked_sites(f, chk)}
    if not ctx.floor("C09.outbound", "get_rules call in system slot", len(rules_bbs), 1):
        return
    w = D.Walker(f, chk, cls)
    paths = w.walk(0, lambda bb, env: ("blocked",) if bb in blocked_bbs else None)

    def outcome(p, asg):
        reads = any(bb in rules_bbs for bb in p["blocks"])
        if p["outcome"][0] == "blocked":
            return "blocked"
        return "not-blocked,reads-rules" if reads else "not-blocked,no-rule-read"

    def passed_of(asg):
        k = [k for k in asg["opaque"] if k.startswith("bool:passed")]
        if k:
            return asg["opaque"][k[0]]
        d = asg["disc"].get("passed")
        if d in (0, 1):
            return bool(d)
        return None

    def expected(asg):
        ob = variant_is(asg, "traffic", tvars, "Outbound")
        if ob is None:
            return None
        if ob:
            return "not-blocked,no-rule-read"
        it = asg["disc"].get("iter")
        if it == 0:
            return "not-blocked,reads-rules"
        if it not in (None, 1):
            return None
        if any(not v for k, v in asg["opaque"].items() if k.startswith("closure-ran:") and k.rsplit(":", 1)[-1] in ("find_map", "find", "any", "position", "try_for_each", "for_each")):
            return "not-blocked,reads-rules"
        pv = passed_of(asg)
        if pv is None:
            return None
        return "not-blocked,reads-rules" if pv else "blocked"
    n, ncon, mism = run_table(ctx, "C09.gate", chk.path, cfg, paths, outcome, expected)
    n_out = sum(1 for a, o in [(None, None)] if False)
    has_out = any(l for p in paths for l in p["lits"] if "traffic" in str(l))
    has_gate = any("passed" in str(l) for p in paths for l in p["lits"])
    # after blocking, the slot returns (no further rule can overwrite the verdict)
    after = True
    for bb in blocked_bbs:
        r = chk.reachable(chk.succs(bb))
        if any(x in r for x in rules_bbs) or any((chk.term(x) or {}).get("k") == "call" and (callee_is(chk.term(x), "Iterator::next") or callee_def(chk.term(x)) == dec.path) for x in r):
            after = False
    okg = not mism and ncon >= 3 and has_gate and after
    oko = not [m for m in mism if "no-rule-read" in str(m)] and has_out
    ctx.instance("C09.outbound", chk.path, {"rows": n, "constrained": ncon, "mismatches": [m for m in mism if "no-rule-read" in str(m)][:3], "tests_traffic_type": has_out},
                 "traffic_type == Outbound -> the unchanged result, before any rule is read", oko, cfg)
    if not oko:
        ctx.violation("C09.outbound", "C09.outbound|early-return", "outbound entries are not exempt from system rules: %s" % ([m for m in mism if "no-rule-read" in str(m)][:1] or "test not found"),
                      chk.loc(), config=cfg)
    ctx.instance("C09.gate", chk.path, {"rows": n, "constrained": ncon, "mismatches": mism[:3], "returns_after_block": after},
                 "inbound, per rule: Blocked iff the checker refused; exhausted -> pass; returns right after the first refusal", okg, cfg)
    if not okg and not (not oko and len(mism) == len([m for m in mism if "no-rule-read" in str(m)]) and has_gate and after and ncon >= 3):
        ctx.violation("C09.gate", "C09.gate|table", "system slot does not block exactly when a rule's metric trips: %s" % (mism[:1] or ("continues after block" if not after else "gate not found")), chk.loc(), config=cfg)
    # the observed value attached: whatever the decision read for the tripping metric (through the decision helper, or - in the view,
    # where a private helper is inlined - directly from the metric sources)
    snap = ["call:" + dec.path.rsplit("::", 1)[-1], "call:system_metric::current_load", "call:system_metric::current_cpu_usage",
            "call:ConcurrencyStat::current_concurrency", "call:avg_rt", "call:qps"]
    nb = check_block_constants(ctx, f, chk, "C09.report", cfg, "SystemFlow", ["call:Iterator::next", "call:get_rules"], snap, "system")
    ctx.floor("C09.report", "blocked sites in system slot", nb, 1)
