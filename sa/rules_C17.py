"""C17 — accepted configuration is usable and is the same for every thread.

Decided (DESIGN §3 C17, A9):
  C17.process-wide        no item that stores the configuration has thread-local storage (LocalKey<..ConfigEntity..>)
  C17.validate-before-store every store into the global configuration from a public initialisation entry point is dominated by the
                          success edge of ConfigEntity::check on the stored value (error propagated); writers of the configuration are enumerated
  C17.validator-agreement ConfigEntity::check applies check_validity_for_reuse_statistic to (sample_count, interval_ms, sample_count_total,
                          interval_ms_total); ResourceNode::new builds its array from the accessors of (sample_count_total, interval_ms_total) and
                          its default window from (sample_count, interval_ms) over that array; SlidingWindowMetric::new applies the same validator
                          to (its params, the array's geometry); LeapArray::new's own precondition is implied by the validator (decision tables)
  C17.no-panic            A3 from init_default / init_with_config / init_with_config_file
"""
from .core import *
from . import decision as D
from .decrules import *
from .lockgraph import LockGraph
from . import panics
from .panics import PanicSites, table_row, site_atoms, _origin_key

STAT_FIELDS = ["sample_count", "interval_ms", "sample_count_total", "interval_ms_total"]


def run(ctx):
    ctx.explanation = (
        "Storage-class rule on every static/const whose type mentions ConfigEntity; dominance of the configuration store by the success "
        "edge of ConfigEntity::check (must-pass-through); origin slices tying the validator's arguments, the accessors' field paths and "
        "the constructor arguments in ResourceNode::new to the same four configuration fields; decision tables showing the validator's "
        "Ok condition implies LeapArray::new's; panic reachability from the init entry points.")
    ctx.not_decided = "YAML parsing details of serde_yaml; what the collector threads do after initialisation."
    ctx.assumptions = ["reset_global_config is pub: a direct external call stores without validation (outside the statement: it speaks of configurations accepted by validation)"]
    cfg = "core-default"
    f = ctx.facts(cfg)
    storage(ctx, f, cfg)
    validate_before_store(ctx, f, cfg)
    agreement(ctx, f, cfg)
    no_panic(ctx, f, cfg)


def storage(ctx, f, cfg):
    holders = {"core::config::entity::ConfigEntity"}
    changed = True
    while changed:
        changed = False
        for ap, a in f.adts.items():
            if ap in holders:
                continue
            if any(h in fl["ty"] for v in a["variants"] for fl in v["fields"] for h in holders):
                holders.add(ap)
                changed = True
    items = [(p, s) for p, s in f.statics.items() if any(h in s["ty"] for h in holders)]
    ctx.floor("C17.process-wide", "statics/consts holding a ConfigEntity", len(items), 1)
    seen_lines = set()
    for p, s in sorted(items, key=lambda x: len(x[0])):
        tl = "LocalKey<" in s["ty"] or "thread::local" in s["ty"]
        if (s["file"], s["line"]) in seen_lines:
            continue      # compiler-internal items of the same declaration
        seen_lines.add((s["file"], s["line"]))
        ctx.instance("C17.process-wide", p, s["ty"][:120], "not thread-local", not tl, cfg)
        if tl:
            ctx.violation("C17.process-wide", "C17.process-wide|" + p.replace("core::", "", 1),
                          "the global configuration lives in a thread_local (%s): every thread other than the initialising one - including the collector and metric-log threads - sees the defaults" % s["ty"][:80],
                          "%s:%s" % (s["file"], s["line"]), config=cfg)


def _writers(f):
    """Bodies that obtain mutable access to the global configuration cell."""
    out = []
    from . import inline
    for p, b in f.bodies.items():
        if "config" not in p:
            continue
        # a private helper that only wraps the lock (`fn update(&self, f: impl FnOnce(&mut ConfigEntity))`) is not a writer of its own:
        # the functions that call it are, and their normalised view contains the lock call and the closure they pass
        if inline.default_policy(f, b, b) and f.callers_of(p) and b.kind != "Closure" and any("impl FnOnce" in (l.get("ty") or "") or "{closure" in (l.get("ty") or "") or (l.get("ty") or "") in ("F", "impl FnOnce(&mut core::config::entity::ConfigEntity) -> R") for l in b.locals[1:b.argc + 1]):
            continue
        # ... nor is one that only takes the lock and hands the guard back (`fn write_cfg(c) -> RwLockWriteGuard<ConfigEntity>`)
        if inline.default_policy(f, b, b) and f.callers_of(p) and b.kind != "Closure" and any(g in (b.ret_ty or "") for g in ("RwLockWriteGuard", "RefMut<", "MutexGuard")):
            continue
        v = f.view(b)
        for bb, t in v.calls():
            nm = callee_def(t).rsplit("::", 1)[-1]
            if nm in ("borrow_mut", "write") and ("ConfigEntity" in (t.get("dest_ty") or "") or "GlobalConfig" in (t.get("dest_ty") or "")):
                out.append((b, bb))
                break
    return out


def validate_before_store(ctx, f, cfg):
    ws = _writers(f)
    ctx.floor("C17.validate-before-store", "mutable accesses to the configuration cell", len(ws), 2)
    setters = set()
    for b, bb in ws:
        root = f.bodies[b.root] if b.root and b.root in f.bodies else b
        setters.add(root.path)
    # callers of a pure setter (assigns the whole entity): each call must be dominated by check(value)? Continue
    for sp in sorted(setters):
        sb = f.bodies[sp]
        whole = any(callee_def(t).endswith("ConfigEntity::check") for c in [sb, f.view(sb)] + f.closures_of(sb) for _, t in c.calls())
        if whole:
            # mutates in place and validates afterwards, propagating the error (override_items_from_system_env)
            ok = _check_then_propagate(f, sb)
            ctx.instance("C17.validate-before-store/in-place", sp, "in-place update followed by check()? on the same object: %s" % ok, "true", ok, cfg)
            if not ok:
                ctx.violation("C17.validate-before-store", "C17.validate-before-store|in-place|" + sp.replace("core::", "", 1), "the configuration is modified in place without a propagated check()", sb.loc(), config=cfg)
            continue
        callers = f.callers_of(sp)
        ctx.floor("C17.validate-before-store", "callers of the configuration setter %s" % sp.rsplit("::", 1)[-1], len(callers), 2)
        for cb, bb, t in callers:
            sl = Slicer(f, cb)
            val = {a for a in sl.of_operand(t["args"][0]) if a.startswith(("lid:", "param:"))}
            ok = False
            for d in cb.dominators().get(bb, ()):
                tt = cb.term(d)
                if tt and tt["k"] == "switch":
                    a = sl.of_operand(tt["op"])
                    if not (any_atom(a, "call:ConfigEntity::check") and (val & a)):
                        continue
                    # success edge of the test on check(value): `?` (ControlFlow::Continue = 0), a match / if-let on the Result
                    # (Ok = 0; the unlisted arm of a two-arm test), or is_ok() / is_err()
                    cont = []
                    if "discr" in a:
                        cont = [tg for v, tg in tt["targets"] if v == 0]
                        if not cont and len(tt["targets"]) == 1 and (cb.term(tt["otherwise"]) or {}).get("k") != "unreachable":
                            cont = [tt["otherwise"]]
                    elif tt.get("ty") == "bool" and (any_atom(a, "call:is_ok") or any_atom(a, "call:is_err")):
                        te = bool_edge_targets(cb, d)
                        if te:
                            neg = ("op:Not" in a) != bool(any_atom(a, "call:is_err"))
                            cont = [te[1] if neg else te[0]]
                    if cont and cb.dominates(cont[0], bb):
                        ok = True
            ctx.instance("C17.validate-before-store", "%s -> %s" % (cb.path, sp.rsplit("::", 1)[-1]), "store dominated by check(value)? success edge: %s" % ok, "true", ok, cfg)
            if not ok:
                w = cb.find_path([0], [bb])
                ctx.violation("C17.validate-before-store", "C17.validate-before-store|" + cb.path.replace("core::", "", 1),
                              "%s stores a configuration that did not pass ConfigEntity::check on every path" % cb.path, cb.loc(bb), fmt_path(cb, w or []), config=cfg)


def _check_then_propagate(f, sb):
    for c in [sb] + f.closures_of(sb):
        for bb, t in c.calls():
            if callee_def(t).endswith("ConfigEntity::check"):
                # result goes through Try::branch
                dest = t["dest"]["l"]
                for b2, t2 in c.calls():
                    if callee_is(t2, "Try::branch") and op_place(t2["args"][0]) and op_place(t2["args"][0])["l"] == dest:
                        return True
    # the check's result IS what the function (or the closure run under the lock) returns: its Err reaches the caller
    v = f.view(sb)
    sl = Slicer(f, v)
    if "Result<" in v.ret_ty and any_atom(sl.of_local(0), "call:ConfigEntity::check"):
        return True
    return False


def _accessor_field(f, path):
    """Configuration field path read by an accessor fn (through its closure)."""
    b = f.bodies.get(path)
    if b is None:
        return None
    flds = []
    for c in [b] + f.closures_of(b):
        at = Slicer(f, c).of_local(0)
        flds += [a.rsplit(".", 1)[-1] for a in at if a.startswith("field:") and "config::entity::" in a]
    return flds


def _ok_is_validators(b, bb):
    """the Ok built in block bb belongs to an inlined helper (its own `Ok(())` answer), not to check() itself"""
    return b.blocks[bb].get("src") not in (None, b.path)


def agreement(ctx, f, cfg):
    chk = f.one("ConfigEntity::check")
    if not ctx.floor("C17.validator-agreement", "ConfigEntity::check", 1 if chk else 0, 1):
        return
    sl = Slicer(f, chk)
    sites = [(bb, t) for bb, t in chk.calls() if callee_is(t, "check_validity_for_reuse_statistic")]
    ok = len(sites) == 1
    got = []
    if ok:
        bb, t = sites[0]
        for a in t["args"]:
            at = sl.of_operand(a)
            got.append(sorted(x.rsplit(".", 1)[-1] for x in at if x.startswith("field:") and "StatConfig." in x))
        ok = got == [[x] for x in STAT_FIELDS]
        # error propagated: check() can answer Ok only on the validator's success edge (`?`, match, if-let, is_ok/is_err)
        oks = [bi for bi, blk in enumerate(chk.blocks) if not blk["cleanup"] for s_ in blk["stmts"]
               if s_["k"] == "assign" and s_["lhs"]["l"] == 0 and not s_["lhs"]["p"] and s_["rv"]["k"] == "agg" and s_["rv"].get("variant") == "Ok"]
        dominated = bool(oks) and all(ok_edge_dominates(f, chk, x, "call:check_validity_for_reuse_statistic", sl=sl) for x in oks)
        # ... or the validator's own Result is what check() returns (directly or through a helper that returns it)
        handed_on = any_atom(sl.of_local(0), "call:check_validity_for_reuse_statistic") and not any(
            not ok_edge_dominates(f, chk, x, "call:check_validity_for_reuse_statistic", sl=sl) for x in oks
            if not any_atom(sl.of_local(0), "call:check_validity_for_reuse_statistic") )
        ok = ok and (dominated or (handed_on and all(ok_edge_dominates(f, chk, x, "call:check_validity_for_reuse_statistic", sl=sl) or _ok_is_validators(chk, x) for x in oks)))
    ctx.instance("C17.validator-agreement/check", chk.path, got, [[x] for x in STAT_FIELDS], ok, cfg)
    if not ok:
        ctx.violation("C17.validator-agreement", "C17.validator-agreement|check-args", "ConfigEntity::check does not validate (sample_count, interval_ms, sample_count_total, interval_ms_total) in that role order with the error propagated: %s" % got, chk.loc(), config=cfg)
    # consumer
    rn = f.one("ResourceNode::new")
    if not ctx.floor("C17.validator-agreement", "ResourceNode::new", 1 if rn else 0, 1):
        return
    s2 = Slicer(f, rn)

    def arg_fields(op):
        at = s2.of_operand(op)
        out = []
        for a in sorted(at):
            if a.startswith("call:") and "config::base::" in a:
                out += _accessor_field(f, a[5:]) or []
        return sorted(set(x for x in out if x in STAT_FIELDS))
    arr = [(bb, t) for bb, t in rn.calls() if callee_is(t, "LeapArray::<T>::new", "BucketLeapArray::new")]
    swm = [(bb, t) for bb, t in rn.calls() if callee_is(t, "SlidingWindowMetric::new")]
    form = {}
    ok = len(arr) == 1 and len(swm) == 1
    if ok:
        form["array"] = [arg_fields(a) for a in arr[0][1]["args"][:2]]
        form["window"] = [arg_fields(a) for a in swm[0][1]["args"][:2]]
        inner = s2.of_operand(swm[0][1]["args"][2])
        form["window_over_that_array"] = any(a.startswith("lid:") and a in s2.of_place({"l": arr[0][1]["dest"]["l"], "p": []}) for a in inner) or any_atom(inner, "call:LeapArray::<T>::new")
        ok = form["array"] == [["sample_count_total"], ["interval_ms_total"]] and form["window"] == [["sample_count"], ["interval_ms"]] and form["window_over_that_array"]
    ctx.instance("C17.validator-agreement/consumer", rn.path, form, {"array": [["sample_count_total"], ["interval_ms_total"]], "window": [["sample_count"], ["interval_ms"]]}, ok, cfg)
    if not ok:
        ctx.violation("C17.validator-agreement", "C17.validator-agreement|consumer", "ResourceNode::new does not build its statistics from the four validated configuration fields in the validated roles: %s" % form, rn.loc(), config=cfg)
    # SlidingWindowMetric::new applies the same validator to (params, array geometry)
    sw = f.one("SlidingWindowMetric::new")
    if sw is not None:
        s3 = Slicer(f, sw)
        sites = [(bb, t) for bb, t in sw.calls() if callee_is(t, "check_validity_for_reuse_statistic")]
        ok = len(sites) == 1
        roles = []
        if ok:
            t = sites[0][1]
            for a in t["args"]:
                at = s3.of_operand(a)
                roles.append(sorted(x for x in at if x.startswith("param:") or x.endswith(("::sample_count", "::interval_ms"))))
            ok = ("param:sample_count" in roles[0] and "param:interval_ms" in roles[1] and any(x.endswith("::sample_count") for x in roles[2]) and any(x.endswith("::interval_ms") for x in roles[3])
                  and "param:inner" in roles[2] and "param:inner" in roles[3])
            aggs = [bi for bi, blk in enumerate(sw.blocks) if not blk["cleanup"] for s_ in blk["stmts"] if s_["k"] == "assign" and s_["rv"]["k"] == "agg" and s_["rv"].get("adt", "").endswith("SlidingWindowMetric")]
            ok = ok and bool(aggs) and all(ok_edge_dominates(f, sw, x, "call:check_validity_for_reuse_statistic", sl=s3) for x in aggs)
        ctx.instance("C17.validator-agreement/window-ctor", sw.path, roles, "validator(sample_count, interval_ms, inner.sample_count(), inner.interval_ms())?", ok, cfg)
        if not ok:
            ctx.violation("C17.validator-agreement", "C17.validator-agreement|window-ctor", "SlidingWindowMetric::new does not apply the reuse validator to (its parameters, the array's geometry)", sw.loc(), config=cfg)
    # implication: validator Ok  =>  LeapArray::new Ok, on the same (sample_count, interval) roles
    va = f.one("base::stat::check_validity_for_statistic")
    la = [b for b in f.find("LeapArray::<T>::new")]
    if va is not None and la:
        def table_of(b):
            roles = [("rem", ["op:Rem"], []), ("sample", ["param:sample_count"], ["op:Rem"]), ("interval", ["param:interval_ms"], ["op:Rem"])]
            w = D.Walker(f, b, make_classifier(roles), unroll=2)
            paths = [p for p in w.walk(0, lambda bb, env: None) if p["outcome"][0] == "return"]

            def outcome(p, asg):
                v = None
                for x in reversed(p["blocks"]):
                    for s in b.blocks[x]["stmts"]:
                        if s["k"] == "assign" and s["lhs"]["l"] == 0 and not s["lhs"]["p"] and s["rv"]["k"] == "agg":
                            v = s["rv"].get("variant")
                    t = b.term(x)
                    if v is None and t and t["k"] == "call" and t["dest"]["l"] == 0:
                        v = "Err" if "from_residual" in callee_def(t) else None
                    if v:
                        break
                return v or "?"
            rows, atoms = D.table(paths, outcome)
            res = {}
            for asg, outs in rows:
                key = tuple(sorted((k, v) for k, v in asg["pairs"].items() if "const:0" in k and any(r in k for r in ("rem", "sample", "interval"))))
                if outs:
                    res.setdefault(key, set()).update(outs)
            return res
        tv = table_of(va)
        tl = table_of(la[0])
        bad = []
        n = 0
        for kv, ov in tv.items():
            if ov != {"Ok"}:
                continue
            dv = dict(kv)
            for kl, ol in tl.items():
                dl = dict(kl)
                if all(dv.get(k) == v for k, v in dl.items() if k in dv):
                    n += 1
                    if ol != {"Ok"}:
                        bad.append((kv, sorted(ol)))
        ok = n > 0 and not bad
        ctx.instance("C17.validator-agreement/implication", "%s => %s" % (va.path, la[0].path), {"cases_where_validator_accepts": n, "array_ctor_rejects": bad[:3]},
                     "whenever the validator accepts (sample_count, interval), LeapArray::new accepts them", ok, cfg)
        if not ok:
            ctx.violation("C17.validator-agreement", "C17.validator-agreement|implication", "a geometry accepted by the configuration validator can be rejected by LeapArray::new (ResourceNode::new unwraps it): %s" % (bad[:2] or "tables not comparable"), la[0].loc(), config=cfg)


def no_panic(ctx, f, cfg):
    g = LockGraph(f)
    g.build()
    ps = PanicSites(f)
    eps = [b.path for suf in ("api::init::init_default", "api::init::init_with_config", "api::init::init_with_config_file") for b in f.find(suf)]
    eps += [b.path for b in f.find("ResourceNode::new")]
    if not ctx.floor("C17.no-panic", "init entry points", len(eps), 4):
        return
    reach = f.reach_bodies(eps)
    und = 0
    n = 0
    for s in ps.sites():
        b = s["body"]
        if b.path not in reach or s["poison"]:
            continue
        n += 1
        if ps.discharge_local(s):
            continue
        atoms = site_atoms(f, s)
        if table_row(s, atoms, f) or ps.discharge_in_context(s):
            continue
        und += 1
        ctx.violation("C17.no-panic", "C17.no-panic|%s|%s|%s" % (b.path.replace("core::", "", 1), s["kind"], _origin_key(atoms)),
                      "%s at %s can panic during/after initialisation (%s)" % (s["callee"] or s["kind"], b.path, _origin_key(atoms) or "no guard found"), b.loc(s["bb"]), f.chain(reach, b.path)[-4:], config=cfg)
    ctx.instance("C17.no-panic", "init_* + ResourceNode::new", {"sites": n, "undischarged": und}, "0 undischarged", und == 0, cfg)
