"""C16 — circuit-breaker transitions are atomic under concurrency: one probe, one winner.

Decided (DESIGN §3 C16), all structural:
  C16.transitions   every state store is test-and-store under ONE continuously held guard of the breaker's state mutex, and the
                    transition function returns true exactly on the edge where it stored -> exactly one caller wins a transition
  C16.try_pass      in state Open a request passes only through retry_timeout_arrived() && from_open_to_half_open()==true; in HalfOpen
                    try_pass is false unconditionally -> one probe per Half-Open phase
  C16.ordered-notify listeners are invoked while the state guard is still held, so announcements are serialised in transition order
  C16.single-lock   all transitions of one breaker lock the same mutex object (the field, or the Arc clone of it captured by the hook)
"""
from .core import *
from .locks import LockModel
from .cbrules import *
from . import rules_C03


def run(ctx):
    ctx.explanation = (
        "Guard-liveness dataflow (A1) over every body that stores the breaker state: the `== X` test and the store of Y happen "
        "under one acquisition of the state mutex with no release in between; decision tables show each from_X_to_Y returns true "
        "exactly on the storing edge and try_pass admits in Open only via a winning from_open_to_half_open after the timeout test "
        "and never in HalfOpen; listener calls are made with that same guard held; the hook's mutex is an Arc clone of the field.")
    ctx.not_decided = ("the unlocked read of the state in try_pass/on_request_complete against concurrent transitions is benign only "
                       "because each from_* re-checks under the lock - that re-check is what is enforced; no interleaving is explored.")
    ctx.assumptions = ["std::sync::Mutex provides mutual exclusion", "a guard is released only by drop/move/scope end (MIR Drop/StorageDead)"]
    cfg = "core-default"
    f = ctx.facts(cfg)
    lm = LockModel(f)
    rules_C03.transitions(ctx, f, lm, cfg, "C16")
    rules_C03.try_pass(ctx, f, cfg, "C16")
    # a blocked probe gives the Half-Open phase back through its exit hook: the hook must actually run for blocked entries
    rules_C03.hook_runs_for_blocked(ctx, f, cfg, "C16")
    # listeners under the guard
    n = 0
    for st in state_stores(f):
        b = st["body"]
        if st["value"] == "param":
            continue
        r = lm.analyse(b)
        for bb, name, t in listener_calls(b):
            # held on EVERY path to the notification (a guard dropped on one branch before the join is not held)
            held = [r["acq"][i]["cls"] for i in r["must_held_at_term"].get(bb, ())]
            ok = "inst:State" in held
            n += 1
            ctx.instance("C16.ordered-notify", "%s@%s" % (b.path, name), held, "state guard held during the notification", ok, cfg)
            if not ok:
                ctx.violation("C16.ordered-notify", "C16.ordered-notify|%s|%s" % (b.path.rsplit("::", 1)[-1] if b.kind != "Closure" else "hook", name),
                              "%s is announced after the state lock was released; announcements can be observed out of transition order" % name, b.loc(bb), config=cfg)
    ctx.floor("C16.ordered-notify", "listener call sites in transition bodies", n, 5)
    # the retry deadline is part of the guarded test: the store of HalfOpen is dominated by a test of the deadline made AFTER the state
    # lock was taken (a test made before it may date from before another thread's complete probe cycle, which re-opened the breaker
    # with a new deadline: the late thread would pass while the breaker is Open before the retry timeout)
    for st in state_stores(f):
        b = st["body"]
        if st["value"] != "HalfOpen":
            continue
        r = lm.analyse(b)
        acqs = [a["bb"] for a in r["acq"] if a["cls"] == "inst:State"]
        sl = Slicer(f, b)
        guarded = False
        for d in b.dominators().get(st["bb"], ()):
            tt = b.term(d)
            if not tt or tt["k"] != "switch":
                continue
            at = sl.of_operand(tt["op"])
            if (any_atom(at, "call:BreakerBase::retry_timeout_arrived") or any_atom(at, "field:BreakerBase.next_retry_timestamp_ms")) and any(b.dominates(a, d) for a in acqs):
                te = bool_edge_targets(b, d)
                if te and b.dominates(te[0], st["bb"]):
                    guarded = True
        ctx.instance("C16.deadline-under-lock", b.path, {"half_open_store_dominated_by_deadline_test_under_the_state_lock": guarded}, "true", guarded, cfg)
        if not guarded:
            ctx.violation("C16.deadline-under-lock", "C16.deadline-under-lock|%s" % b.path.rsplit("::", 1)[-1],
                          "Open -> Half-Open is decided on the state alone under the lock; the retry deadline was tested before the lock was taken: a thread that paused across another thread's failed probe cycle passes while the breaker is Open before the (new) retry timeout",
                          b.loc(st["bb"]), config=cfg)
    # single lock object: the hook's captured mutex is a clone of BreakerBase.state
    b = f.one("BreakerBase::from_open_to_half_open")
    if b is not None:
        sl = Slicer(f, b)
        ok = False
        for blk in b.blocks:
            for s in blk["stmts"]:
                if s["k"] == "assign" and s["rv"]["k"] == "agg" and s["rv"].get("closure"):
                    for nm, o in zip(s["rv"].get("fields", []), s["rv"]["ops"]):
                        pl = op_place(o)
                        if pl is not None and "Mutex<" + STATE_ADT in b.local_ty(pl["l"]):
                            at = sl.of_operand(o)
                            ok = any_atom(at, "field:BreakerBase.state") and any_atom(at, "call:Clone::clone") and not any_atom(at, "call:Arc::<T>::new") and not any_atom(at, "call:Mutex::<T>::new")
        ctx.instance("C16.single-lock", b.path, "exit hook captures Arc::clone(&self.state): %s" % ok, "true", ok, cfg)
        if not ok:
            ctx.violation("C16.single-lock", "C16.single-lock|hook", "the rollback hook does not lock the breaker's own state mutex", b.loc(), config=cfg)
    # every State mutex construction site is a breaker constructor (one mutex per breaker)
