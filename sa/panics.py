"""A3 — panic sites, discharge, reachability, panic-under-lock; A2 — check-then-act on shared maps."""
import re
from collections import defaultdict, deque

from .core import *
from .locks import lock_call
from .nonzero import NonZero
from .relfacts import RelFacts

PANIC_FNS = {
    "std::option::Option::<T>::unwrap": "unwrap", "std::option::Option::<T>::expect": "unwrap",
    "std::result::Result::<T, E>::unwrap": "unwrap", "std::result::Result::<T, E>::expect": "unwrap",
    "std::result::Result::<T, E>::unwrap_err": "unwrap", "std::result::Result::<T, E>::expect_err": "unwrap",
    "std::ops::Index::index": "index", "std::ops::IndexMut::index_mut": "index",
    "std::vec::Vec::<T, A>::remove": "index", "std::vec::Vec::<T, A>::swap_remove": "index", "std::vec::Vec::<T, A>::insert": "index",
    "std::cell::RefCell::<T>::borrow": "borrow", "std::cell::RefCell::<T>::borrow_mut": "borrow",
    "std::thread::LocalKey::<T>::with": "tls",
    "std::vec::Vec::<T, A>::split_off": "index", "core::slice::<impl [T]>::copy_from_slice": "index",
}
SHARED_INST = {"inst:State", "inst:dyn Calculator", "inst:dyn Checker", "inst:dyn Checker<C>", "inst:LruCache<K, Arc<Atomic<u64>>>"}


def is_shared(cls):
    return cls.startswith("static:") or cls in SHARED_INST


class PanicSites:
    def __init__(self, facts):
        self.f = facts
        self._sites = None
        self.nz = NonZero(facts)
        self.rel = RelFacts(facts)
        self.exp_impl_methods = set()
        for im in facts.impls:
            if im.get("exp"):
                for it in im["items"]:
                    self.exp_impl_methods.add(it["def"])

    def sites(self):
        if self._sites is not None:
            return self._sites
        out = []
        for p, b in self.f.bodies.items():
            if p in self.exp_impl_methods or (b.root and b.root in self.exp_impl_methods):
                continue
            for bi, blk in enumerate(b.blocks):
                if blk["cleanup"]:
                    continue
                t = blk["term"]
                if not t:
                    continue
                if t["k"] == "assert":
                    m = t["msg"]
                    kind = "overflow" if m.startswith("overflow") else m
                    out.append(self._mk(b, bi, t, "assert:" + kind, None))
                elif t["k"] == "call":
                    d = callee_def(t)
                    k = PANIC_FNS.get(d)
                    if k is None and ("core::panicking::" in d or d.startswith("std::rt::begin_panic") or d.startswith("core::panicking")
                                      or d in ("std::rt::panic_fmt", "core::panic::panic_fmt") or d.endswith("::panic_fmt") or d.endswith("unreachable_display")):
                        k = "explicit"
                    if k is None and d.endswith("::unwrap") and ("Option" in d or "Result" in d):
                        k = "unwrap"
                    if k:
                        out.append(self._mk(b, bi, t, k, d))
        self._sites = out
        return out

    # ---- discharge in the callers' context ---------------------------------
    def _root_index(self):
        """(source body, source block) -> copies of that block in the normalised views of the functions that (transitively) inline it"""
        if getattr(self, "_ridx", None) is None:
            from . import inline
            idx = {}
            for p, b in self.f.bodies.items():
                if inline.default_policy(self.f, b, b) and self.f.callers_of(p):
                    continue          # a private helper: read inside its callers
                v = self.f.view(b)
                if not getattr(v, "inlined", None):
                    continue
                for bi, blk in enumerate(v.blocks):
                    if blk.get("src") and blk["src"] != p and "src_bb" in blk and not blk["cleanup"]:
                        idx.setdefault((blk["src"], blk["src_bb"]), []).append((v, bi))
            self._ridx = idx
        return self._ridx

    def discharge_in_context(self, s):
        """A site inside a private helper that neither the helper's own body nor a table row discharges: judged once per place the
        helper is inlined, with the guards and origins of that caller (dominating tests in the caller, the caller's table rows).
        Discharged iff it is discharged in every such context."""
        from . import inline
        b = s["body"]
        if hasattr(b, "base"):
            return None
        if not (inline.default_policy(self.f, b, b) or b.kind == "Closure") or not self.f.callers_of(b.path):
            # a public / trait-role function: judged once more in its own normalised view, where the origin of the operand is followed
            # through the private helpers it calls (the guard or the table row may speak about what such a helper returns)
            v = self.f.view(b)
            if not getattr(v, "inlined", None) or s["bb"] >= len(b.blocks):
                return None
            s2 = dict(s, body=v, bb=s["bb"], term=v.blocks[s["bb"]]["term"])
            if s2["term"] is None or s2["term"].get("k") not in ("call", "assert"):
                return None
            r = self.discharge_local(s2)
            if not r:
                row = table_row(s2, site_atoms(self.f, s2), self.f)
                r = row[0] if row else None
            return ("in the function's normalised view: " + str(r)[:100]) if r else None
        copies = self._root_index().get((b.path, s["bb"]), [])
        if not copies:
            return None
        why = []
        for v, vb in copies:
            s2 = dict(s, body=v, bb=vb, term=v.blocks[vb]["term"])
            r = self.discharge_local(s2)
            if not r:
                row = table_row(s2, site_atoms(self.f, s2), self.f)
                r = row[0] if row else None
            if not r:
                return None
            why.append("%s: %s" % (v.path.rsplit("::", 1)[-1], str(r)[:80]))
        return "in every caller context (%d): %s" % (len(copies), "; ".join(sorted(set(why))[:3]))

    def _mk(self, b, bi, t, kind, callee):
        s = {"body": b, "bb": bi, "kind": kind, "callee": callee, "term": t, "discharge": None, "poison": False}
        if kind == "unwrap" and t.get("arg_tys") and "PoisonError<" in t["arg_tys"][0]:
            s["poison"] = True
        return s

    # ---- local discharge ----------------------------------------------------
    def discharge_local(self, s):
        b, bi, t = s["body"], s["bb"], s["term"]
        f = self.f
        if s["kind"].startswith("assert:"):
            if s["kind"] == "assert:overflow":
                return "listed-only: overflow asserts exist only with overflow checks on (release profile wraps)"
            if s["kind"] == "assert:bounds":
                return self._index_guard(b, bi, t["cond"])
            if s["kind"] in ("assert:div_zero", "assert:rem_zero"):
                return self.nz.divisor_nonzero(b, bi)
            return None
        if s["kind"] == "unwrap":
            if s["poison"]:
                return "poison-class: safe iff nothing panics while that lock is held (obligation b)"
            a0 = t["args"][0]
            r = self._unwrap_guard(b, bi, a0)
            if r:
                return r
            # infallible conversions
            at = Slicer(f, b).of_operand(a0)
            return None
        if s["kind"] == "index":
            d = s["callee"]
            if d.endswith("Index::index") or d.endswith("IndexMut::index_mut"):
                recv_ty = (t.get("arg_tys") or [""])[0]
                if "enum_map::EnumMap<" in recv_ty:
                    return "EnumMap index by the key enum is total"
                if "HashMap<" in recv_ty or "BTreeMap<" in recv_ty:
                    return self._contains_guard(b, bi, t["args"][0], t["args"][1])
                # Vec / slice indexed by an integer: i < len (and i >= 0 when it comes from a signed value) on every path
                ity = (t.get("arg_tys") or ["", ""])[1]
                if "RangeFull" in ity:
                    return "indexing with the full range `[..]` cannot fail"
                if ity in ("usize",):
                    return self.rel.index_ok(b, bi, t["args"][0], t["args"][1])
                # range indexing of strings / slices
                return self._index_guard(b, bi, t["args"][1], recv=t["args"][0])
            if d.endswith(("Vec::<T, A>::remove", "Vec::<T, A>::swap_remove")):
                return self.rel.index_ok(b, bi, t["args"][0], t["args"][1])
            return None
        return None

    def _root_local(self, b, op, depth=0):
        """Follow moves/copies/refs back to the local that is tested elsewhere."""
        pl = op_place(op)
        chain = set()
        while pl is not None and depth < 8:
            chain.add(pl["l"])
            d = def_of_local(b, pl["l"])
            if not d:
                break
            if d[0] == "assign":
                rv = d[3]["rv"]
                if rv["k"] == "use":
                    pl = op_place(rv["op"])
                elif rv["k"] == "ref":
                    pl = rv["pl"]
                else:
                    break
            elif d[0] == "call" and callee_is(d[3], "Deref::deref", "Option::<T>::as_ref", "Option::<T>::as_mut", "Result::<T, E>::as_ref", "Clone::clone", "Option::<&T>::cloned"):
                pl = op_place(d[3]["args"][0])
            else:
                break
            depth += 1
        return chain

    def _unwrap_guard(self, b, bi, a0):
        f = self.f
        locs = self._root_local(b, a0)
        # (L2) locally constructed Some/Ok
        for l in locs:
            d = def_of_local(b, l)
            if d and d[0] == "assign" and d[3]["rv"]["k"] == "agg" and d[3]["rv"].get("variant") in ("Some", "Ok"):
                return "locally constructed %s" % d[3]["rv"]["variant"]
        for d in sorted(b.dominators().get(bi, ())):
            t = b.term(d)
            if not t or t["k"] != "switch":
                continue
            pl = op_place(t["op"])
            if pl is None:
                continue
            dd = def_of_local(b, pl["l"])
            if not dd:
                continue
            if dd[0] == "call":
                ct = dd[3]
                nm = callee_def(ct).rsplit("::", 1)[-1]
                if nm in ("is_some", "is_none", "is_ok", "is_err") and ct["args"]:
                    tl = self._root_local(b, ct["args"][0])
                    if tl & locs:
                        te = bool_edge_targets(b, d)
                        if te:
                            good = te[0] if nm in ("is_some", "is_ok") else te[1]
                            bad = te[1] if nm in ("is_some", "is_ok") else te[0]
                            if b.dominates(good, bi) or (bi not in b.reachable([bad], avoid=[good]) and not b.dominates(bad, bi)):
                                return "dominated by %s() on the same value" % nm
                if nm in ("contains_key", "contains") and len(ct["args"]) > 1:
                    pass
            if dd[0] == "assign" and dd[3]["rv"]["k"] == "discr":
                tl = {dd[3]["rv"]["pl"]["l"]} | self._root_local(b, {"k": "copy", "pl": {"l": dd[3]["rv"]["pl"]["l"], "p": []}})
                if tl & locs:
                    ty = b.local_ty(dd[3]["rv"]["pl"]["l"]) or ""
                    ty = ty.lstrip("&").replace("mut ", "")
                    good_val = 1 if ty.startswith(("std::option::Option<", "Option<", "core::option::Option<")) else 0 if ty.startswith(("std::result::Result<", "Result<", "core::result::Result<")) else None
                    if good_val is None:
                        continue
                    explicit = dict(t["targets"])
                    bad_targets = {tg for v, tg in t["targets"] if v != good_val}
                    if good_val in explicit:
                        good = explicit[good_val]
                    elif len(explicit) == 1 and (b.term(t["otherwise"]) or {}).get("k") != "unreachable":
                        good = t["otherwise"]      # two-variant enum: the arm that is not listed is the Some / Ok arm
                    else:
                        good = None
                    if good is not None and good not in bad_targets and b.dominates(good, bi):
                        return "dominated by the Some/Ok arm of a match on the same value"
        return None

    def _contains_guard(self, b, bi, recv, key):
        f = self.f
        sl = Slicer(f, b)
        ra = {a for a in sl.of_operand(recv) if a.startswith(("lid:", "param:", "field:"))}
        ka = {a for a in sl.of_operand(key) if a.startswith(("lid:", "param:", "field:"))}
        for d in sorted(b.dominators().get(bi, ())):
            t = b.term(d)
            if not t or t["k"] != "switch":
                continue
            at = sl.of_operand(t["op"])
            if any_atom(at, "call:contains_key") or any_atom(at, "call:contains"):
                pl = op_place(t["op"])
                # find the contains call feeding this switch
                for cb, ct in b.calls():
                    if callee_def(ct).rsplit("::", 1)[-1] in ("contains_key", "contains") and b.dominates(cb, d):
                        r2 = {a for a in sl.of_operand(ct["args"][0]) if a.startswith(("lid:", "param:", "field:"))}
                        k2 = {a for a in sl.of_operand(ct["args"][1]) if a.startswith(("lid:", "param:", "field:"))}
                        if r2 & ra and k2 & ka:
                            te = bool_edge_targets(b, d)
                            neg = "op:Not" in at
                            if te:
                                good = te[1] if neg else te[0]
                                if b.dominates(good, bi):
                                    return "dominated by contains_key on the same map and key"
        return None

    def _index_guard(self, b, bi, idx_or_cond, recv=None):
        """Index / bounds assert dominated by a comparison involving the index and a len() of the indexed sequence, or by !is_empty()
        for a constant index 0, or the index is produced by a loop over 0..len / enumerate of the same sequence."""
        f = self.f
        sl = Slicer(f, b)
        ia = sl.of_operand(idx_or_cond)
        for d in sorted(b.dominators().get(bi, ())):
            t = b.term(d)
            if not t or t["k"] != "switch":
                continue
            at = sl.of_operand(t["op"])
            has_len = any(a.startswith("call:") and a.endswith(("::len", "::is_empty")) for a in at) or "op:PtrMetadata" in at
            cmp_ = any(a in at for a in ("op:Lt", "op:Le", "op:Gt", "op:Ge", "op:Eq", "op:Ne")) or any(a.endswith("::is_empty") for a in at)
            shares = bool({a for a in ia if a.startswith(("lid:", "param:"))} & {a for a in at if a.startswith(("lid:", "param:"))}) or any(a.endswith("::is_empty") for a in at)
            if has_len and cmp_ and shares:
                return "dominated by a length test involving the same index/sequence"
        return None


# ----------------------------------------------------------------------------
# Table discharge (DESIGN Appendix C).  Keyed by (function path suffix, callee kind, required operand atoms) -> reason.
# No wildcard rows: each names one function role and one operand origin.
# ----------------------------------------------------------------------------
from .panic_table import ROWS as TABLE


def _module_of(p):
    p = re.sub(r"(::\{closure#\d+\})+$", "", p)
    return p.rsplit("::", 1)[0] if "::" in p else p


def table_row(s, atoms, facts=None):
    r = _table_row(s, atoms)
    if r is not None or facts is None:
        return r
    # a row names one function; when that function no longer exists (a private helper was renamed, or a closure body moved into a
    # helper of the same module) the row still speaks about the same operand: same module, same kind of site, same operand origin
    p = s["body"].path
    mod = _module_of(p)
    for suf, kind, pats, reason, indep in TABLE:
        if suf.endswith("*") or s["kind"] != kind or not atoms_have(atoms, *pats):
            continue
        if any(q == suf or q.endswith("::" + suf) or q.endswith(suf) for q in facts.bodies):
            continue          # the row's function still exists: it speaks about that function only
        rmod = _module_of(suf)
        if mod == rmod or mod.endswith("::" + rmod) or mod.endswith(rmod):
            return reason + " (row written for %s, which no longer exists in this module)" % suf, indep
    return None


def _table_row(s, atoms):
    p = s["body"].path
    for suf, kind, pats, reason, indep in TABLE:
        if suf.endswith("*"):
            pre = suf[:-1]
            m = ("::" + p).find("::" + pre) >= 0 or p.startswith(pre) or ("<" + pre) in p
        else:
            m = p == suf or p.endswith("::" + suf) or p.endswith(suf)
        if m and s["kind"] == kind and atoms_have(atoms, *pats):
            return reason, indep
    return None


def site_atoms(f, s):
    """Origin atoms of the operand that decides whether the site panics."""
    b, t = s["body"], s["term"]
    sl = Slicer(f, b)
    atoms = set()
    if t["k"] == "call" and t["args"]:
        for a in t["args"][:2]:
            atoms |= sl.of_operand(a)
    elif t["k"] == "assert":
        pl = op_place(t["cond"])
        d = def_of_local(b, pl["l"]) if pl else None
        if d and d[0] == "assign" and d[3]["rv"]["k"] == "bin":
            atoms |= sl.of_operand(d[3]["rv"]["a"]) | sl.of_operand(d[3]["rv"]["b"])
        else:
            atoms |= sl.of_operand(t["cond"])
    return atoms


# ----------------------------------------------------------------------------
# Held-on-entry context and the (b) obligation
# ----------------------------------------------------------------------------

def entry_held(f, g):
    """path -> set of shared lock classes that may be held by some caller chain when the body runs."""
    ctxh = defaultdict(set)
    lm = g.lm
    changed = True
    it = 0
    edges = []
    for p, b in f.bodies.items():
        r = lm.analyse(b)
        for bb, kind, tgt in g.out_calls(b):
            if kind == "ext" or tgt not in f.bodies:
                continue
            H = {r["acq"][j]["cls"] for j in r["held_at_term"].get(bb, ())}
            edges.append((p, tgt, frozenset(c for c in H if is_shared(c))))
    while changed and it < 50:
        changed = False
        it += 1
        for p, tgt, H in edges:
            new = H | ctxh[p]
            if not new <= ctxh[tgt]:
                ctxh[tgt] |= new
                changed = True
    return ctxh


def manager_fns(f):
    out = []
    for p, b in f.bodies.items():
        if b.kind == "Fn" and b.pub and "::rule_manager::" in p and not b.root:
            out.append(b)
    return out


def panic_under_lock(ctx, f, g, cfg, P, only_manager_modules=True):
    """(b): no undischarged non-poison panic site executes with a shared lock held, inside code reachable from the managers.
    C15 looks at the manager modules themselves (where the locks are taken); C12 follows every callee."""
    ps = PanicSites(f)
    eh = entry_held(f, g)
    roots = [b.path for b in manager_fns(f)]
    reach = f.reach_bodies(roots)
    n = 0
    bad = 0
    for s in ps.sites():
        b = s["body"]
        if b.path not in reach:
            continue
        if s["poison"]:
            continue
        if only_manager_modules and "::rule_manager::" not in "::" + b.path:
            continue
        r = g.lm.analyse(b)
        held = {r["acq"][j]["cls"] for j in r["held_at_term"].get(s["bb"], ())} | eh.get(b.path, set())
        held = {c for c in held if c.startswith("static:")}
        if not held:
            continue
        d = ps.discharge_local(s)
        if d:
            continue
        atoms = site_atoms(f, s)
        row = table_row(s, atoms, f)
        if row and row[1]:
            continue
        if not row and ps.discharge_in_context(s):
            continue
        n += 1
        key = "%s.panic-under-lock|%s|%s|%s" % (P, b.path.replace("core::", "", 1), s["kind"], _origin_key(atoms))
        bad += 1
        ctx.violation(P + ".panic-under-lock", key,
                      "%s in %s can panic while %s is held: the lock is poisoned and every later manager call panics on `.unwrap()` of the poison error" % (
                          s["callee"] or s["kind"], b.path.replace("core::", "", 1), sorted(held)),
                      b.loc(s["bb"]), f.chain(reach, b.path)[-4:], config=cfg)
    ctx.instance(P + ".panic-under-lock", "manager-reachable panic sites under static locks [%s]" % cfg, {"undischarged": bad}, "0", bad == 0, cfg)


def _origin_key(atoms):
    keep = sorted(a for a in atoms if a.startswith(("static:", "field:", "param:")) and not a.startswith("field:std::"))
    ks = []
    for a in keep[:4]:
        k, _, r = a.partition(":")
        ks.append(k + ":" + r.rsplit("::", 1)[-1])
    calls = sorted({a.rsplit("::", 1)[-1] for a in atoms if a.startswith("call:") and a.rsplit("::", 1)[-1] in ("get", "get_mut", "remove", "upgrade", "downcast_ref", "get_resource_node", "to_string_pretty", "try_into", "new")})
    return ",".join(ks + calls)


def check_then_act(ctx, f, g, cfg, P):
    """A2: an unwrap of a map lookup under a static lock that the same function acquired (and released) before on the same path,
    with the key's presence not established under the second acquisition."""
    ps = PanicSites(f)
    n = 0
    for s in ps.sites():
        if s["kind"] != "unwrap" or s["poison"]:
            continue
        b = s["body"]
        r = g.lm.analyse(b)
        if len(r["acq"]) < 2:
            continue
        at = Slicer(f, b).of_operand(s["term"]["args"][0])
        if not (any_atom(at, "call:get") or any_atom(at, "call:get_mut")):
            continue
        held = [r["acq"][j] for j in r["held_at_term"].get(s["bb"], ())]
        stat = [h for h in held if h["cls"].startswith("static:")]
        # the lookup may be made on a temporary guard: find lock acquisitions whose result feeds the unwrap operand
        feeding = [a for a in r["acq"] if a["cls"].startswith("static:") and ("static:" + _full_static(f, a["cls"])) in at or any(x.startswith("static:") and x.endswith(a["cls"][7:]) for x in at)]
        cand = {h["cls"] for h in stat} | {a["cls"] for a in feeding}
        for cls in sorted(cand):
            same = [a for a in r["acq"] if a["cls"] == cls]
            if len(same) < 2:
                continue
            # an earlier acquisition of the same class reaches this site
            cur = [a for a in same if a in held or a in feeding]
            earlier = [a for a in same if a not in cur and s["bb"] in b.reachable([a["bb"]])]
            if not earlier or ps.discharge_local(s):
                continue
            n += 1
            ctx.violation(P + ".check-then-act", "%s.check-then-act|%s|%s" % (P, b.path.replace("core::", "", 1), cls),
                          "%s re-reads %s in a second critical section and unwraps the lookup: a concurrent clear/load between the two sections makes it panic (with the lock held)" % (b.path.replace("core::", "", 1), cls),
                          b.loc(s["bb"]), ["first critical section at " + earlier[0]["loc"], "lookup + unwrap at " + b.loc(s["bb"])], config=cfg)
    ctx.instance(P + ".check-then-act", "map lookups unwrapped in a second critical section [%s]" % cfg, {"found": n}, "0", n == 0, cfg)


def _full_static(f, cls):
    return cls[7:]
