"""C20 — Tower middleware calls the service iff admitted and always releases admission.

Decided on both cfg variants of `impl tower::Service for SentinelService` (DESIGN §3 C20):
  C20.call-iff-admitted   inner `Service::call` has one call site, outside loops, dominated by the Ok edge
                          of `EntryBuilder::build`, unreachable from the Err edge, and on every path from
                          the Ok edge to the return.
  C20.release-all-paths   in the future built on the Ok edge every non-unwind path from start to
                          completion passes through `EntryStrongPtr::exit` on the captured entry (A4).
  C20.release-once-after  exit is not reachable twice on one path and happens only after the inner
                          future reported Ready.
  C20.err-arm             the Err arm reaches the fallback (if any) or an error future and none of its
                          futures calls the inner service.
  C20.traffic-role        `with_traffic_type` gets the field fixed from the role; Server->Inbound, Client->Outbound.
  (informational) drop-before-completion: reported in evidence, never gates.
"""
from .core import *


def run(ctx):
    ctx.explanation = (
        "Path rules over the MIR (mir_built, before the coroutine transform) of both cfg variants of "
        "`impl tower::Service for SentinelService` and of the async blocks they box: single inner call site "
        "dominated by the Ok edge of EntryBuilder::build and unreachable from Err; must-pass-through of "
        "EntryStrongPtr::exit on every non-unwind path of the admitted future; exit only after Poll::Ready "
        "and at most once per path; Err arm -> fallback or error; role -> traffic type table.")
    ctx.not_decided = ("how often a caller polls; poll_ready semantics; middleware/tonic (tonic 0.8.2 is not in the "
                       "offline cache; its Tower service is the re-exported SentinelService analysed here); the "
                       "numeric in-flight count itself (C04).")
    ctx.assumptions = ["EntryStrongPtr has no Drop impl that exits (checked against core-default facts on every run)",
                       "unwind (panic) edges are not release paths the property speaks about"]
    core = ctx.facts("core-default")
    drop_exits = any("EntryStrongPtr" in st for st in core.drop_impls)
    if drop_exits:
        ctx.note("EntryStrongPtr now has a Drop impl; drops of the captured entry are accepted as releases")
    n_impls = 0
    for cfg in ("tower", "tower-http"):
        f = ctx.facts(cfg)
        impls = [b for b in f.impl_methods("tower::Service", "call") if (b.impl_self or "").startswith("SentinelService")]
        n_impls += len(impls)
        for b in impls:
            check_call(ctx, f, b, cfg, drop_exits)
        check_role(ctx, f, cfg)
        check_clone(ctx, f, cfg)
    # "so the resource's in-flight count returns to its previous value": exit() reaches the completion recorder, which lowers the
    # count on every path (C04's recorder tables, on the core crate)
    from . import rules_C04
    fc = ctx.facts("core-default")
    rules_C04.recorder(ctx, fc, "core-default")
    ctx.floor("C20.anchor", "impl tower::Service::call for SentinelService (two cfg variants)", n_impls, 2)


def _is_release(body, bb, drop_exits):
    t = body.term(bb)
    if not t:
        return False
    if t["k"] == "call" and callee_is(t, "EntryStrongPtr::exit", "SentinelEntry::exit"):
        return True
    if drop_exits and t["k"] == "drop" and "EntryStrongPtr" in t["ty"] and "upvar" not in "".join(t["pl"]["p"]):
        return True
    return False


def _svc_fields(f):
    """fields of SentinelService by role (type), not by private name: the wrapped service, the fallback, the traffic type"""
    a = f.adts.get("SentinelService") or next((v for k, v in f.adts.items() if k.endswith("SentinelService")), None)
    out = {"inner": "inner", "fallback": "fallback", "traffic": "traffic_type"}
    if a:
        fl = a["variants"][0]["fields"]
        gen = [x["name"] for x in fl if len(x["ty"]) <= 2 and "PhantomData" not in x["ty"]]
        tr = [x["name"] for x in fl if x["ty"].endswith("TrafficType")]
        fb = [x["name"] for x in fl if "Option<" in x["ty"] and "Error" in x["ty"] and " fn(" in x["ty"]]
        if len(gen) == 1:
            out["inner"] = gen[0]
        if len(tr) == 1:
            out["traffic"] = tr[0]
        if len(fb) == 1:
            out["fallback"] = fb[0]
    return out


def check_call(ctx, f, b, cfg, drop_exits):
    site = "%s [%s]" % (b.path, cfg)
    SF = _svc_fields(f)
    inner = [bb for bb, t in b.calls() if callee_is(t, "tower::Service::call")]
    builds = [bb for bb, t in b.calls() if callee_is(t, "EntryBuilder::build")]
    if len(builds) != 1:
        ctx.violation("C20.call-iff-admitted", "C20.call-iff-admitted|%s|build-sites=%d" % (cfg, len(builds)),
                      "expected exactly one EntryBuilder::build call in %s, found %d" % (b.path, len(builds)), b.loc(), config=cfg)
        return
    bbuild = builds[0]
    tb = b.term(bbuild)
    # the switch on the discriminant of build's result
    sw = None
    cur = tb["target"]
    res_local = tb["dest"]["l"]
    for _ in range(6):
        t = b.term(cur)
        if t and t["k"] == "switch":
            sw = cur
            break
        nx = b.succs(cur)
        if len(nx) != 1:
            break
        cur = nx[0]
    ok_t = err_t = None
    if sw is not None:
        sl = Slicer(f, b)
        at = sl.of_operand(b.term(sw)["op"])
        if "discr" in at and any_atom(at, "call:EntryBuilder::build"):
            for v, tg in b.term(sw)["targets"]:
                if v == 0:
                    ok_t = tg
                elif v == 1:
                    err_t = tg
    if ok_t is None or err_t is None:
        ctx.violation("C20.call-iff-admitted", "C20.call-iff-admitted|%s|no-match-on-build" % cfg,
                      "the result of EntryBuilder::build is not matched Ok/Err right after the call", b.loc(bbuild), config=cfg)
        return
    # -- single inner call site, outside loops
    ok = len(inner) == 1 and not b.in_loop(inner[0])
    ctx.instance("C20.call-iff-admitted/one-site", site, "inner Service::call sites=%d in_loop=%s" % (
        len(inner), [b.in_loop(x) for x in inner]), "exactly 1, not in a loop", ok, cfg)
    if not ok:
        ctx.violation("C20.call-iff-admitted", "C20.call-iff-admitted|%s|inner-call-sites=%d" % (cfg, len(inner)),
                      "inner service must be called from exactly one site outside any loop", b.loc(), config=cfg)
        return
    ic = inner[0]
    dom_ok = b.dominates(ok_t, ic)
    ctx.instance("C20.call-iff-admitted/dominated-by-Ok", site, "Ok-edge bb%d dominates inner call bb%d: %s" % (ok_t, ic, dom_ok),
                 "true", dom_ok, cfg)
    if not dom_ok:
        w = b.find_path([0], [ic], avoid=[ok_t])
        ctx.violation("C20.call-iff-admitted", "C20.call-iff-admitted|%s|inner-call-not-dominated-by-Ok" % cfg,
                      "inner service can be called without an admitted entry", b.loc(ic), fmt_path(b, w or []), config=cfg)
    from_err = ic in b.reachable([err_t])
    ctx.instance("C20.call-iff-admitted/unreachable-from-Err", site, "inner call reachable from Err edge: %s" % from_err, "false",
                 not from_err, cfg)
    if from_err:
        w = b.find_path([err_t], [ic])
        ctx.violation("C20.call-iff-admitted", "C20.call-iff-admitted|%s|inner-call-on-Err-arm" % cfg,
                      "inner service is called for a rejected request", b.loc(ic), fmt_path(b, w or []), config=cfg)
    w = must_pass(b, [ok_t], b.return_blocks(), [ic])
    ctx.instance("C20.call-iff-admitted/every-admitted-path-calls", site, "path Ok->return avoiding inner call: %s" % (w,), "none", w is None, cfg)
    if w:
        ctx.violation("C20.call-iff-admitted", "C20.call-iff-admitted|%s|admitted-path-without-inner-call" % cfg,
                      "an admitted request can return without the inner service being called", b.loc(ok_t), fmt_path(b, w), config=cfg)
    # -- the receiver of the inner call is the wrapped service
    sl = Slicer(f, b)
    at = sl.of_operand(b.term(ic)["args"][0])
    okr = any_atom(at, "field:SentinelService." + SF["inner"])
    ctx.instance("C20.call-iff-admitted/receiver", site, sorted(a for a in at if a.startswith("field:")), "field:SentinelService.inner", okr, cfg)
    if not okr:
        ctx.violation("C20.call-iff-admitted", "C20.call-iff-admitted|%s|receiver" % cfg,
                      "the service called on the admitted path is not the wrapped `inner` service", b.loc(ic), config=cfg)

    # -- futures: classify closures of this body by which arm constructs them
    # closures / async blocks of this body and of the private helpers inlined into its view
    clos = {}
    for src in [b.path] + list(getattr(b, "inlined", [])):
        sb = f.bodies.get(src)
        if sb is not None:
            clos.update({c.path: c for c in f.closures_of(sb)})
    ok_region = b.reachable([ok_t])
    err_region = b.reachable([err_t])
    # region exclusive parts
    ok_only = ok_region - err_region
    err_only = err_region - ok_region
    ok_futs, err_futs = [], []
    for bi, blk in enumerate(b.blocks):
        if blk["cleanup"]:
            continue
        for s in blk["stmts"]:
            if s["k"] == "assign" and s["rv"]["k"] == "agg":
                cp = s["rv"].get("closure") or s["rv"].get("coroutine")
                if cp and cp in clos:
                    entry_captured = False
                    for o, nm in zip(s["rv"]["ops"], s["rv"].get("fields", [])):
                        a = sl.of_operand(o)
                        pl = op_place(o)
                        if pl is not None and "EntryStrongPtr" in b.local_ty(pl["l"]):
                            entry_captured = nm
                    if bi in ok_only:
                        ok_futs.append((clos[cp], entry_captured, bi))
                    elif bi in err_only:
                        err_futs.append((clos[cp], bi))
    if not ok_futs:
        # entry not moved into a future: then the body itself must release before returning
        w = must_pass(b, [ok_t], b.return_blocks(), [x for x in range(len(b.blocks)) if _is_release(b, x, drop_exits)])
        ctx.instance("C20.release-all-paths", site, "no future on the Ok arm; release inside call(): %s" % (w is None), "release on every path", w is None, cfg)
        if w:
            ctx.violation("C20.release-all-paths", "C20.release-all-paths|%s|no-future-no-release" % cfg,
                          "admitted entry is neither moved into the response future nor exited", b.loc(ok_t), fmt_path(b, w), config=cfg)
    for c, cap, bi in ok_futs:
        csite = "%s [%s]" % (c.path, cfg)
        if not cap:
            ctx.instance("C20.release-all-paths/captures-entry", csite, "future on Ok arm does not capture the entry", "captures entry", False, cfg)
            ctx.violation("C20.release-all-paths", "C20.release-all-paths|%s|future-does-not-own-entry" % cfg,
                          "the future returned for an admitted request does not own the entry, so it cannot release it", b.loc(bi), config=cfg)
            continue
        rel = [x for x in range(len(c.blocks)) if not c.is_cleanup(x) and _is_release(c, x, drop_exits) and _on_upvar(f, c, x, cap)]
        rets = c.return_blocks()
        w = must_pass(c, [0], rets, rel)
        ctx.instance("C20.release-all-paths", csite, "exit sites=%s; completion path avoiding exit: %s" % (
            [c.loc(x) for x in rel], fmt_path(c, w) if w else None), "every non-unwind path start->return passes EntryStrongPtr::exit(entry)", w is None, cfg)
        if w:
            kind = _describe_leak(c, w)
            ctx.violation("C20.release-all-paths", "C20.release-all-paths|%s|%s" % (cfg, kind),
                          "admission leaked: the response future can complete (%s) without calling exit() on the admitted entry" % kind,
                          c.loc(w[-1]), fmt_path(c, w), config=cfg)
        # once
        twice = None
        for x in rel:
            r = c.reachable(c.succs(x))
            for y in rel:
                if y in r:
                    twice = (x, y)
        ctx.instance("C20.release-once-after/once", csite, "second exit reachable after an exit: %s" % (twice,), "none", twice is None, cfg)
        if twice:
            ctx.violation("C20.release-once-after", "C20.release-once-after|%s|exit-twice" % cfg,
                          "exit() can run twice for one admission", c.loc(twice[1]), config=cfg)
        # after Ready of the captured inner future
        ready = _ready_blocks(f, c)
        bad = [x for x in rel if not any(c.dominates(r, x) for r in ready)]
        ctx.instance("C20.release-once-after/after-ready", csite, "Ready-edge blocks=%s; exits not dominated by one: %s" % (ready, bad), "none", not bad, cfg)
        if bad:
            ctx.violation("C20.release-once-after", "C20.release-once-after|%s|exit-before-inner-finished" % cfg,
                          "exit() can run before the inner future has completed (admission released while the call is in flight)",
                          c.loc(bad[0]), config=cfg)
        # no second inner call inside the future
        n2 = [x for x, t in c.calls() if callee_is(t, "tower::Service::call")]
        ctx.instance("C20.call-iff-admitted/no-call-in-future", csite, "Service::call sites inside future: %d" % len(n2), "0", not n2, cfg)
        if n2:
            ctx.violation("C20.call-iff-admitted", "C20.call-iff-admitted|%s|inner-call-inside-future" % cfg,
                          "the response future calls the inner service again", c.loc(n2[0]), config=cfg)
        # informational: drop before completion
        yd = [x for x in range(len(c.blocks)) if (c.term(x) or {}).get("k") == "yield"]
        leak_on_drop = []
        for y in yd:
            d = c.term(y).get("drop")
            if d is not None:
                r = c.reachable([d])
                if not any(x in r for x in rel):
                    leak_on_drop.append(c.loc(y))
        ctx.extra.setdefault("drop_before_completion", []).append(
            {"future": csite, "yield_points": len(yd),
             "dropping_the_future_while_pending_releases_admission": not leak_on_drop and bool(yd),
             "note": "reported separately as the property asks; does not gate"})
    # -- Err arm
    fb = []
    for bb in sorted(err_only):
        t = b.term(bb)
        if t and t["k"] == "call" and "indirect" in t["callee"]:
            a = sl.of_operand(t["callee"]["indirect"])
            if any_atom(a, "field:SentinelService." + SF["fallback"]):
                fb.append(bb)
    ctx.instance("C20.err-arm/fallback", site, "fallback call sites on Err arm: %s; error futures: %d" % ([b.loc(x) for x in fb], len(err_futs)),
                 ">=1 fallback call and a future on every Err path", bool(fb) and bool(err_futs), cfg)
    if not fb:
        ctx.violation("C20.err-arm", "C20.err-arm|%s|no-fallback-call" % cfg, "the Err arm never calls the configured fallback", b.loc(err_t), config=cfg)
    # every path from Err edge to return constructs one of the err futures
    fut_blocks = [bi for _, bi in err_futs]
    w = must_pass(b, [err_t], b.return_blocks(), fut_blocks)
    ctx.instance("C20.err-arm/answers", site, "Err path to return without building a response future: %s" % (w,), "none", w is None, cfg)
    if w:
        ctx.violation("C20.err-arm", "C20.err-arm|%s|err-path-without-response" % cfg, "a rejected request gets neither fallback nor error", b.loc(err_t), fmt_path(b, w), config=cfg)
    for c, bi in err_futs:
        n2 = [x for x, t in c.calls() if callee_is(t, "tower::Service::call")]
        csite = "%s [%s]" % (c.path, cfg)
        ctx.instance("C20.err-arm/no-inner-call", csite, "Service::call sites: %d" % len(n2), "0", not n2, cfg)
        if n2:
            ctx.violation("C20.err-arm", "C20.err-arm|%s|inner-call-in-reject-future" % cfg, "a rejected request's future calls the inner service", c.loc(n2[0]), config=cfg)
    # -- traffic type argument
    for bb, t in b.calls():
        if callee_is(t, "EntryBuilder::with_traffic_type"):
            a = sl.of_operand(t["args"][1])
            okt = any_atom(a, "field:SentinelService." + SF["traffic"])
            ctx.instance("C20.traffic-role/arg", site, sorted(x for x in a if x.startswith(("field:", "variant:", "const:"))), "field:SentinelService.traffic_type", okt, cfg)
            if not okt:
                ctx.violation("C20.traffic-role", "C20.traffic-role|%s|arg" % cfg, "the entry's traffic type is not the one fixed from the service role", b.loc(bb), config=cfg)
    # the resource given to the builder flows to build()
    at = sl.of_operand(tb["args"][0])
    okb = any_atom(at, "call:EntryBuilder::new")
    ctx.instance("C20.call-iff-admitted/builder", site, "build() receiver derives from EntryBuilder::new: %s" % okb, "true", okb, cfg)


def _on_upvar(f, c, bb, cap):
    t = c.term(bb)
    if t["k"] != "call":
        return True
    a = Slicer(f, c).of_operand(t["args"][0])
    return ("field:upvar." + cap) in a or any(x.startswith("field:upvar.") and x.endswith(cap) for x in a) or "env" in a


def _ready_blocks(f, c):
    """Targets of the `Ready` arm of a switch on the discriminant of a Future::poll result."""
    out = []
    sl = Slicer(f, c)
    for bi, blk in enumerate(c.blocks):
        t = blk["term"]
        if blk["cleanup"] or not t or t["k"] != "switch":
            continue
        a = sl.of_operand(t["op"])
        if "discr" in a and any_atom(a, "call:Future::poll"):
            for v, tg in t["targets"]:
                if v == 0:
                    out.append(tg)
    return out


def _describe_leak(c, w):
    """Name the leaking exit without line numbers: which call/branch sends the path around exit()."""
    names = []
    for x in w:
        t = c.term(x)
        if t and t["k"] == "call":
            n = callee_def(t)
            if n.endswith("from_residual"):
                return "via-error-propagation"
            names.append(n.rsplit("::", 1)[-1])
    return "via-" + (names[-1] if names else "fallthrough")


def check_clone(ctx, f, cfg):
    """The role (and with it the traffic direction under which Sentinel decides) survives cloning: every hand-written Clone of the
    middleware's types takes each field of the copy from the same field of `self` (a `..Default::default()` tail silently resets the
    role to Server, so a cloned client layer enters as Inbound)."""
    n = 0
    for b in f.impl_methods("Clone", "clone"):
        st_name = (b.impl_self or "").split("<")[0]
        if not st_name.startswith(("SentinelLayer", "SentinelService")):
            continue
        sl = Slicer(f, b)
        for blk in b.blocks:
            if blk["cleanup"]:
                continue
            for st in blk["stmts"]:
                if st["k"] == "assign" and st["lhs"]["l"] == 0 and st["rv"]["k"] == "agg" and (st["rv"].get("adt") or "").split("<")[0] == st_name:
                    n += 1
                    lost = []
                    for nm, o in zip(st["rv"]["fields"], st["rv"]["ops"]):
                        at = sl.of_operand(o)
                        if not any(x == "field:%s.%s" % (st_name, nm) for x in at) or "param:self" not in at:
                            lost.append(nm)
                    ctx.instance("C20.traffic-role/clone", "%s [%s]" % (b.path, cfg), {"fields_not_copied_from_self": lost}, "every field of the clone comes from the same field of self", not lost, cfg)
                    if lost:
                        ctx.violation("C20.traffic-role", "C20.traffic-role|%s|clone|%s|%s" % (cfg, st_name, ",".join(lost)),
                                      "%s::clone does not copy %s from self: a clone decides under another role / extractor / fallback than the original" % (st_name, lost), b.loc(), config=cfg)
    ctx.floor("C20.traffic-role/clone", "hand-written Clone impls of the middleware types [%s]" % cfg, n, 2)


def check_role(ctx, f, cfg):
    news = [b for b in f.find("SentinelService::<S, R, B>::new")]
    if not news:
        news = [b for p, b in f.bodies.items() if b.name == "new" and (b.impl_self or "").startswith("SentinelService")]
    if not news:
        ctx.violation("C20.traffic-role", "C20.traffic-role|%s|no-constructor" % cfg, "SentinelService::new not found", config=cfg)
        return
    b = news[0]
    table = {}
    for bi, blk in enumerate(b.blocks):
        t = blk["term"]
        if t and t["k"] == "switch":
            a = Slicer(f, b).of_operand(t["op"])
            if "discr" in a and any_atom(a, "param:role"):
                for v, tg in t["targets"]:
                    # first TrafficType aggregate reachable from tg before the join
                    reg = b.reachable([tg], avoid=[x for vv, x in t["targets"] if x != tg] + [t["otherwise"]])
                    for r in sorted(reg):
                        for s in b.blocks[r]["stmts"]:
                            if s["k"] == "assign" and s["rv"]["k"] == "agg" and s["rv"].get("adt", "").endswith("TrafficType"):
                                table.setdefault(v, s["rv"]["variant"])
    role = f.adts.get("ServiceRole")
    names = [v["name"] for v in role["variants"]] if role else []
    got = {names[k] if k < len(names) else k: v for k, v in table.items()}
    exp = {"Server": "Inbound", "Client": "Outbound"}
    ok = got == exp
    ctx.instance("C20.traffic-role/table", "%s [%s]" % (b.path, cfg), got, exp, ok, cfg)
    if not ok:
        ctx.violation("C20.traffic-role", "C20.traffic-role|%s|table" % cfg,
                      "role -> traffic type table is %s, expected %s" % (got, exp), b.loc(), config=cfg)
