"""A6 — decision tables (DESIGN §2 A6).

A decision region of a MIR body is walked path by path with a small symbolic
environment for boolean values.  Every comparison becomes an atom identified by
the *roles* of its operands (found by origin slices), every other boolean call an
opaque atom, every enum match a discriminant atom.  The extracted formula is then
evaluated over the finite table of cases (trichotomy per role pair x truth values
of opaque atoms x variants) and compared with the formula the property gives.
No solver: the table is enumerated.
"""
import itertools

from .core import Slicer, callee_def, callee_is, op_place, place_str

CMP_OPS = {"Lt": "<", "Le": "<=", "Gt": ">", "Ge": ">=", "Eq": "==", "Ne": "!="}
CMP_CALLS = {"PartialOrd::lt": "<", "PartialOrd::le": "<=", "PartialOrd::gt": ">", "PartialOrd::ge": ">=",
             "PartialEq::eq": "==", "PartialEq::ne": "!="}
FLIP = {"<": ">", "<=": ">=", ">": "<", ">=": "<=", "==": "==", "!=": "!="}


def neg(e):
    if e[0] == "const":
        return ("const", not e[1])
    if e[0] == "not":
        return e[1]
    return ("not", e)


_SUMM = {}


def disc_summary(facts, path):
    """For a crate-local bool function whose result depends only on the variant of its first argument (`matches!(self, X(_))`,
    `match self { X => true, _ => false }`): {variant index: bool}.  None otherwise.  (is_pass / is_blocked / is_wait ...)"""
    key = (id(facts), path)
    if key in _SUMM:
        return _SUMM[key]
    _SUMM[key] = None
    b = facts.bodies.get(path)
    if b is None or b.ret_ty != "bool" or b.argc < 1 or len(b.blocks) > 40:
        return None
    ty = b.local_ty(1).lstrip("&").replace("mut ", "").strip()
    adt = facts.adts.get(ty)
    if not adt or adt.get("kind") != "Enum":
        return None
    n = len(adt["variants"])
    pname = "param:%s" % (b.param_name(1) or "arg1")

    def cls(atoms, op=None):
        return "self" if (pname in atoms and "discr" in atoms) else "other"
    w = Walker(facts, b, cls)
    out = {}
    for p in w.walk(0, lambda bb, env: None):
        if p["outcome"][0] != "return":
            return None
        v = p["env"].get("_0")
        if v is None or v[0] != "const":
            return None
        vals = set(range(n))
        for l in p["lits"]:
            if l[0] == "disc" and l[1] == "self":
                vals &= {l[2]}
            elif l[0] == "disc_other" and l[1] == "self":
                vals -= set(l[2])
            else:
                return None
        for x in vals:
            if x in out and out[x] != v[1]:
                return None
            out[x] = v[1]
    if set(out) != set(range(n)):
        return None
    _SUMM[key] = out
    return out


class Walker:
    """classify(atoms:set, operand) -> role string (stable, line-free)."""

    def __init__(self, facts, body, classify, opaque_name=None, max_paths=20000, inline=None, unroll=1):
        self.f = facts
        self.b = body
        self.sl = Slicer(facts, body)
        self.classify = classify
        self.max_paths = max_paths
        self.opaque_name = opaque_name or (lambda t, atoms: "call:" + callee_def(t).rsplit("::", 2)[-2] + "::" + callee_def(t).rsplit("::", 1)[-1]
                                           if callee_def(t).count("::") >= 2 else "call:" + callee_def(t))
        self.paths = []
        self.truncated = False
        self.unroll = unroll   # a block may appear this many times on a path (2 = one loop iteration, then exit)
        self.summarise_predicates = False   # bool methods that only test the variant of their receiver -> discriminant atom of its role
        self.option_calls_as_disc = False   # is_some()/is_none()/is_ok()/is_err() on an unknown value -> discriminant atom of its role
        self.force_opaque = None   # optional hook: call terminator -> name; treated as an opaque boolean even if it is a comparison call

    # --- symbolic values
    def role(self, op):
        if op.get("k") == "const":
            if "fval" in op:
                return "const:%s" % op["fval"]
            if "val" in op:
                return "const:%s" % op["val"]
        atoms = self.sl.of_operand(op)
        return self.classify(atoms, op)

    def val_of_operand(self, op, env):
        k = op.get("k")
        if k == "const":
            if op.get("ty") == "bool" and "val" in op:
                return ("const", bool(op["val"]))
            return None
        pl = op["pl"]
        key = place_str(pl)
        if key in env:
            return env[key]
        return None

    def cmp_atom(self, sym, a, b):
        ra, rb = self.role(a), self.role(b)
        # the log-level tests of the logging macros never influence a decision: one shared boolean instead of a pair per site
        if "log::" in ra or "log::" in rb or "Level::" in ra or "Level::" in rb:
            return ("opaque", "log_enabled")
        # canonical orientation: lexicographic on role names
        if ra > rb:
            ra, rb, sym = rb, ra, FLIP[sym]
        return ("cmp", sym, ra, rb)

    VARIANT_IDX = {"None": 0, "Some": 1, "Ok": 0, "Err": 1}

    def eval_rvalue(self, rv, env):
        k = rv["k"]
        if k == "use" or k == "cast":
            return self.val_of_operand(rv["op"], env)
        # locally known enum values (a flag kept as Option / Result instead of bool): followed through shared references,
        # discriminant reads and is_some()/is_none()/is_ok()/is_err()
        if k == "agg" and rv.get("variant") in self.VARIANT_IDX and not rv.get("tuple"):
            return ("variant", rv["variant"], self.VARIANT_IDX[rv["variant"]])
        if k == "discr":
            v = env.get(place_str(rv["pl"]))
            if v is not None and v[0] == "variant":
                return ("discconst", v[2])
            if v is not None and v[0] == "someif":
                return ("discbool", v[1])
            return None
        if k == "ref" and not rv.get("mut"):
            v = env.get(place_str(rv["pl"]))
            if v is not None and v[0] in ("variant", "someif"):
                return v
            return None
        if k == "bin" and rv["op"] in CMP_OPS:
            return self.cmp_atom(CMP_OPS[rv["op"]], rv["a"], rv["b"])
        if k == "un" and rv["op"] == "Not":
            v = self.val_of_operand(rv["a"], env)
            if v is not None:
                return neg(v)
            return None
        if k == "bin" and rv["op"] in ("BitAnd", "BitOr"):
            a = self.val_of_operand(rv["a"], env)
            b = self.val_of_operand(rv["b"], env)
            if a is not None and b is not None:
                return ("and" if rv["op"] == "BitAnd" else "or", a, b)
        return None

    def walk(self, start, stop):
        """stop(bb, env) -> outcome or None, evaluated on entering bb (after its statements, at the
        terminator).  Paths end at an outcome, at a return (outcome ('return', env)), or when a block repeats
        (outcome 'loop')."""
        self.paths = []
        self._dfs(start, {}, [], [], stop, {})
        return self.paths

    def _dfs(self, bb, env, lits, blocks, stop, onpath):
        if len(self.paths) >= self.max_paths:
            self.truncated = True
            return
        b = self.b
        visit = onpath.get(bb, 0) + 1
        hof = b.blocks[bb].get("hof_head")
        if hof and visit > 1:
            # synthetic loop head of an unfolded closure (sa/inline.py): the closure body ran once on this path, now leave through the call
            if visit > 3:
                return
            onpath = dict(onpath)
            onpath[bb] = visit
            self._dfs(b.blocks[bb]["term"]["otherwise"], env, lits, blocks + [bb], stop, onpath)
            return
        if visit > self.unroll:
            self.paths.append({"lits": lits, "outcome": ("loop", bb), "blocks": blocks + [bb], "env": env})
            return
        env = dict(env)
        blk = b.blocks[bb]
        for s in blk["stmts"]:
            if s["k"] == "assign":
                key = place_str(s["lhs"])
                rv = s["rv"]
                if rv["k"] == "agg" and rv.get("tuple"):
                    for i, o in enumerate(rv["ops"]):
                        v = self.val_of_operand(o, env)
                        if v is not None:
                            env["%s.%d" % (key, i)] = v
                        else:
                            env.pop("%s.%d" % (key, i), None)
                    continue
                if rv["k"] == "ref" and rv.get("mut"):
                    env.pop(place_str(rv["pl"]), None)      # may be changed through the reference
                # a tuple moved as a whole keeps what is known about its components (the result tuple of an inlined helper)
                if rv["k"] == "use" and rv["op"].get("k") in ("copy", "move"):
                    src = place_str(rv["op"]["pl"]) + "."
                    for k2 in [k2 for k2 in env if k2.startswith(key + ".")]:
                        env.pop(k2, None)
                    for k2, v2 in list(env.items()):
                        if k2.startswith(src):
                            env[key + "." + k2[len(src):]] = v2
                v = self.eval_rvalue(rv, env)
                if v is not None:
                    env[key] = v
                else:
                    env.pop(key, None)
        blocks = blocks + [bb]
        out = stop(bb, env)
        if out is not None:
            self.paths.append({"lits": lits, "outcome": out, "blocks": blocks, "env": env})
            return
        t = blk["term"]
        if t is None:
            return
        k = t["k"]
        onpath = dict(onpath)
        onpath[bb] = visit
        sfx = "" if visit == 1 else "#%d" % visit
        if k == "return":
            self.paths.append({"lits": lits, "outcome": ("return",), "blocks": blocks, "env": env})
        elif k == "switch" and t.get("hof"):
            # nondeterministic: the closure runs (any of the entries) or not; no literal
            # literal: whether the closure body ran on this path (for a search adaptor: whether there was an element to look at)
            ran = ("opaque", "closure-ran:" + t["hof"].rsplit("::", 1)[-1])
            for val, tg in t["targets"]:
                self._dfs(tg, env, lits + [ran], blocks, stop, onpath)
            self._dfs(t["otherwise"], env, lits + [neg(ran)], blocks, stop, onpath)
        elif k == "switch":
            v = self.val_of_operand(t["op"], env)
            if t.get("ty") == "bool":
                if v is None:
                    atoms = self.sl.of_operand(t["op"])
                    v = ("opaque", "bool:" + self.classify(atoms, t["op"]) + sfx)
                fals = [tg for val, tg in t["targets"] if val == 0]
                if fals:
                    self._dfs(fals[0], env, lits + [neg(v)], blocks, stop, onpath)
                    self._dfs(t["otherwise"], env, lits + [v], blocks, stop, onpath)
                else:
                    for val, tg in t["targets"]:
                        self._dfs(tg, env, lits + [v], blocks, stop, onpath)
                    self._dfs(t["otherwise"], env, lits + [neg(v)], blocks, stop, onpath)
            elif v is not None and v[0] == "discconst":
                tg = dict(t["targets"]).get(v[1], t["otherwise"])
                self._dfs(tg, env, lits, blocks, stop, onpath)
            elif v is not None and v[0] == "discbool":
                # Option whose presence is a known boolean expression: Some (1) iff e
                tmap = dict(t["targets"])
                self._dfs(tmap.get(1, t["otherwise"]), env, lits + [v[1]], blocks, stop, onpath)
                self._dfs(tmap.get(0, t["otherwise"]), env, lits + [neg(v[1])], blocks, stop, onpath)
            else:
                atoms = self.sl.of_operand(t["op"])
                role = self.classify(atoms, t["op"]) + sfx
                vals = [val for val, _ in t["targets"]]
                for val, tg in t["targets"]:
                    self._dfs(tg, env, lits + [("disc", role, val)], blocks, stop, onpath)
                ot = t["otherwise"]
                if (b.term(ot) or {}).get("k") != "unreachable":
                    self._dfs(ot, env, lits + [("disc_other", role, tuple(vals))], blocks, stop, onpath)
        elif k == "call":
            env2 = env
            dest = place_str(t["dest"])
            name = None
            forced = self.force_opaque(t) if self.force_opaque else None
            if forced:
                env2 = dict(env)
                env2[dest] = ("opaque", forced)
                name = forced
            for cn, sym in (CMP_CALLS.items() if not forced else ()):
                if callee_is(t, cn) and len(t["args"]) == 2:
                    env2 = dict(env)
                    env2[dest] = self.cmp_atom(sym, t["args"][0], t["args"][1])
                    name = cn
                    break
            if name is None and t["args"] and callee_def(t).rsplit("::", 1)[-1] in ("is_none", "is_some", "is_ok", "is_err") and \
                    callee_def(t).startswith(("std::option::Option", "std::result::Result", "core::option::Option", "core::result::Result")):
                av = self.val_of_operand(t["args"][0], env)
                nm = callee_def(t).rsplit("::", 1)[-1]
                if av is not None and av[0] == "variant":
                    env2 = dict(env)
                    env2[dest] = ("const", av[1] == {"is_none": "None", "is_some": "Some", "is_ok": "Ok", "is_err": "Err"}[nm])
                    name = nm
                elif av is not None and av[0] == "someif" and nm in ("is_some", "is_none"):
                    env2 = dict(env)
                    env2[dest] = av[1] if nm == "is_some" else neg(av[1])
                    name = nm
                elif self.option_calls_as_disc:
                    # unknown value: the same atom a `match` on it would produce (discriminant of the operand's role), so that
                    # `if x.is_some() { x.unwrap() .. }` and `match x { Some(..) => .. }` give the same table
                    atoms = self.sl.of_operand(t["args"][0]) | {"discr"}
                    role = self.classify(atoms, t["args"][0])
                    env2 = dict(env)
                    env2[dest] = ("disc2", role, {"is_none": 0, "is_some": 1, "is_ok": 0, "is_err": 1}[nm])
                    name = nm
            if name is None and callee_is(t, "Try::branch") and t["args"]:
                # `r?` on a Result / Option whose variant is known on this path (e.g. the result of an inlined helper):
                # Ok / Some -> Continue (0), Err / None -> Break (1)
                av = self.val_of_operand(t["args"][0], env)
                if av is not None and av[0] == "variant":
                    cont = av[1] in ("Ok", "Some")
                    env2 = dict(env)
                    env2[dest] = ("variant", "Continue" if cont else "Break", 0 if cont else 1)
                    name = "try-branch"
            if name is None and t.get("dest_ty") == "bool" and len(t["args"]) == 2 and callee_def(t).endswith(("RangeInclusive::<Idx>::contains", "Range::<Idx>::contains")):
                # (a..=b).contains(&x)  ==  a <= x && x <= b      ((a..b): x < b) - the range built right here by RangeInclusive::new / a Range aggregate
                rp = op_place(t["args"][0])
                lo = hi = None
                for _ in range(4):
                    ds = self.b.defs().get(rp["l"], []) if rp else []
                    if len(ds) != 1:
                        break
                    kd, bi_, si_, node, pj = ds[0]
                    if kd == "call" and callee_def(node).endswith("RangeInclusive::<Idx>::new") and len(node["args"]) == 2:
                        lo, hi = node["args"]
                        break
                    if kd == "assign" and node["rv"]["k"] == "agg" and len(node["rv"].get("ops", [])) == 2 and "Range" in node["rv"].get("adt", ""):
                        lo, hi = node["rv"]["ops"]
                        break
                    if kd == "assign" and node["rv"]["k"] in ("use", "ref"):
                        rp = op_place(node["rv"]["op"]) if node["rv"]["k"] == "use" else node["rv"]["pl"]
                        continue
                    break
                if lo is not None:
                    incl = "Inclusive" in callee_def(t)
                    x = t["args"][1]
                    env2 = dict(env)
                    env2[dest] = ("and", self.cmp_atom("<=", lo, x), self.cmp_atom("<=" if incl else "<", x, hi))
                    name = "range-contains"
            if name is None and self.summarise_predicates and t.get("dest_ty") == "bool" and t["args"]:
                tgs = [x for x in self.f.call_targets(self.b, t) if x in self.f.bodies]
                summ = disc_summary(self.f, tgs[0]) if len(tgs) == 1 else None
                if summ is not None:
                    atoms = self.sl.of_operand(t["args"][0]) | {"discr"}
                    role = self.classify(atoms, t["args"][0])
                    env2 = dict(env)
                    env2[dest] = ("discin", role, frozenset(k for k, v in summ.items() if v), len(summ))
                    name = "summ"
            if name is None and t.get("hof_passthrough"):
                # the unfolded closure ran on this path and its result is known: find_map / and_then hand exactly that value on;
                # if it did not run, find_map yields None
                env2 = dict(env)
                kind = t["hof_passthrough"]
                ran = dest in env2
                v = env2.get(dest)
                if kind == "find_map":
                    if not ran:
                        env2[dest] = ("variant", "None", 0)
                elif kind in ("find", "position"):
                    # Some(element) iff the predicate said true (for the element looked at on this path); None without elements
                    if not ran:
                        env2[dest] = ("variant", "None", 0)
                    elif v is not None and v[0] not in ("variant", "someif"):
                        env2[dest] = ("someif", v)
                    else:
                        env2.pop(dest, None)
                elif kind in ("any", "all"):
                    if not ran:
                        env2[dest] = ("const", kind == "all")
                    elif v is None or v[0] in ("variant", "someif"):
                        env2.pop(dest, None)
                elif kind == "map":
                    a = self.val_of_operand(t["args"][0], env) if t["args"] else None
                    if a is not None and a[0] in ("variant", "someif"):
                        env2[dest] = a if a[0] == "someif" or a[1] == "None" else ("variant", "Some", 1)
                    else:
                        env2.pop(dest, None)
                name = "hof"
            if name is None:
                env2 = dict(env)
                if t.get("dest_ty") == "bool":
                    atoms = set()
                    for a in t["args"]:
                        atoms |= self.sl.of_operand(a)
                    env2[dest] = ("opaque", self.opaque_name(t, atoms))
                else:
                    env2.pop(dest, None)
            if t["target"] is not None:
                self._dfs(t["target"], env2, lits, blocks, stop, onpath)
        else:
            for s in b.succs(bb):
                self._dfs(s, env, lits, blocks, stop, onpath)


# --------------------------------------------------------------------------
# Evaluation over the finite case table
# --------------------------------------------------------------------------

def atoms_of(e, acc):
    if e is None:
        return
    if e[0] == "cmp":
        acc["pairs"].add((e[2], e[3]))
    elif e[0] == "opaque":
        acc["opaque"].add(e[1])
    elif e[0] == "disc2":
        acc["disc"].setdefault(e[1], set()).update((0, 1))
    elif e[0] == "discin":
        acc["disc"].setdefault(e[1], set()).update(range(e[3]))
    elif e[0] in ("disc", "disc_other"):
        acc["disc"].setdefault(e[1], set())
        if e[0] == "disc":
            acc["disc"][e[1]].add(e[2])
        else:
            acc["disc"][e[1]].update(e[2])
            acc.setdefault("has_other", set()).add(e[1])
    elif e[0] == "not":
        atoms_of(e[1], acc)
    elif e[0] in ("and", "or"):
        atoms_of(e[1], acc)
        atoms_of(e[2], acc)


def ev(e, asg):
    k = e[0]
    if k == "const":
        return e[1]
    if k == "not":
        return not ev(e[1], asg)
    if k == "and":
        return ev(e[1], asg) and ev(e[2], asg)
    if k == "or":
        return ev(e[1], asg) or ev(e[2], asg)
    if k == "opaque":
        return asg["opaque"][e[1]]
    if k in ("disc", "disc2"):
        return asg["disc"][e[1]] == e[2]
    if k == "discin":
        return asg["disc"][e[1]] in e[2]
    if k == "disc_other":
        return asg["disc"][e[1]] not in e[2]
    if k == "cmp":
        rel = asg["pairs"][(e[2], e[3])]  # '<', '=', '>' relation of role e[2] to role e[3]
        sym = e[1]
        return {"<": rel == "<", "<=": rel in "<=", ">": rel == ">", ">=": rel in ">=", "==": rel == "=", "!=": rel != "="}[sym]
    raise ValueError(e)


def rel_of(asg, a, b):
    """relation of role a to role b under the assignment (handles orientation)."""
    if (a, b) in asg["pairs"]:
        return asg["pairs"][(a, b)]
    if (b, a) in asg["pairs"]:
        return {"<": ">", "=": "=", ">": "<"}[asg["pairs"][(b, a)]]
    return None


def table(paths, outcome_value, fix_disc=None, max_rows=1500000):
    """Enumerate assignments; for each, find the feasible path(s) and its outcome.
    outcome_value(path, asg) -> hashable outcome.  Returns list of (asg, outcome set)."""
    acc = {"pairs": set(), "opaque": set(), "disc": {}}
    for p in paths:
        for l in p["lits"]:
            atoms_of(l, acc)
        for e in p.get("extra_exprs", []):
            atoms_of(e, acc)
        for k, e in p.get("env", {}).items():
            if k == "_0" or k.startswith("_0."):
                atoms_of(e, acc)
    pairs = sorted(acc["pairs"])
    opq = sorted(acc["opaque"])
    discs = sorted(acc["disc"])
    disc_vals = {}
    for d in discs:
        if fix_disc and d in fix_disc:
            disc_vals[d] = [fix_disc[d]]
        else:
            disc_vals[d] = sorted(acc["disc"][d]) + (["other"] if d in acc.get("has_other", ()) else [])
    n = (3 ** len(pairs)) * (2 ** len(opq))
    for d in discs:
        n *= len(disc_vals[d])
    if n > max_rows:
        raise OverflowError("decision table too large: %d rows (%d pairs, %d opaque, %d disc)" % (n, len(pairs), len(opq), len(discs)))
    rows = []
    for prel in itertools.product("<=>", repeat=len(pairs)):
        for oval in itertools.product([False, True], repeat=len(opq)):
            for dval in itertools.product(*[disc_vals[d] for d in discs]):
                asg = {"pairs": dict(zip(pairs, prel)), "opaque": dict(zip(opq, oval)), "disc": dict(zip(discs, dval))}
                outs = set()
                for p in paths:
                    if all(ev(l, asg) for l in p["lits"]):
                        outs.add(outcome_value(p, asg))
                rows.append((asg, outs))
    return rows, {"pairs": pairs, "opaque": opq, "disc": disc_vals}


def fmt_asg(asg):
    parts = ["%s %s %s" % (a, r, b) for (a, b), r in sorted(asg["pairs"].items())]
    parts += ["%s=%s" % (k, v) for k, v in sorted(asg["opaque"].items())]
    parts += ["%s=#%s" % (k, v) for k, v in sorted(asg["disc"].items())]
    return ", ".join(parts)


def fmt_expr(e):
    k = e[0]
    if k == "const":
        return str(e[1]).lower()
    if k == "not":
        return "!(" + fmt_expr(e[1]) + ")"
    if k in ("and", "or"):
        return "(%s %s %s)" % (fmt_expr(e[1]), "&&" if k == "and" else "||", fmt_expr(e[2]))
    if k == "opaque":
        return e[1]
    if k in ("disc", "disc2"):
        return "%s is #%s" % (e[1], e[2])
    if k == "discin":
        return "%s in %s" % (e[1], sorted(e[2]))
    if k == "disc_other":
        return "%s not in %s" % (e[1], list(e[2]))
    if k == "cmp":
        return "%s %s %s" % (e[2], e[1], e[3])
    return str(e)
