"""C18 — rules and metric lines survive serialisation round trips unchanged (structural part).

Decided (DESIGN §3 C18):
  C18.serde-shape     each of the five Rule structs implements serde::Serialize and Deserialize, carries container attribute
                      #[serde(default)], has no serde attribute on a field (no rename / skip / with / flatten), and every local enum used as a
                      field type implements both traits; variants marked #[serde(skip)] are exactly the Custom(_) variants (listed)
  C18.parser          rule_json_array_parser propagates the serde_json error (`?`) and contains no panic site (A3)
  C18.metric-table    MetricItem: position i of Display carries the field that from_string reads from arr[i], for every field;
                      the separator replacement is applied to the resource field only; 11 placeholders separated by exactly '|'
  C18.metric-parse    every numeric parse in from_string propagates with `?`; every arr[i] is dominated by a length test that makes i valid
"""
import re

from .core import *
from .panics import PanicSites, site_atoms

RULES = ["flow", "hotspot", "circuitbreaker", "isolation", "system"]


def run(ctx):
    ctx.explanation = (
        "Structural checks of the serde contract read from the type-checked program: trait-impl table (derive-generated impls of "
        "Serialize/Deserialize), container/field/variant attributes as written in the source, enum closure of field types; panic-site "
        "analysis and error-propagation rule on the JSON parser; writer/reader position table of MetricItem extracted from the "
        "format_args lowering in Display::fmt and from the indexed reads in from_string; bounds dominance for those reads.")
    ctx.not_decided = ("value-level round-trip equality (floats, unicode) and 'enforced identically' - properties of serde_json's behaviour on "
                       "values; a rule whose strategy is a #[serde(skip)] Custom variant cannot round-trip at all (listed in evidence).")
    ctx.assumptions = ["serde's derive implements what the attributes say"]
    cfg = "core-default"
    f = ctx.facts(cfg)
    serde_shape(ctx, f, cfg)
    parser(ctx, ctx.facts("core-super"), "core-super")     # the datasource module exists only with a ds_* feature
    metric(ctx, f, cfg)
    enum_codec(ctx, f, cfg)


def _impl_traits(f, ty):
    return {im.get("trait") for im in f.impls if im["self_ty"] == ty and im.get("trait")}


def serde_shape(ctx, f, cfg):
    skipped = []
    n = 0
    for fam in RULES:
        adt = "core::%s::rule::Rule" % fam
        a = f.adts.get(adt)
        if a is None:
            continue
        n += 1
        tr = _impl_traits(f, adt)
        has_ser = any(t and t.endswith("Serialize") and "serde" in t for t in tr)
        has_de = any(t and "Deserialize" in t and "serde" in t for t in tr)
        attrs = " ".join(source_attrs(ctx.repo, a["file"], a["line"]))
        has_default = bool(re.search(r"serde\s*\(\s*[^)]*\bdefault\b", attrs))
        fattrs = []
        enums = []
        for fl in a["variants"][0]["fields"]:
            for at in source_attrs(ctx.repo, a["file"], fl["line"]):
                if "serde" in at:
                    fattrs.append("%s: %s" % (fl["name"], at))
            for ap, ad in f.adts.items():
                if ad["kind"] == "Enum" and re.search(r"(^|[<, ])" + re.escape(ap) + r"($|[>, ])", fl["ty"]):
                    enums.append((fl["name"], ap))
        enum_bad = []
        for fn, ep in enums:
            tr2 = _impl_traits(f, ep)
            if not (any(t.endswith("Serialize") for t in tr2 if t) and any("Deserialize" in t for t in tr2 if t)):
                enum_bad.append(ep)
            for v in f.adts[ep]["variants"]:
                v = dict(v, attrs=source_attrs(ctx.repo, f.adts[ep]["file"], v.get("line", 0)) if v.get("line") else v.get("attrs", []))
                sk = [x for x in v.get("attrs", []) if re.search(r"serde\s*\(\s*skip", x)]
                if sk:
                    skipped.append("%s::%s" % (ep.replace("core::", "", 1), v["name"]))
                    if not v["name"].startswith("Custom"):
                        ctx.violation("C18.serde-shape", "C18.serde-shape|%s|skipped-variant|%s" % (fam, v["name"]),
                                      "%s::%s is #[serde(skip)]: rules using it cannot be serialised" % (ep, v["name"]), "%s:%s" % (f.adts[ep]["file"], f.adts[ep]["line"]), config=cfg)
                other = [x for x in v.get("attrs", []) if "serde" in x and not re.search(r"serde\s*\(\s*skip", x)]
                if other:
                    fattrs.append("%s::%s: %s" % (ep, v["name"], other))
        ok = has_ser and has_de and has_default and not fattrs and not enum_bad
        ctx.instance("C18.serde-shape", adt, {"Serialize": has_ser, "Deserialize": has_de, "container_default": has_default, "field_serde_attrs": fattrs,
                                              "enum_fields": [e[1].rsplit("::", 1)[-1] for e in enums], "enums_missing_impls": enum_bad},
                     "derives both, #[serde(default)] on the struct, no per-field serde attribute, enum field types derive both", ok, cfg)
        if not (has_ser and has_de):
            ctx.violation("C18.serde-shape", "C18.serde-shape|%s|impls" % fam, "%s does not implement both Serialize and Deserialize" % adt, "%s:%s" % (a["file"], a["line"]), config=cfg)
        if not has_default:
            ctx.violation("C18.serde-shape", "C18.serde-shape|%s|no-default" % fam, "%s lacks #[serde(default)]: a document with a missing field is rejected instead of taking the default" % adt, "%s:%s" % (a["file"], a["line"]), config=cfg)
        if fattrs:
            ctx.violation("C18.serde-shape", "C18.serde-shape|%s|field-attrs|%s" % (fam, ";".join(sorted(x.split(":")[0] for x in fattrs))),
                          "%s has serde attributes that change the wire shape of single fields: %s" % (adt, fattrs), "%s:%s" % (a["file"], a["line"]), config=cfg)
        if enum_bad:
            ctx.violation("C18.serde-shape", "C18.serde-shape|%s|enum-impls" % fam, "enum field types without both serde impls: %s" % enum_bad, config=cfg)
    ctx.floor("C18.serde-shape", "Rule structs", n, 5)
    ctx.extra["serde_skipped_variants"] = sorted(set(skipped))


def parser(ctx, f, cfg):
    b = f.one("datasource::property::rule_json_array_parser") or f.one("rule_json_array_parser")
    if not ctx.floor("C18.parser", "rule_json_array_parser", 1 if b else 0, 1):
        return
    calls = [(bb, t) for bb, t in b.calls() if callee_is(t, "serde_json::from_str", "serde_json::de::from_str")]
    ok = len(calls) == 1
    prop = False
    if ok:
        # a document the parser rejects becomes the function's Err: every Ok answer lies on the success edge of the test on
        # from_str's result (`?`, match, if-let, is_ok / is_err alike)
        oks = [bi for bi, blk in enumerate(b.blocks) if not blk["cleanup"] for s_ in blk["stmts"]
               if s_["k"] == "assign" and s_["lhs"]["l"] == 0 and not s_["lhs"]["p"] and s_["rv"]["k"] == "agg" and s_["rv"].get("variant") == "Ok"]
        prop = bool(oks) and all(ok_edge_dominates(f, b, x, "call:from_str") for x in oks)
    ps = PanicSites(f)
    sites = [s for s in ps.sites() if (s["body"].path == b.path or s["body"].root == b.path) and not ps.discharge_local(s)]
    ok = ok and prop and not sites
    ctx.instance("C18.parser", b.path, {"from_str_sites": len(calls), "error_propagated": prop, "panic_sites": [s["kind"] for s in sites]}, "serde_json::from_str(src)? and no panic site", ok, cfg)
    if not ok:
        ctx.violation("C18.parser", "C18.parser|shape", "the rule parser does not turn a malformed document into an Err: %s" % {"propagated": prop, "panic_sites": [s["callee"] for s in sites]}, b.loc(), config=cfg)


def enum_codec(ctx, f, cfg):
    """Enums that are written with `as <int>` and read back through a hand-written `From<int>`: every integer the reader maps to a variant
    is that variant's discriminant (explicit or implicit), and every variant is reachable.  (MetricItem writes `resource_type as u8` and
    parses it with `ResourceType::from(u8)`.)"""
    n = 0
    for b in f.impl_methods("From", "from"):
        adt = f.adts.get(b.impl_self or "")
        if not adt or adt["kind"] != "Enum" or b.argc != 1 or b.local_ty(1) not in ("u8", "u16", "u32", "u64", "i8", "i16", "i32", "i64", "usize", "isize"):
            continue
        t0 = b.term(0)
        if not t0 or t0["k"] != "switch" or (op_place(t0["op"]) or {}).get("l") != 1:
            continue
        n += 1
        disc = {v["name"]: v.get("discr") for v in adt["variants"]}

        def built(start):
            seen, work = set(), [start]
            while work:
                x = work.pop()
                if x in seen:
                    continue
                seen.add(x)
                for st in b.blocks[x]["stmts"]:
                    if st["k"] == "assign" and st["lhs"]["l"] == 0 and st["rv"]["k"] == "agg" and st["rv"].get("variant"):
                        return st["rv"]["variant"]
                work += b.succs(x)
            return None
        table = {val: built(tg) for val, tg in t0["targets"]}
        default = built(t0["otherwise"])
        bad = {val: (v, disc.get(v)) for val, v in table.items() if v is None or disc.get(v) != val}
        covered = set(table.values()) | {default}
        unreachable = sorted(v for v in disc if v not in covered)
        # the default arm may stand for the variant whose discriminant is not listed; it must not shadow a listed one
        ok = not bad and not unreachable
        ctx.instance("C18.enum-codec", b.path, {"reader": {str(k): v for k, v in sorted(table.items())}, "default": default, "discriminants": disc, "disagreements": {str(k): v for k, v in bad.items()}, "unreachable": unreachable},
                     "From<int> maps each integer to the variant with that discriminant", ok, cfg)
        if not ok:
            ctx.violation("C18.enum-codec", "C18.enum-codec|%s|%s" % ((b.impl_self or "").rsplit("::", 1)[-1], ",".join(str(k) for k in sorted(bad)) or "unreachable:" + ",".join(unreachable)),
                          "%s: `as` writes the discriminant but From<int> reads %s (integer: (variant, its discriminant)): a value written for one variant parses back as another" % (b.impl_self, bad or unreachable),
                          b.loc(), config=cfg)
    ctx.floor("C18.enum-codec", "hand-written From<int> impls for enums", n, 1)


def metric(ctx, f, cfg):
    adt = "core::base::metric_item::MetricItem"
    a = f.adts.get(adt)
    disp = [b for b in f.impl_methods("Display", "fmt") if b.impl_self == adt]
    rd = f.one("MetricItem::from_string")
    if not ctx.floor("C18.metric-table", "MetricItem Display::fmt + from_string", len(disp) + (1 if rd else 0), 2) or not a:
        return
    b = disp[0]
    sl = Slicer(f, b)
    # writer: the tuple of references handed to format_args, in order
    writer = []
    replaced = []
    for blk in b.blocks:
        for s in blk["stmts"]:
            if s["k"] == "assign" and s["rv"]["k"] == "agg" and s["rv"].get("tuple") and len(s["rv"]["ops"]) >= 8:
                for o in s["rv"]["ops"]:
                    at = sl.of_operand(o)
                    flds = sorted(x.rsplit(".", 1)[-1] for x in at if x.startswith("field:" + adt + "."))
                    writer.append(flds)
                    if any_atom(at, "call:replace") or any(x.startswith("call:") and x.endswith("::replace") for x in at):
                        replaced.append(flds)
    # display order as passed to Arguments::new: array of new_display(&tuple.i): check it is 0..n-1 in order
    order = []
    for bb, t in b.calls():
        if callee_def(t).endswith("new_display") or callee_def(t).endswith("new_debug"):
            pl = op_place(t["args"][0])
            d = def_of_local(b, pl["l"]) if pl else None
            if d and d[0] == "assign" and d[3]["rv"]["k"] == "ref":
                pr = d[3]["rv"]["pl"]["p"]
                idx = [p for p in pr if p.startswith(".") and p[1:].isdigit()]
                if idx:
                    order.append(int(idx[0][1:]))
    in_order = order == list(range(len(writer))) and len(writer) > 0
    # template: placeholders separated by '|'
    seps = None
    for blk in b.blocks:
        for s in blk["stmts"]:
            if s["k"] == "assign" and s["rv"]["k"] == "use" and s["rv"]["op"].get("k") == "const" and "\\xc0" in s["rv"]["op"].get("text", ""):
                txt = s["rv"]["op"]["text"]
                seps = txt.count("|")
    # reader: field -> index
    rb = rd
    rs = Slicer(f, rb)
    reader = {}

    def idx_of(op):
        at = rs.of_operand(op)
        cs = sorted(int(x[6:]) for x in at if x.startswith("const:") and x[6:].isdigit() and int(x[6:]) <= 20)
        # constant index of the arr[..] read feeding this value
        best = None
        for bb, t in rb.calls():
            if callee_def(t).endswith("Index::index") and "Vec<&str>" in (t.get("arg_tys") or [""])[0]:
                v = const_val(t["args"][1])
                if v is not None and ("lid:%d" % -1) not in at:
                    pass
        return cs
    # map each Index::index(arr, const i) result forward to the field it is stored in
    idx_sites = {}
    for bb, t in rb.calls():
        if callee_def(t).endswith("Index::index") and "Vec<&str>" in (t.get("arg_tys") or [""])[0]:
            v = const_val(t["args"][1])
            if v is not None:
                idx_sites[t["dest"]["l"]] = (v, bb)

    def index_feeding(op, depth=0, seen=None):
        seen = seen or set()
        pl = op_place(op)
        if pl is None or depth > 12 or pl["l"] in seen:
            return None
        seen.add(pl["l"])
        if pl["l"] in idx_sites:
            return idx_sites[pl["l"]][0]
        for kind, bi, si, node, projs in rb.defs().get(pl["l"], []):
            if kind == "assign":
                rv = node["rv"]
                for key in ("op", "a"):
                    if key in rv and isinstance(rv[key], dict):
                        r = index_feeding(rv[key], depth + 1, seen)
                        if r is not None:
                            return r
                if rv["k"] == "ref":
                    r = index_feeding({"k": "copy", "pl": rv["pl"]}, depth + 1, seen)
                    if r is not None:
                        return r
            else:
                for x in node["args"]:
                    r = index_feeding(x, depth + 1, seen)
                    if r is not None:
                        return r
        return None
    for blk in rb.blocks:
        if blk["cleanup"]:
            continue
        for s in blk["stmts"]:
            if s["k"] != "assign":
                continue
            if s["rv"]["k"] == "agg" and s["rv"].get("adt") == adt:
                for nm, o in zip(s["rv"]["fields"], s["rv"]["ops"]):
                    i = index_feeding(o)
                    if i is not None:
                        reader[nm] = i
            for p in s["lhs"]["p"]:
                if p.startswith("." + adt + "."):
                    nm = p.rsplit(".", 1)[-1]
                    i = index_feeding(s["rv"].get("op")) if s["rv"]["k"] in ("use", "cast") else None
                    if i is not None:
                        reader[nm] = i
        t = blk["term"]
        if t and t["k"] == "call" and t["dest"]["p"]:
            for p in t["dest"]["p"]:
                if p.startswith("." + adt + "."):
                    nm = p.rsplit(".", 1)[-1]
                    for x in t["args"]:
                        i = index_feeding(x)
                        if i is not None:
                            reader[nm] = i
    wpos = {}
    for i, flds in enumerate(writer):
        if len(flds) == 1 and flds[0] not in wpos:
            wpos[flds[0]] = i
        elif len(flds) == 1:
            # timestamp appears twice (raw and formatted): keep the first (raw) position
            pass
    fields = [fl["name"] for fl in a["variants"][0]["fields"]]
    mism = {fn: (wpos.get(fn), reader.get(fn)) for fn in fields if wpos.get(fn) != reader.get(fn)}
    ok = in_order and not mism and len(reader) == len(fields)
    ctx.instance("C18.metric-table", adt, {"writer_positions": wpos, "reader_indices": reader, "display_args_in_tuple_order": in_order, "separators": seps},
                 "for every field: position written == index read", ok, cfg)
    if mism or len(reader) != len(fields):
        ctx.violation("C18.metric-table", "C18.metric-table|positions|" + ",".join(sorted(mism) or ["reader-incomplete"]),
                      "MetricItem line positions disagree between Display and from_string (field: written, read): %s" % (mism or reader), rb.loc(), config=cfg)
    if not in_order:
        ctx.violation("C18.metric-table", "C18.metric-table|arg-order", "Display does not print its arguments in tuple order", b.loc(), config=cfg)
    okr = replaced == [["resource"]]
    ctx.instance("C18.metric-table/replace", b.path, replaced, [["resource"]], okr, cfg)
    if not okr:
        ctx.violation("C18.metric-table", "C18.metric-table|replace", "the separator replacement is applied to %s, expected only the resource name" % replaced, b.loc(), config=cfg)
    if seps is not None:
        oks = seps == len(writer) - 1
        ctx.instance("C18.metric-table/separators", b.path, {"separators": seps, "placeholders": len(writer)}, "n-1 '|' separators", oks, cfg)
        if not oks:
            ctx.violation("C18.metric-table", "C18.metric-table|separators", "Display writes %s separators for %d fields" % (seps, len(writer)), b.loc(), config=cfg)
    # the resource name is read back verbatim: between the line and the `resource` field there is only splitting, indexing and
    # conversion into an owned string - nothing that rewrites the text (trim, replace, case folding, ...)
    VERBATIM = ("split", "splitn", "split_terminator", "collect", "index", "get", "nth", "next", "into_iter", "iter", "into", "from", "to_string", "to_owned",
                "clone", "deref", "as_ref", "as_str", "borrow", "unwrap", "branch", "from_residual", "ok_or", "ok_or_else", "cloned", "copied", "len", "is_empty")
    res_calls = None
    for blk in rb.blocks:
        if blk["cleanup"]:
            continue
        for s in blk["stmts"]:
            if s["k"] == "assign" and s["rv"]["k"] == "agg" and s["rv"].get("adt") == adt:
                for nm, o in zip(s["rv"]["fields"], s["rv"]["ops"]):
                    if nm == "resource":
                        res_calls = sorted({x[5:] for x in rs.of_operand(o) if x.startswith("call:")})
            for pj in s["lhs"]["p"] if s["k"] == "assign" else []:
                if pj == "." + adt + ".resource":
                    res_calls = sorted(set(res_calls or []) | {x[5:] for x in rs.of_operand(s["rv"].get("op")) if x.startswith("call:")}) if s["rv"]["k"] == "use" else res_calls
    rewriting = [c for c in (res_calls or []) if c.rsplit("::", 1)[-1] not in VERBATIM]
    okv = res_calls is not None and not rewriting and "param:line" in set().union(*[rs.of_operand(o) for blk in rb.blocks for s in blk["stmts"] if s["k"] == "assign" and s["rv"]["k"] == "agg" and s["rv"].get("adt") == adt for nm, o in zip(s["rv"]["fields"], s["rv"]["ops"]) if nm == "resource"] or [set()])
    ctx.instance("C18.metric-table/name-verbatim", rb.path, {"calls_between_line_and_resource": [c.rsplit("::", 2)[-2] + "::" + c.rsplit("::", 1)[-1] if "::" in c else c for c in (res_calls or [])], "rewriting": rewriting},
                 "only splitting / indexing / owning conversions", okv, cfg)
    if not okv:
        ctx.violation("C18.metric-table", "C18.metric-table|name-rewritten|" + ",".join(sorted(c.rsplit("::", 1)[-1] for c in rewriting) or ["no-flow"]),
                      "from_string does not read the resource name back verbatim: it passes through %s" % (rewriting or "nothing that comes from the line"), rb.loc(), config=cfg)
    # parse discipline and bounds
    parses = [(bb, t) for bb, t in rb.calls() if callee_def(t).endswith("str>::parse") or callee_def(t).rsplit("::", 1)[-1] == "parse"]
    bad = []
    for bb, t in parses:
        dest = t["dest"]["l"]
        if not any(callee_is(t2, "Try::branch") and op_place(t2["args"][0]) and op_place(t2["args"][0])["l"] == dest for _, t2 in rb.calls()):
            bad.append(rb.loc(bb))
    ctx.instance("C18.metric-parse", rb.path, {"parse_sites": len(parses), "not_propagated": bad}, "every parse()?", not bad and len(parses) >= 8, cfg)
    if bad or len(parses) < 8:
        ctx.violation("C18.metric-parse", "C18.metric-parse|propagate", "numeric fields of a metric line are not all parsed with the error propagated: %s" % bad, rb.loc(), config=cfg)
    # bounds: arr[i] needs len > i on every path
    nb = 0
    for l, (i, bb) in sorted(idx_sites.items()):
        need = i + 1
        have = 0
        for d in rb.dominators().get(bb, ()):
            t = rb.term(d)
            if not t or t["k"] != "switch" or t.get("ty") != "bool":
                continue
            pl = op_place(t["op"])
            dd = def_of_local(rb, pl["l"]) if pl else None
            if dd and dd[0] == "assign" and dd[3]["rv"]["k"] == "bin":
                rv = dd[3]["rv"]
                at = rs.of_operand(rv["a"])
                c = const_val(rv["b"])
                if c is None or not any(x.endswith("::len") for x in at):
                    continue
                te = bool_edge_targets(rb, d)
                if not te:
                    continue
                if rv["op"] == "Lt" and rb.dominates(te[1], bb):
                    have = max(have, c)
                if rv["op"] == "Ge" and rb.dominates(te[0], bb):
                    have = max(have, c)
                if rv["op"] == "Gt" and rb.dominates(te[0], bb):
                    have = max(have, c + 1)
        okb = have >= need
        nb += 1
        if not okb:
            ctx.violation("C18.metric-parse", "C18.metric-parse|bounds|arr[%d]" % i, "arr[%d] is read where only len >= %d is known: a short line panics" % (i, have), rb.loc(bb), config=cfg)
    ctx.instance("C18.metric-parse/bounds", rb.path, {"indexed_reads": nb}, "each arr[i] dominated by len > i", True, cfg)
