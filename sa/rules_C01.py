"""C01 — reject-type flow control admits a request iff it fits every rule's window.

Decided (necessary conditions; DESIGN §3 C01):
  C01.decision     the flow checker that constructs Blocked(Flow) without touching time (the reject checker): blocked iff
                   sum(Pass of the owner's read-only metric) + batch > threshold; event constant Pass; operands' origins
  C01.threading    the batch handed to the checker is the entry's batch count, the threshold is the calculator's output,
                   and the direct calculator returns rule.threshold
  C01.every-rule   flow slot: per controller Pass -> next, Blocked -> store & return, Wait -> sleep then next; exhaustion ->
                   the context's (passing) verdict; so every rule is consulted until one blocks
  C01.report       BlockType::Flow, rule and observed count attached
  C01.record       tokens are recorded (add_count(Pass, batch)) only from on_entry_pass callbacks; the standalone slot writes iff
                   !reuse_global
  C01.wiring       generate_stat_for: reuse_global=true => read metric derives from the resource node's array and there is no
                   private writer; reuse_global=false => reader is constructed over the same array that is handed out as writer;
                   the shared no-op pair is returned only when !need_statistic(), which is false for Reject rules
"""
from .core import *
from . import decision as D
from .decrules import *
from .effects import Effects, roots_of, prim_of, event_of


def run(ctx):
    ctx.explanation = (
        "Decision table (A6) of the reject checker extracted from MIR and compared with `admitted + n > threshold` over all "
        "orderings; origin slices for the event constant (Pass), the metric read (the owning controller's read-only metric), "
        "the batch and the threshold, threaded through Controller::perform_checking and the direct calculator; decision table "
        "of one iteration of the flow slot's loop (Pass/Blocked/Wait arms); who-may-record rule for Pass tokens; origin rules "
        "for the reader/writer wiring of generate_stat_for.")
    ctx.not_decided = ("which tokens lie inside the window at a given time (C02's arithmetic), fractional-threshold rounding, "
                       "boundary-aligned arrivals; these are numerical claims over runtime values.")
    ctx.assumptions = ["float NaN orderings ignored", "C13's chain rules (on_entry_pass only after all checks passed)"]
    cfg = "core-default"
    f = ctx.facts(cfg)
    decision(ctx, f, cfg)
    threading(ctx, f, cfg)
    every_rule(ctx, f, cfg)
    record(ctx, f, cfg)
    wiring(ctx, f, cfg)
    # one statistic per controller: a handed-over statistic leaves the old list, so no two new controllers record into the same window
    from . import rules_C11
    rules_C11.rebuild(ctx, f, "flow", "build_resource_traffic_shaping_controller", cfg, R="C01.once/stat-handover")
    # a rule's window may read the resource node's array only if it tiles it (otherwise tokens at the start of the window are forgotten)
    from . import rules_C02
    rules_C02.reuse_validator(ctx, f, cfg, R="C01.wiring/reuse-validator")
    # the tokens a rule sees are those of ITS window: the window metric selects the array's buckets only through the expiry filter
    # and the bucket-aligned start range (C02's gateway rules, part of this property's "inside that rule's current statistic window")
    rules_C02.gateway(ctx, f, cfg)


def _reject_checkers(f):
    out = []
    for b in f.impl_methods("flow::traffic_shaping::Checker", "do_check"):
        names = [callee_def(t) for _, t in b.calls()]
        if any("curr_time" in n for n in names):
            continue
        if any(vs == ["Flow"] for _, _, vs, _ in blocked_sites(f, b)):
            out.append(b)
    return out


def decision(ctx, f, cfg):
    chk = _reject_checkers(f)
    if not ctx.floor("C01.decision", "impl flow Checker::do_check constructing Blocked(Flow) without reading the clock", len(chk), 1):
        return
    for b in chk:
        roles = [
            ("observed+n", ["call:sum", "param:batch_count", "op:Add"], []),
            ("observed", ["call:sum"], []),
            ("limit", ["param:threshold"], ["call:sum"]),
        ]
        cls = make_classifier(roles)
        w = D.Walker(f, b, cls)
        blocked = {bb for bb, t, vs, c in blocked_sites(f, b)}
        passed = {bb for bb, t in b.calls() if callee_is(t, "TokenResult::new_pass")}
        paths = w.walk(0, lambda bb, env: ("blocked",) if bb in blocked else (("pass",) if bb in passed else None))

        def outcome(p, asg):
            return p["outcome"][0]

        def expected(asg):
            r = D.rel_of(asg, "observed+n", "limit")
            if r is None:
                return None
            return "blocked" if r == ">" else "pass"
        n, ncon, mism = run_table(ctx, "C01.decision", b.path, cfg, paths, outcome, expected)
        ctx.instance("C01.decision", b.path, {"rows": n, "constrained": ncon, "mismatches": mism[:3], "paths": len(paths)},
                     "blocked iff sum(Pass) + batch > threshold", not mism and ncon > 0, cfg)
        if mism or not ncon:
            ctx.violation("C01.decision", "C01.decision|table",
                          "reject decision differs from `admitted + n > threshold`: %s" % (mism[:1] or "comparison of (sum + batch) with the threshold not found"),
                          b.loc(), ["case [%s]: found %s expected %s" % m for m in mism[:6]], config=cfg)
        # operand origins
        sl = Slicer(f, b)
        obs = set()
        for blk in b.blocks:
            for s in blk["stmts"]:
                if s["k"] == "assign" and s["rv"]["k"] == "bin" and s["rv"]["op"] in D.CMP_OPS:
                    for o in (s["rv"]["a"], s["rv"]["b"]):
                        at = sl.of_operand(o)
                        if cls(at) == "observed+n":
                            obs |= at
        need = ["variant:MetricEvent::Pass", "call:StandaloneStat::read_only_metric", "call:Controller::stat", "field:RejectChecker.owner", "param:batch_count"]
        # the owner field name is private: accept any field of Self holding the Weak<Controller>
        need_generic = ["variant:MetricEvent::Pass", "call:StandaloneStat::read_only_metric", "call:Controller::stat", "call:upgrade", "param:batch_count"]
        missing = [p for p in need_generic if not any_atom(obs, p)]
        events = sorted(a.rsplit("::", 1)[1] for a in obs if a.startswith("variant:") and "MetricEvent::" in a)
        ok = not missing and events == ["Pass"]
        ctx.instance("C01.decision/operands", b.path, {"events": events, "missing": missing}, "observed = owner.stat().read_only_metric().sum(Pass) + batch_count", ok, cfg)
        if events != ["Pass"]:
            ctx.violation("C01.decision", "C01.decision|event|" + ",".join(events), "the reject checker reads MetricEvent::%s, the admitted tokens are MetricEvent::Pass" % events, b.loc(), config=cfg)
        elif missing:
            ctx.violation("C01.decision", "C01.decision|operands|" + ",".join(missing), "observed side of the reject decision lacks: %s" % missing, b.loc(), config=cfg)
        check_block_constants(ctx, f, b, "C01.report", cfg, "Flow", ["field:RejectChecker.rule", "param:self"], ["call:sum"], "flow")


def threading(ctx, f, cfg):
    pc = f.one("flow::traffic_shaping::Controller::perform_checking")
    if not ctx.floor("C01.threading", "flow Controller::perform_checking", 1 if pc else 0, 1):
        return
    sl = Slicer(f, pc)
    dc = [(bb, t) for bb, t in pc.calls() if callee_is(t, "flow::traffic_shaping::Checker::do_check")]
    ok = False
    found = {}
    if len(dc) == 1:
        t = dc[0][1]
        a_batch = sl.of_operand(t["args"][2])
        a_thr = sl.of_operand(t["args"][3])
        found = {"batch_from": sorted(short(a) for a in a_batch if a.startswith("param:")), "threshold_from": sorted(short(a) for a in a_thr if a.startswith("call:core"))}
        ok = "param:batch_count" in a_batch and any_atom(a_thr, "call:Calculator::calculate_allowed_threshold") and not any_atom(a_batch, "call:Calculator::calculate_allowed_threshold")
    ctx.instance("C01.threading/perform_checking", pc.path, found, "do_check(_, batch_count, calculate_allowed_threshold(..))", ok, cfg)
    if not ok:
        ctx.violation("C01.threading", "C01.threading|perform_checking", "the checker is not given the entry's batch count and the calculator's threshold", pc.loc(), config=cfg)
    # direct calculator returns rule.threshold
    dcs = []
    for b in f.impl_methods("flow::traffic_shaping::Calculator", "calculate_allowed_threshold"):
        if not list(b.calls()):
            dcs.append(b)
    if ctx.floor("C01.threading", "call-free Calculator::calculate_allowed_threshold (the direct calculator)", len(dcs), 1):
        b = dcs[0]
        at = Slicer(f, b).of_local(0)
        flds = sorted(a for a in at if a.startswith("field:"))
        okf = len(flds) == 1
        # its constructor fills that field from rule.threshold
        src_ok = False
        ty = (b.impl_self or "")
        for p, nb in f.bodies.items():
            if nb.impl_self == ty and nb.name == "new":
                for blk in nb.blocks:
                    for s in blk["stmts"]:
                        if s["k"] == "assign" and s["rv"]["k"] == "agg" and s["rv"].get("adt", "") == ty:
                            fi = s["rv"]["fields"]
                            want = flds[0].rsplit(".", 1)[-1] if flds else None
                            if want in fi:
                                a2 = Slicer(f, nb).of_operand(s["rv"]["ops"][fi.index(want)])
                                src_ok = any_atom(a2, "field:Rule.threshold")
        ctx.instance("C01.threading/direct-calculator", b.path, {"returns": flds, "constructor_sets_it_from_rule.threshold": src_ok}, "returns the rule's threshold", okf and src_ok, cfg)
        if not (okf and src_ok):
            ctx.violation("C01.threading", "C01.threading|direct-calculator", "the direct calculator does not return the rule's threshold unchanged", b.loc(), config=cfg)
    # the slot passes input.batch_count()
    slot = [b for b in f.impl_methods("RuleCheckSlot", "check") if "::flow::" in b.path]
    if slot:
        b = slot[0]
        sl = Slicer(f, b)
        for bb, t in b.calls():
            tg = [x for x in f.call_targets(b, t) if x in f.bodies and "::flow::" in x and f.bodies[x].kind == "Fn"]
            if tg and f.bodies[tg[0]].ret_ty.endswith("TokenResult"):
                helper = f.bodies[tg[0]]
                bi = [i for i in range(1, helper.argc + 1) if helper.param_name(i) == "batch_count"]
                if bi:
                    a = sl.of_operand(t["args"][bi[0] - 1])
                    okb = any_atom(a, "call:SentinelInput::batch_count")
                    ctx.instance("C01.threading/slot-batch", b.path, sorted(short(x) for x in a if x.startswith("call:core")), "input.batch_count()", okb, cfg)
                    if not okb:
                        ctx.violation("C01.threading", "C01.threading|slot-batch", "the flow slot does not pass the entry's batch count to the check", b.loc(bb), config=cfg)
                    # helper passes its batch param on
                    hs = Slicer(f, helper)
                    for hb, ht in helper.calls():
                        if callee_is(ht, "Controller::perform_checking"):
                            a2 = hs.of_operand(ht["args"][2])
                            okh = "param:batch_count" in a2
                            ctx.instance("C01.threading/helper-batch", helper.path, sorted(x for x in a2 if x.startswith("param:")), "param:batch_count", okh, cfg)
                            if not okh:
                                ctx.violation("C01.threading", "C01.threading|helper-batch", "perform_checking is not given the entry's batch count", helper.loc(hb), config=cfg)


def every_rule(ctx, f, cfg):
    slot = [b for b in f.impl_methods("RuleCheckSlot", "check") if "::flow::" in b.path]
    if not ctx.floor("C01.every-rule", "impl RuleCheckSlot::check in core::flow", len(slot), 1):
        return
    b = slot[0]
    enum = f.adts.get("core::base::result::TokenResult")
    names = [v["name"] for v in enum["variants"]]
    lists = [bb for bb, t in b.calls() if callee_is(t, "flow::rule_manager::get_traffic_controller_list_for")]
    if not ctx.floor("C01.every-rule", "get_traffic_controller_list_for call in the flow slot", len(lists), 1):
        return
    sl = Slicer(f, b)
    cls = make_classifier([("iter", ["call:Iterator::next"], [])])
    # the per-rule verdict is what the controller's public perform_checking returned (private helpers between the slot and the
    # controller are inlined in the view, so their names and number do not matter)
    VERDICT = "call:Controller::perform_checking"

    def classify(atoms, op=None):
        if any_atom(atoms, VERDICT) and "discr" in atoms:
            return "verdict"
        if op is not None and discr_of_call(b, op, "Iterator::next"):
            return "iter"
        keep = sorted(short(a) for a in atoms if a.startswith(("field:core", "call:core")))
        return "other:" + ",".join(keep[:6])
    w = D.Walker(f, b, classify)
    w.summarise_predicates = True       # verdict.is_blocked() / is_wait() and a match on the verdict are the same atom
    sets = {bb for bb, t in b.calls() if callee_is(t, "EntryContext::set_result")}
    sleeps = {bb for bb, t in b.calls() if callee_is(t, "utils::sleep_for_ns", "sleep_for_ns")}
    start = b.term(lists[0])["target"]
    paths = w.walk(start, lambda bb, env: None)

    def outcome(p, asg):
        st = sum(1 for x in p["blocks"] if x in sets)
        sp = sum(1 for x in p["blocks"] if x in sleeps)
        end = "next-rule" if p["outcome"][0] == "loop" else "return"
        return "%s,store=%d,sleep=%d" % (end, st, sp)

    def expected(asg):
        it = asg["disc"].get("iter")
        if it == 0:
            return "return,store=0,sleep=0"
        if it != 1:
            return None
        v = asg["disc"].get("verdict")
        if v is None or v == "other" or v >= len(names):
            return None
        return {"Pass": "next-rule,store=0,sleep=0", "Blocked": "return,store=1,sleep=0", "Wait": "next-rule,store=0,sleep=1"}[names[v]]
    n, ncon, mism = run_table(ctx, "C01.every-rule", b.path, cfg, paths, outcome, expected)
    ctx.instance("C01.every-rule", b.path, {"rows": n, "constrained": ncon, "mismatches": mism[:3]},
                 "per controller: Pass -> next; Blocked -> store verdict and return; Wait -> sleep, next; exhausted -> return", not mism and ncon >= 4, cfg)
    if mism or ncon < 4:
        ctx.violation("C01.every-rule", "C01.every-rule|table", "the flow slot does not consult every rule until one blocks: %s" % (mism[:1] or "verdict match not found"),
                      b.loc(), ["case [%s]: found %s expected %s" % m for m in mism[:6]], config=cfg)
    # stored verdict is the checker's; returned value is the context's verdict
    for sb in sets:
        a = sl.of_operand(b.term(sb)["args"][1])
        oks = any_atom(a, VERDICT)
        ctx.instance("C01.every-rule/stored", b.path, "stored verdict derives from the per-rule check: %s" % oks, "true", oks, cfg)
        if not oks:
            ctx.violation("C01.every-rule", "C01.every-rule|stored", "the verdict stored by the flow slot is not the one its check produced", b.loc(sb), config=cfg)
    a0 = sl.of_local(0)
    okr = any_atom(a0, "call:EntryContext::result")
    ctx.instance("C01.every-rule/returned", b.path, "returns ctx.result(): %s" % okr, "true", okr, cfg)
    if not okr:
        ctx.violation("C01.every-rule", "C01.every-rule|returned", "the flow slot does not return the context's verdict", b.loc(), config=cfg)
    # the controllers consulted are those of the entry's resource
    a = sl.of_operand(b.term(lists[0])["args"][0])
    okk = any_atom(a, "call:ResourceWrapper::name") and any_atom(a, "call:EntryContext::resource")
    ctx.instance("C01.every-rule/key", b.path, "controller list keyed by ctx.resource().name(): %s" % okk, "true", okk, cfg)
    if not okk:
        ctx.violation("C01.every-rule", "C01.every-rule|key", "the flow slot does not look up the controllers of the entry's own resource", b.loc(lists[0]), config=cfg)


def record(ctx, f, cfg):
    cb = {}
    for name in ("on_entry_pass", "on_entry_blocked", "on_completed"):
        for b in f.impl_methods("StatSlot", name):
            cb[b.path] = name
    n = 0
    for p, b in f.bodies.items():
        sl = None
        for bb, t in b.calls():
            if prim_of(t) == "add":
                sl = sl or Slicer(f, b)
                if event_of(sl, t) != "Pass":
                    continue
                if b.impl_trait and b.impl_trait.endswith("WriteStat"):
                    continue
                roots = {p} if p in cb else roots_of(f, p, lambda x: x.path in cb)
                roles = {cb.get(r, "other:" + r) for r in roots}
                ok = roles == {"on_entry_pass"}
                n += 1
                ctx.instance("C01.record/who-may", p, sorted(roles), ["on_entry_pass"], ok, cfg)
                if not ok:
                    ctx.violation("C01.record", "C01.record|who-may|" + ",".join(sorted(r.rsplit("::", 1)[-1] for r in roles)),
                                  "Pass tokens are recorded from %s; only on_entry_pass (after all checks) may" % sorted(roles), b.loc(bb), config=cfg)
    ctx.floor("C01.record", "add_count(Pass) sites", n, 2)
    # standalone slot: writes iff !reuse_global, count = batch
    ss = [b for b in f.impl_methods("StatSlot", "on_entry_pass") if "::flow::" in b.path]
    if not ctx.floor("C01.record", "flow StandaloneStatSlot::on_entry_pass", len(ss), 1):
        return
    b = ss[0]
    sl = Slicer(f, b)
    adds = {bb for bb, t in b.calls() if prim_of(t) == "add"}
    cls = make_classifier([("iter", ["call:Iterator::next"], [])])

    def oname(t, atoms):
        if callee_is(t, "StandaloneStat::reuse_global"):
            return "reuse_global"
        return "call:" + callee_def(t).rsplit("::", 1)[-1]
    w = D.Walker(f, b, cls, opaque_name=oname)
    its = [bb for bb, t in b.calls() if callee_is(t, "Iterator::next")]
    if not its and _standalone_chain(ctx, f, b, cfg):
        return
    if not its:
        ctx.violation("C01.record", "C01.record|standalone|no-loop", "the standalone stat slot does not iterate the controllers", b.loc(), config=cfg)
        return
    paths = w.walk(b.term(its[0])["target"], lambda bb, env: ("iteration-done",) if bb == its[0] else None)

    def outcome(p, asg):
        return "adds=%d" % sum(1 for x in p["blocks"] if x in adds)

    def expected(asg):
        if asg["disc"].get("iter") != 1:
            return None
        rg = asg["opaque"].get("reuse_global")
        if rg is None:
            return None
        return "adds=0" if rg else "adds=1"
    n2, ncon, mism = run_table(ctx, "C01.record/standalone", b.path, cfg, paths, outcome, expected)
    okc = True
    for ab in adds:
        t = b.term(ab)
        recv = sl.of_operand(t["args"][0])
        cnt = sl.of_operand(t["args"][2])
        okc = okc and any_atom(recv, "call:StandaloneStat::write_only_metric") and any_atom(cnt, "call:SentinelInput::batch_count")
    ok = not mism and ncon >= 2 and okc
    ctx.instance("C01.record/standalone", b.path, {"rows": n2, "constrained": ncon, "mismatches": mism[:3], "writes_write_only_metric_with_batch": okc},
                 "per controller: add_count(Pass, batch) on write_only_metric iff !reuse_global()", ok, cfg)
    if not ok:
        ctx.violation("C01.record", "C01.record|standalone", "private windows are not fed exactly when the rule does not reuse the global window: %s" % (mism[:1] or "guard/receiver/count origin"), b.loc(), config=cfg)


def _arr(at):
    return any_atom(at, "call:BucketLeapArray::new") or any_atom(at, "call:LeapArray::<T>::new")


def _same_array(f, b, sl, t):
    """The array given to SlidingWindowMetric::new and the one wrapped in Some(writer) are one user local
    (compared by local index, not by name) that is defined by the array constructor."""
    w_loc = {a for a in sl.of_operand(t["args"][2]) if a.startswith("lid:")}
    for bb, t2 in b.calls():
        if callee_is(t2, "SlidingWindowMetric::new") and bb in b.dominators().get(_bb_of(b, t), ()):
            a3 = {a for a in sl.of_operand(t2["args"][2]) if a.startswith("lid:")}
            for c in a3 & w_loc:
                at = sl.of_local(int(c[4:]))
                if _arr(at) and not any_atom(at, "call:SlidingWindowMetric::new") and "Arc<" in b.local_ty(int(c[4:])):
                    return True
    return False


def _bb_of(b, t):
    for i, blk in enumerate(b.blocks):
        if blk["term"] is t:
            return i
    return -1


def wiring(ctx, f, cfg):
    gens = [f.view(b) for p, b in f.bodies.items() if "::flow::rule_manager" in p and b.kind == "Fn" and "StandaloneStat>" in b.ret_ty
            and b.ret_ty.startswith("std::result::Result<")]
    gens = [b for b in gens if any(callee_is(t, "StandaloneStat::new") for _, t in b.calls())]
    if not ctx.floor("C01.wiring", "flow rule_manager fn returning Result<Arc<StandaloneStat>> (generate_stat_for)", len(gens), 1):
        return
    b = gens[0]
    sl = Slicer(f, b)
    sites = [(bb, t) for bb, t in b.calls() if callee_is(t, "StandaloneStat::new")]
    ctx.floor("C01.wiring", "StandaloneStat::new sites in generate_stat_for", len(sites), 2)
    for bb, t in sites:
        reuse = resolve_const(b, t["args"][0])
        r = sl.of_operand(t["args"][1])
        wv = sl.of_operand(t["args"][2])
        if reuse == 1:
            ok = (any_atom(r, "call:ResourceNode::default_metric") or any_atom(r, "call:StatNode::generate_read_stat")) and any_atom(r, "call:get_or_create_resource_node") \
                and any_atom(wv, "variant:Option::None") and not any_atom(wv, "variant:Option::Some")
            form = {"reuse_global": True, "reader_from_node": ok}
            exp = "reader derives from the resource node (default_metric / generate_read_stat), writer None"
        elif reuse == 0:
            rl = {a for a in r if a.startswith("local:")}
            wl = {a for a in wv if a.startswith("local:")}
            shared = sorted((rl & wl))
            ok = any_atom(r, "call:SlidingWindowMetric::new") and any_atom(wv, "variant:Option::Some") and bool(shared) and _arr(wv) and _arr(r) and _same_array(f, b, sl, t)
            form = {"reuse_global": False, "reader_and_writer_share": shared}
            exp = "reader = SlidingWindowMetric over the same BucketLeapArray that is handed out as writer"
        else:
            ok = False
            form = {"reuse_global": "not a constant"}
            exp = "constant flag"
        ctx.instance("C01.wiring/standalone-stat", "%s#reuse=%s" % (b.path, reuse), form, exp, ok, cfg)
        if not ok:
            ctx.violation("C01.wiring", "C01.wiring|reuse=%s" % reuse, "generate_stat_for wires reader/writer wrongly for reuse_global=%s: %s (expected: %s)" % (reuse, form, exp), b.loc(bb), config=cfg)
    # no-op pair only on !need_statistic
    nop_blocks = []
    for bi, blk in enumerate(b.blocks):
        if blk["cleanup"]:
            continue
        t = blk["term"]
        if t and t["k"] == "call":
            at = set()
            for a in t["args"]:
                at |= sl.of_operand(a)
            if any(a.startswith("static:") and "NOP" in a.upper() for a in at) or callee_def(t).upper().find("NOP_STAT") >= 0:
                nop_blocks.append(bi)
    guard_ok = bool(nop_blocks)
    for nb in nop_blocks:
        d_ok = False
        for d in b.dominators()[nb]:
            t = b.term(d)
            if t and t["k"] == "switch":
                a = sl.of_operand(t["op"])
                if any_atom(a, "call:Rule::need_statistic"):
                    te = bool_edge_targets(b, d)
                    # `!need` compiles to Not(...) then switch; find polarity through the walker-free route: the Not atom
                    neg = "op:Not" in a
                    if te:
                        edge_true, edge_false = te
                        want = edge_true if neg else edge_false   # the edge on which need_statistic() is false
                        if b.dominates(want, nb):
                            d_ok = True
        guard_ok = guard_ok and d_ok
    ctx.instance("C01.wiring/nop", b.path, "no-op statistics used only where need_statistic() is false: %s (sites=%d)" % (guard_ok, len(nop_blocks)), "true", guard_ok, cfg)
    if not guard_ok:
        ctx.violation("C01.wiring", "C01.wiring|nop-guard", "the shared no-op statistics can be handed to a rule that needs statistics", b.loc(), config=cfg)
    ns = f.one("flow::rule::Rule::need_statistic")
    if ns is not None:
        cls = make_classifier([("control", ["field:Rule.control_strategy"], []), ("Reject", ["variant:ControlStrategy::Reject"], []),
                               ("calc", ["field:Rule.calculate_strategy"], []), ("WarmUp", ["variant:CalculateStrategy::WarmUp"], [])])
        w = D.Walker(f, ns, cls)
        paths = w.walk(0, lambda bb, env: None)

        def outcome(p, asg):
            v = p["env"].get("_0")
            return "unknown" if v is None else ("need" if D.ev(v, asg) else "no-need")

        def expected(asg):
            r = D.rel_of(asg, "control", "Reject") or D.rel_of(asg, "Reject", "control")
            if r == "=":
                return "need"
            return None
        n, ncon, mism = run_table(ctx, "C01.wiring/need_statistic", ns.path, cfg, paths, outcome, expected)
        ctx.instance("C01.wiring/need_statistic", ns.path, {"rows": n, "constrained": ncon, "mismatches": mism[:3]}, "control_strategy == Reject => need_statistic()", not mism and ncon > 0, cfg)
        if mism or not ncon:
            ctx.violation("C01.wiring", "C01.wiring|need_statistic", "a Reject rule may be judged not to need statistics (it would read the no-op metric and admit everything)", ns.loc(), config=cfg)


def _standalone_chain(ctx, f, b, cfg):
    """Iterator-chain form of the standalone slot: controllers.iter().map(stat).filter(|s| !s.reuse_global()).for_each(|s| add_count(Pass, batch)).
    Judged like the loop: the recording closure is fed through a filter whose predicate is exactly `!reuse_global()`, and it records the
    batch count on the private writer.  Returns True if this form was recognised (and judged)."""
    rb = f.raw(b)
    rsl = Slicer(f, rb)
    fe = [(bb, t) for bb, t in rb.calls() if callee_def(t).rsplit("::", 1)[-1] == "for_each" and t.get("arg_defs")]
    if not fe:
        return False
    bb, t = fe[0]
    recv = rsl.of_operand(t["args"][0])
    rec = [f.bodies[d] for d in (t["arg_defs"][-1] if t["arg_defs"] else []) if d in f.bodies]
    if not rec or not any_atom(recv, "call:get_traffic_controller_list_for"):
        return False
    # predicate of the filter on the way
    preds = []
    for b2, t2 in rb.calls():
        if callee_def(t2).rsplit("::", 1)[-1] == "filter" and b2 in rb.dominators().get(bb, ()) :
            preds += [f.bodies[d] for d in ((t2.get("arg_defs") or [[]])[-1]) if d in f.bodies]
    okp = False
    detail = {"filters": len(preds)}
    for pc in preds:
        pv = f.view(pc)
        w = D.Walker(f, pv, make_classifier([]), opaque_name=lambda tt, a: "reuse_global" if callee_is(tt, "StandaloneStat::reuse_global") else "call:" + callee_def(tt).rsplit("::", 1)[-1])
        paths = [p_ for p_ in w.walk(0, lambda x, env: None) if p_["outcome"][0] == "return"]
        rows, atoms = D.table(paths, lambda p_, asg: "?" if p_["env"].get("_0") is None else ("kept" if D.ev(p_["env"]["_0"], asg) else "dropped"))
        good = [(asg["opaque"].get("reuse_global"), outs) for asg, outs in rows if outs and "reuse_global" in asg["opaque"]]
        okp = bool(good) and all(outs == {("dropped" if rg else "kept")} for rg, outs in good)
        detail["predicate"] = "keeps exactly the statistics with !reuse_global()" if okp else "not `!reuse_global()`"
    rv = f.view(rec[0])
    s2 = Slicer(f, rv)
    adds = [(x, tt) for x, tt in rv.calls() if prim_of(tt) == "add"]
    okc = bool(adds)
    # captured values keep their origin in the parent
    up = {}
    for blk in rb.blocks:
        for st in blk["stmts"]:
            if st["k"] == "assign" and st["rv"]["k"] == "agg" and st["rv"].get("closure") == rec[0].path:
                for nm, o in zip(st["rv"].get("fields", []), st["rv"]["ops"]):
                    up[nm] = rsl.of_operand(o)
    for x, tt in adds:
        r_ = s2.of_operand(tt["args"][0])
        c_ = s2.of_operand(tt["args"][2])
        for a_ in list(c_):
            if a_.startswith("field:upvar."):
                nm_ = a_[len("field:upvar."):]
                c_ = c_ | up.get(nm_, set()) | up.get(nm_.replace("_ref__", "", 1), set())
        okc = okc and any_atom(r_, "call:StandaloneStat::write_only_metric") and any_atom(c_, "call:SentinelInput::batch_count") and event_of(s2, tt) == "Pass"
    detail["records_batch_on_private_writer"] = okc
    ok = okp and okc
    ctx.instance("C01.record/standalone", b.path, detail, "for every controller whose statistics are private (!reuse_global()): add_count(Pass, batch) on write_only_metric", ok, cfg)
    if not ok:
        ctx.violation("C01.record", "C01.record|standalone", "private windows are not fed exactly when the rule does not reuse the global window: %s" % detail, b.loc(), config=cfg)
    return True
