"""Must-facts about order relations between values, established by dominating branch edges (local discharge of index sites).

Forward must-dataflow over the non-unwind CFG.  A fact is a triple (key_a, op, key_b) with op in {<, <=, >, >=, ==, !=}
that holds on every path to a block.  Keys are canonical names of values (nonzero.key_of): places after following copies and integer
casts, `c:<n>` for integer constants, `len(<key>)` for the result of a `len()` call on the keyed receiver.
Facts are killed when a local they mention is reassigned.
"""
from .core import *
from .nonzero import key_of

NEG = {"<": ">=", "<=": ">", ">": "<=", ">=": "<", "==": "!=", "!=": "=="}
FLIP = {"<": ">", "<=": ">=", ">": "<", ">=": "<=", "==": "==", "!=": "!="}
OPS = {"Lt": "<", "Le": "<=", "Gt": ">", "Ge": ">=", "Eq": "==", "Ne": "!="}


def vkey(b, op, depth=0):
    if op is None:
        return None
    if op.get("k") == "const":
        if "val" in op:
            return "c:%d" % op["val"]
        return None
    pl = op["pl"]
    if not pl["p"]:
        d = def_of_local(b, pl["l"])
        if d and d[0] == "call" and depth < 6:
            t = d[3]
            nm = callee_def(t).rsplit("::", 1)[-1]
            if nm == "len" and t["args"]:
                k = vkey(b, t["args"][0], depth + 1)
                return "len(%s)" % k if k else None
            if nm in ("deref", "deref_mut", "as_ref", "borrow", "clone", "unwrap", "as_slice", "as_mut") and t["args"]:
                return vkey(b, t["args"][0], depth + 1)
        if d and d[0] == "assign" and d[3]["rv"]["k"] == "cast" and d[3]["rv"]["kind"].startswith("IntToInt") and depth < 6:
            return vkey(b, d[3]["rv"]["op"], depth + 1)
        if d and d[0] == "assign" and d[3]["rv"]["k"] in ("use",) and d[3]["rv"]["op"].get("k") in ("copy", "move") and depth < 6:
            return vkey(b, d[3]["rv"]["op"], depth + 1)
        if d and d[0] == "assign" and d[3]["rv"]["k"] == "ref" and depth < 6:
            return vkey(b, {"k": "copy", "pl": d[3]["rv"]["pl"]}, depth + 1)
    return key_of(b, op)


def root_local_of_key(k):
    if k and k.startswith("_"):
        i = 1
        while i < len(k) and k[i].isdigit():
            i += 1
        return int(k[1:i]) if i > 1 else None
    return None


class RelFacts:
    def __init__(self, facts):
        self.f = facts
        self._in = {}

    def edge_facts(self, b, bb):
        t = b.term(bb)
        out = {}
        if not t or t["k"] != "switch" or t.get("ty") != "bool":
            return out
        te = bool_edge_targets(b, bb)
        pl = op_place(t["op"])
        if not te or pl is None:
            return out
        d = def_of_local(b, pl["l"])
        neg = False
        while d and d[0] == "assign" and d[3]["rv"]["k"] == "un" and d[3]["rv"]["op"] == "Not":
            neg = not neg
            p2 = op_place(d[3]["rv"]["a"])
            d = def_of_local(b, p2["l"]) if p2 else None
        fact = None
        if d and d[0] == "assign" and d[3]["rv"]["k"] == "bin" and d[3]["rv"]["op"] in OPS:
            ka, kb = vkey(b, d[3]["rv"]["a"]), vkey(b, d[3]["rv"]["b"])
            if ka and kb:
                fact = (ka, OPS[d[3]["rv"]["op"]], kb)
        elif d and d[0] == "call":
            nm = callee_def(d[3]).rsplit("::", 1)[-1]
            if nm == "is_empty" and d[3]["args"]:
                k = vkey(b, d[3]["args"][0])
                if k:
                    fact = ("len(%s)" % k, "==", "c:0")
        if fact is None:
            return out
        pos = fact
        negf = (fact[0], NEG[fact[1]], fact[2])
        if neg:
            pos, negf = negf, pos
        out[te[0]] = {pos}
        out[te[1]] = {negf}
        return out

    def facts_in(self, b):
        if (b.path, hasattr(b, "base")) in self._in:
            return self._in[(b.path, hasattr(b, "base"))]
        IN = {0: frozenset()}
        work = [0]
        while work:
            bb = work.pop()
            cur = IN[bb]
            ef = self.edge_facts(b, bb)
            killed = set()
            for s in b.blocks[bb]["stmts"]:
                if s["k"] == "assign" and not s["lhs"]["p"] and b.vname(s["lhs"]["l"]):
                    killed.add(s["lhs"]["l"])
            t = b.term(bb)
            if t and t["k"] == "call":
                if not t["dest"]["p"] and b.vname(t["dest"]["l"]):
                    killed.add(t["dest"]["l"])
                # &mut borrows of a user local passed to a call may change it (push, remove, ...)
                for a, aty in zip(t["args"], t.get("arg_tys") or []):
                    if aty.startswith("&mut "):
                        k = vkey(b, a)
                        r = root_local_of_key(k.replace("len(", "")) if k else None
                        if r is not None:
                            killed.add(r)
            def mentions(fact):
                for k in (fact[0], fact[2]):
                    r = root_local_of_key(k.replace("len(", ""))
                    if r in killed:
                        return True
                return False
            base = frozenset(x for x in cur if not mentions(x))
            for s2 in b.succs(bb):
                new = base | frozenset(ef.get(s2, ()))
                old = IN.get(s2)
                merged = new if old is None else (old & new)
                if merged != old:
                    IN[s2] = merged
                    work.append(s2)
        self._in[(b.path, hasattr(b, "base"))] = IN
        return IN

    def holds(self, b, bb, a, op, c):
        """Is (a op c) implied by the facts at bb?  Only direct matches and their obvious equivalents."""
        fs = self.facts_in(b).get(bb, frozenset())
        cands = {(a, op, c), (c, FLIP[op], a)}
        if op == "<":
            pass
        if op == ">=" and c == "c:0":
            cands |= {(a, ">", "c:0"), ("c:0", "<", a), (a, "==", "c:0"), ("c:0", "<=", a)}
        return bool(cands & fs)

    def index_ok(self, b, bb, seq_op, idx_op):
        """Index site v[i]: need i < len(v) and, when i comes from a signed value, i >= 0.  Returns reason or None."""
        ki = vkey(b, idx_op)
        kv = vkey(b, seq_op)
        if ki is None or kv is None:
            return None
        if ki.startswith("c:"):
            n = int(ki[2:])
            fs = self.facts_in(b).get(bb, frozenset())
            # constant index: need len > n  (e.g. !is_empty for 0, len >= k)
            for (x, op, y) in fs:
                if x == "len(%s)" % kv and y.startswith("c:"):
                    m = int(y[2:])
                    if (op == ">" and m >= n) or (op == ">=" and m > n) or (op == "!=" and m == 0 and n == 0):
                        return "constant index %d with len %s %d" % (n, op, m)
                if y == "len(%s)" % kv and x.startswith("c:"):
                    m = int(x[2:])
                    if (op == "<" and m >= n) or (op == "<=" and m > n):
                        return "constant index %d with %d %s len" % (n, m, op)
            return None
        upper = self.holds(b, bb, ki, "<", "len(%s)" % kv)
        if not upper:
            return None
        r = root_local_of_key(ki)
        signed = r is not None and b.local_ty(r) in ("isize", "i64", "i32", "i16", "i8", "i128")
        if signed and not self.holds(b, bb, ki, ">=", "c:0"):
            return None
        return "index %s tested < len(%s)%s on every path" % (ki, kv, " and >= 0" if signed else "")
