"""C06 — hotspot QPS limiting is a per-parameter token bucket with no cross-talk (partial, structural).

Decided (DESIGN §3 C06):
  C06.keying        every access to the per-value time / token cells in the QPS checkers is keyed by the checked argument; the per-value
                    override is looked up by that same argument and replaces the threshold
  C06.decision      reject checker, per attempt: capacity 0 -> pass; threshold 0 -> blocked; batch > q + b -> blocked; first sight -> pass;
                    window elapsed (elapsed > d*1000 ms) -> refill path: blocked iff the refilled balance is negative, else CAS -> pass / retry;
                    inside the window: rest >= batch -> CAS -> pass / retry, rest < batch -> blocked
  C06.ceiling       the ceiling has the (possibly overridden) threshold and burst_count in its origin set; the rejection test on it dominates
                    both `ceiling - batch` subtractions (no wrap to a huge balance); the refill is capped: the cap branch is taken iff
                    add + rest > ceiling and stores ceiling - batch
  C06.units         elapsed (ms) is compared with duration_in_sec * 1000 (A8, via C07.units' engine)
  C06.report        BlockType::HotSpotParamFlow with the rule attached
"""
from .core import *
from . import decision as D
from .decrules import *
from .units import Units


def run(ctx):
    ctx.explanation = (
        "Key-origin rule over every access to ParamsMetric.rule_time_counter / rule_token_counter in the hotspot QPS checkers; decision "
        "table of the reject checker's attempt loop (A6) with role-identified comparisons (ceiling = threshold|override + burst, elapsed vs "
        "window, rest vs batch, refilled balance vs 0); dominance of the two `ceiling - batch` subtractions by the ceiling test; shape of "
        "the refill cap; unit check of the window comparison; constants of the rejection.")
    ctx.not_decided = ("the bound q + b + q*(t - first)/d itself and 'rejected only when insufficient' over arrival histories - arithmetic over "
                       "runtime values; LRU eviction beyond capacity; CAS races.")
    ctx.assumptions = ["NaN-free integer arithmetic; overflow asserts listed under C12"]
    cfg = "core-default"
    f = ctx.facts(cfg)
    checkers = [b for b in f.impl_methods("hotspot::traffic_shaping::Checker", "do_check")]
    ctx.floor("C06.anchor", "hotspot QPS checkers (impl Checker::do_check)", len(checkers), 2)
    for b in checkers:
        keying(ctx, f, b, cfg)
    # no cross-talk within the rule's capacity: cells built for another capacity / another checker are never handed to the rule
    from . import rules_C11
    rules_C11.reuse_shape(ctx, f, "hotspot", cfg, R="C06.capacity/reuse-shape")
    rules_C11.reuse_predicate(ctx, f, "hotspot", cfg, R="C06.capacity/reuse-predicate")
    # which value a request is bucketed under: the keyed parameter has priority over the positional one and is looked up by the rule's
    # (trimmed) key; a wrong extraction buckets traffic of different values together (rules of C05, run here for this property)
    from . import rules_C05
    rules_C05.extraction(ctx, f, cfg)
    rej = [b for b in checkers if not any(callee_is(t, "TokenResult::new_should_wait") for _, t in b.calls())]
    if ctx.floor("C06.decision", "hotspot reject checker", len(rej), 1):
        decision(ctx, f, rej[0], cfg)
        ceiling(ctx, f, rej[0], cfg)
        u = Units(f, rej[0]).run()
        win = [c for c in u.checked if c["what"].startswith("compare")]
        ok = not u.conflicts and bool(win)
        ctx.instance("C06.units", rej[0].path, {"unit_checked_sites": len(u.checked), "conflicts": u.conflicts}, "elapsed(ms) vs duration_in_sec*1000(ms)", ok, cfg)
        for c in u.conflicts:
            ctx.violation("C06.units", "C06.units|%s|%s-vs-%s" % (c["what"], c["a"], c["b"]), "unit mismatch in the token bucket: %s (%s vs %s)" % (c["what"], c["a"], c["b"]), c["loc"], config=cfg)
        check_block_constants(ctx, f, rej[0], "C06.report", cfg, "HotSpotParamFlow", ["field:Controller.rule"], ["field:Rule.threshold", "param:batch_count"], "hotspot")


def keying(ctx, f, b, cfg):
    sl = Slicer(f, b)
    n = 0
    bad = []
    for bb, t in b.calls():
        nm = callee_def(t).rsplit("::", 1)[-1]
        if nm not in ("add_if_absent", "get", "add", "remove", "contains") or not t["args"]:
            continue
        recv = sl.of_operand(t["args"][0])
        cell = [x for x in ("rule_time_counter", "rule_token_counter") if any_atom(recv, "field:ParamsMetric." + x)]
        if not cell:
            continue
        n += 1
        ka = sl.of_operand(t["args"][1])
        if "param:arg" not in ka or any(x.startswith("const:") for x in ka if x not in ("const:0",)) and False:
            bad.append("%s.%s keyed by %s" % (cell[0], nm, sorted(x for x in ka if x.startswith(("param:", "const:", "field:")))[:3]))
    ovr = []
    for bb, t in b.calls():
        if callee_def(t).rsplit("::", 1)[-1] == "get" and any_atom(sl.of_operand(t["args"][0]), "field:Rule.specific_items"):
            ovr.append("param:arg" in sl.of_operand(t["args"][1]))
    ok = not bad and n >= 1 and ovr == [True]
    ctx.instance("C06.keying", b.path, {"cell_accesses": n, "not_keyed_by_arg": bad, "override_lookups_keyed_by_arg": ovr}, "all keyed by the checked argument", ok, cfg)
    if bad or n < 1:
        ctx.violation("C06.keying", "C06.keying|%s|cells" % _short(b), "a per-value cell is addressed with something other than the checked argument: %s" % (bad or "no access found"), b.loc(), config=cfg)
    if ovr != [True]:
        ctx.violation("C06.keying", "C06.keying|%s|override" % _short(b), "the per-value override is not looked up by the checked argument", b.loc(), config=cfg)
    # the override replaces q: wherever the rule's threshold enters a computation, a comparison or a call, it does so through the value
    # that the override lookup can overwrite (its origin set then contains the override table as well)
    uses, bypass = 0, []
    for bi, blk in enumerate(b.blocks):
        if blk["cleanup"]:
            continue
        ops = []
        for st in blk["stmts"]:
            if st["k"] == "assign" and st["rv"]["k"] in ("bin", "un", "cast") and not st.get("exp"):
                ops += [(st["rv"].get(x), "%s" % (st["rv"].get("op") if isinstance(st["rv"].get("op"), str) else st["rv"]["k"])) for x in ("a", "b", "op") if isinstance(st["rv"].get(x), dict)]
        t = blk["term"]
        merged = None
        if t and t["k"] == "call" and not t.get("exp"):
            ops += [(a, "argument of " + callee_def(t).rsplit("::", 2)[-1]) for a in t["args"]]
            # a call that receives the override lookup next to the threshold is the selection itself (get(..).unwrap_or(threshold))
            merged = set()
            for a in t["args"]:
                merged |= sl.of_operand(a)
        for op, what in ops:
            at = sl.of_operand(op)
            if what.startswith("argument of") and merged is not None and any_atom(merged, "field:Rule.specific_items"):
                at = merged
            if any_atom(at, "field:Rule.threshold"):
                uses += 1
                if not any_atom(at, "field:Rule.specific_items"):
                    bypass.append("%s at line %s" % (what, b.line_of(bi) if hasattr(b, "line_of") else b.loc(bi)))
    ctx.instance("C06.keying/override-replaces", b.path, {"uses_of_threshold": uses, "bypassing_override": bypass}, "every use of the threshold goes through the overridable value", not bypass and uses >= 1, cfg)
    if bypass or uses < 1:
        ctx.violation("C06.keying", "C06.keying|%s|override-bypass" % _short(b), "the rule-wide threshold is used without the per-value override: %s" % (bypass[:3] or "no use of the threshold found"), b.loc(), config=cfg)


def _short(b):
    return "throttling" if "throttling" in b.path else "reject"


ROLES = [
    ("cap", ["call:CounterTrait::cap"], []),
    ("elapsed", ["field:ParamsMetric.rule_time_counter", "call:curr_time_millis", "op:Sub"], ["field:ParamsMetric.rule_token_counter"]),
    ("window", ["field:Rule.duration_in_sec", "op:Mul"], ["field:ParamsMetric.rule_time_counter", "field:ParamsMetric.rule_token_counter"]),
    ("ceiling", ["field:Rule.burst_count"], ["field:ParamsMetric.rule_token_counter"]),
    ("tokens", ["field:Rule.threshold"], ["field:ParamsMetric.rule_token_counter", "field:Rule.burst_count"]),
    ("batch", ["param:batch_count"], ["field:ParamsMetric.rule_token_counter", "field:Rule.burst_count"]),
]


def make_roles(b):
    base = make_classifier(ROLES)

    def classify(atoms, op=None):
        if any_atom(atoms, "field:ParamsMetric.rule_token_counter") and not any_atom(atoms, "call:CounterTrait::cap") and "discr" not in atoms:
            pl = op_place(op) if op else None
            ty = b.local_ty(pl["l"]) if pl else ""
            if ty == "i64":
                return "newq"          # the refilled balance, compared with 0 as a signed value
            if "op:Add" in atoms and any_atom(atoms, "field:Rule.duration_in_sec"):
                return "sum"           # tokens to add + remaining tokens
            return "rest"              # remaining tokens of this value
        return base(atoms, op)
    return classify


def decision(ctx, f, b, cfg):
    cls = make_roles(b)
    blocked = {bb for bb, t, vs, c in blocked_sites(f, b)}
    passed = {bb for bb, t in b.calls() if callee_is(t, "TokenResult::new_pass")}
    sl = Slicer(f, b)

    def oname(t, atoms):
        n = callee_def(t).rsplit("::", 1)[-1]
        if n == "is_none":
            if any_atom(atoms, "field:ParamsMetric.rule_token_counter"):
                return "token_cell_absent"
            return "first_sight"
        if n == "is_ok":
            return "cas.is_ok"
        return n

    def classify(atoms, op=None):
        r = cls(atoms, op)
        if r.startswith("other:") and "discr" in atoms and any_atom(atoms, "field:ParamsMetric.rule_token_counter"):
            return "token_cell"
        if "discr" in atoms and any_atom(atoms, "field:ParamsMetric.rule_token_counter") and r == "rest":
            return "token_cell"
        if "discr" in atoms and any_atom(atoms, "field:Rule.specific_items"):
            return "override"
        if "discr" in atoms and any_atom(atoms, "field:ParamsMetric.rule_time_counter") and not any_atom(atoms, "field:ParamsMetric.rule_token_counter") \
                and any_atom(atoms, "call:add_if_absent") and not any_atom(atoms, "call:Atomic::<u64>::load"):
            return "time_cell"
        return r
    w = D.Walker(f, b, classify, opaque_name=oname)
    w.option_calls_as_disc = True       # x.is_none() / match x { None => .. }: the same atom

    def stop(bb, env):
        if bb in blocked:
            return ("blocked",)
        if bb in passed:
            return ("pass",)
        return None
    paths = w.walk(0, stop)

    # a rejection leaves the bucket as it was: within one attempt no path that ends in Blocked writes a per-value cell (a rejected
    # batch that "keeps the refilled tokens" without advancing the refill time mints tokens on every retry)
    writes = set()
    for bb, t in b.calls():
        if atomic_op(t) in ("store", "compare_exchange", "compare_exchange_weak", "swap", "fetch_add", "fetch_sub", "fetch_update"):
            at = sl.of_operand(t["args"][0])
            if any_atom(at, "field:ParamsMetric.rule_token_counter") or any_atom(at, "field:ParamsMetric.rule_time_counter"):
                writes.add(bb)
    impure = sorted({b.loc(x) for pth in paths if pth["outcome"][0] == "blocked" for x in pth["blocks"] if x in writes})
    ctx.instance("C06.decision/rejection-is-pure", b.path, {"cell_writes": len(writes), "on_paths_ending_in_blocked": impure}, "no cell is written on a path that rejects", not impure and len(writes) >= 3, cfg)
    if impure:
        ctx.violation("C06.decision", "C06.decision|rejection-writes-cell", "a rejected request writes a per-value cell (%s): rejected retries change the balance (tokens are minted without time passing)" % impure, b.loc(), config=cfg)

    def outcome(p, asg):
        k = p["outcome"][0]
        return "retry" if k == "loop" else k

    def expected(asg):
        rc = D.rel_of(asg, "cap", "const:0")
        if rc == "=":
            return "pass"
        rt = D.rel_of(asg, "tokens", "const:0")
        if rt is None:
            return None
        if rt == "=":
            return "blocked"
        rb = D.rel_of(asg, "batch", "ceiling")
        if rb is None:
            return None
        if rb == ">":
            return "blocked"
        if asg["opaque"].get("first_sight") or asg["disc"].get("time_cell") == 0:
            return "pass"
        re_ = D.rel_of(asg, "elapsed", "window")
        if re_ is None:
            return None
        cas = asg["opaque"].get("cas.is_ok")
        if re_ == ">":
            if asg["opaque"].get("token_cell_absent") or asg["disc"].get("token_cell") == 0:
                return "pass"
            rn = D.rel_of(asg, "newq", "const:0")
            if rn is None:
                return None
            if rn == "<":
                return "blocked"
            return "pass" if cas else "retry"
        cell = asg["disc"].get("token_cell")
        if cell is None:
            return None
        if cell != 1:
            return "retry"
        rr = D.rel_of(asg, "rest", "batch")
        if rr is None:
            return None
        if rr == "<":
            return "blocked"
        return "pass" if cas else "retry"
    n, ncon, mism = run_table(ctx, "C06.decision", b.path, cfg, paths, outcome, expected)
    ctx.instance("C06.decision", b.path, {"rows": n, "constrained": ncon, "mismatches": mism[:3], "paths": len(paths)},
                 "token-bucket decision structure (see module doc)", not mism and ncon >= 50, cfg)
    if mism or ncon < 50:
        ctx.violation("C06.decision", "C06.decision|reject", "hotspot QPS reject decision deviates from the token bucket: %s" % (mism[:1] or "tests not recognised (constrained rows: %d)" % ncon),
                      b.loc(), ["case [%s]: found %s expected %s" % m for m in mism[:6] if len(m) == 3], config=cfg)


def ceiling(ctx, f, b, cfg):
    sl = Slicer(f, b)
    cls0 = make_roles(b)

    def cls(atoms, op=None):
        return cls0(atoms, op)
    # the ceiling's origin set
    ceil_atoms = set()
    test_blocks = []
    for bi, blk in enumerate(b.blocks):
        if blk["cleanup"]:
            continue
        for s in blk["stmts"]:
            if s["k"] == "assign" and s["rv"]["k"] == "bin" and s["rv"]["op"] in D.CMP_OPS:
                ra, rb = cls(sl.of_operand(s["rv"]["a"]), s["rv"]["a"]), cls(sl.of_operand(s["rv"]["b"]), s["rv"]["b"])
                if {ra, rb} == {"batch", "ceiling"}:
                    ceil_atoms |= sl.of_operand(s["rv"]["a"] if ra == "ceiling" else s["rv"]["b"])
                    test_blocks.append(bi)
    need = ["field:Rule.threshold", "field:Rule.specific_items", "field:Rule.burst_count", "op:Add"]
    missing = [x for x in need if not any_atom(ceil_atoms, x) and x not in ceil_atoms]
    ctx.instance("C06.ceiling/origin", b.path, sorted(short(a) for a in ceil_atoms if a.startswith(("field:core", "op:")))[:8], need, not missing and bool(test_blocks), cfg)
    if missing or not test_blocks:
        ctx.violation("C06.ceiling", "C06.ceiling|origin|" + ",".join(missing or ["no-test"]), "the bucket ceiling compared with the batch lacks %s" % (missing or "a test"), b.loc(), config=cfg)
        return
    # subtractions ceiling - batch are dominated by the false edge of the rejection test
    tb = test_blocks[0]
    te = None
    for d in range(len(b.blocks)):
        t = b.term(d)
        if t and t["k"] == "switch" and d == tb:
            te = bool_edge_targets(b, d)
    subs = []
    for bi, blk in enumerate(b.blocks):
        if blk["cleanup"]:
            continue
        for s in blk["stmts"]:
            if s["k"] == "assign" and s["rv"]["k"] == "bin" and s["rv"]["op"].startswith("Sub"):
                ra, rb = cls(sl.of_operand(s["rv"]["a"]), s["rv"]["a"]), cls(sl.of_operand(s["rv"]["b"]), s["rv"]["b"])
                if ra == "ceiling" and rb == "batch":
                    subs.append(bi)
    ok = bool(subs) and te is not None
    if ok:
        # which edge is "batch <= ceiling"?  the one that does not lead straight to a blocked site
        blocked = {bb for bb, t, vs, c in blocked_sites(f, b)}
        safe = [e for e in te if not (b.reachable([e], avoid=[x for x in te if x != e]) & blocked and all(x in b.reachable([e]) for x in []))]
        safe_edge = te[1] if any(x in b.reachable([te[0]], avoid=subs) for x in blocked) and not b.dominates(te[0], subs[0]) else te[0]
        ok = all(b.dominates(safe_edge, x) for x in subs)
    ctx.instance("C06.ceiling/no-wrap", b.path, {"ceiling_minus_batch_sites": len(subs), "dominated_by_fit_edge": ok}, "every `ceiling - batch` runs only when batch <= ceiling", ok, cfg)
    if not ok:
        ctx.violation("C06.ceiling", "C06.ceiling|no-wrap", "`ceiling - batch` can run with batch > ceiling (unsigned wrap to a huge balance)", b.loc(subs[0] if subs else None), config=cfg)
    # refill cap
    cap_sw = None
    for bi, blk in enumerate(b.blocks):
        t = blk["term"]
        if blk["cleanup"] or not t or t["k"] != "switch":
            continue
        pl = op_place(t["op"])
        d = def_of_local(b, pl["l"]) if pl else None
        if d and d[0] == "assign" and d[3]["rv"]["k"] == "bin" and d[3]["rv"]["op"] in ("Gt", "Lt", "Ge", "Le"):
            ra, rb = cls(sl.of_operand(d[3]["rv"]["a"]), d[3]["rv"]["a"]), cls(sl.of_operand(d[3]["rv"]["b"]), d[3]["rv"]["b"])
            if {ra, rb} == {"sum", "ceiling"}:
                cap_sw = (bi, d[3]["rv"]["op"], ra)
    okc = False
    if cap_sw:
        bi, op, ra = cap_sw
        te = bool_edge_targets(b, bi)
        over_edge = te[0] if ((op in ("Gt", "Ge") and ra == "sum") or (op in ("Lt", "Le") and ra == "ceiling")) else te[1]
        under_edge = te[1] if over_edge == te[0] else te[0]
        # on the over edge the new balance is ceiling - batch; on the other sum - batch
        def first_sub(edge):
            for x in sorted(y for y in b.reachable([edge]) if b.dominates(edge, y)):
                for s in b.blocks[x]["stmts"]:
                    if s["k"] == "assign" and s["rv"]["k"] == "bin" and s["rv"]["op"].startswith("Sub"):
                        return cls(sl.of_operand(s["rv"]["a"]), s["rv"]["a"]), cls(sl.of_operand(s["rv"]["b"]), s["rv"]["b"])
            return None
        fo, fu = first_sub(over_edge), first_sub(under_edge)
        okc = fo == ("ceiling", "batch") and fu is not None and fu[0] in ("sum", "newq", "rest") and fu[1] == "batch" and op in ("Gt", "Lt")
        ctx.instance("C06.ceiling/refill-cap", b.path, {"test": "%s(%s, ..)" % (op, ra), "over_edge_balance": fo, "under_edge_balance": fu}, "add + rest > ceiling -> ceiling - batch, else add + rest - batch", okc, cfg)
    if not okc:
        ctx.violation("C06.ceiling", "C06.ceiling|refill-cap", "the refill is not capped at the ceiling (min(add + rest, q + b) - batch)", b.loc(), config=cfg)
