"""C03 — circuit breakers follow the Closed/Open/Half-Open state machine.

Decided (DESIGN §3 C03):
  C03.transitions   every store through MutexGuard<State> lies in a from_X_to_Y, the exit hook, or set_state; in each from_X_to_Y the
                    store of Y is dominated by `*guard == X` on the same guard, (X,Y) is an edge of the machine, the function returns
                    true exactly on that edge, exactly one listener loop on that edge calls on_transform_to_<Y>(X, ..); transitions into
                    Open from the checker side refresh the retry timestamp; set_state has no caller in the library
  C03.try_pass      Closed -> true; HalfOpen -> false; Open -> retry_timeout_arrived() && from_open_to_half_open(ctx);
                    retry_timeout_arrived == now >= next_retry_timestamp; the stamp is now + retry_timeout_ms
  C03.rollback      from_open_to_half_open registers an exit hook whenever the context has an entry; the hook stores Open iff
                    ctx.is_blocked() && state == HalfOpen and notifies on_transform_to_open(HalfOpen)
  C03.siblings      the three on_request_complete agree with the statement per state arm (HalfOpen: success -> close then
                    reset_metric, failure -> reopen; Closed: total >= min_request_amount && metric >= threshold -> open; Open: nothing);
                    failure = err.is_some() (count, ratio) / rt > max_allowed_rt (slow); counters: target += 1 iff failure, total += 1
  C03.feeding       breaker slot blocks with CircuitBreaking iff some breaker refuses; the stat slot feeds every breaker of the
                    resource with (ctx.round_trip(), ctx.get_err()); the slot writing round_trip has a smaller order than the reader
"""
from .core import *
from . import decision as D
from .decrules import *
from .locks import LockModel
from .cbrules import *


def run(ctx):
    ctx.explanation = (
        "Who-may-write rule for the breaker state (all stores through MutexGuard<State> enumerated and classified), per-transition "
        "dominance of the store by the `== X` test on the same live guard, decision tables for the return value, try_pass, the "
        "retry-timeout test, the rollback hook and for each state arm of the three on_request_complete implementations (sibling "
        "agreement against the statement), constants of the listener notifications, origin of the retry timestamp, and the "
        "feeding path (breaker slot, metric stat slot, slot order constants).")
    ctx.not_decided = ("that the counters in the window at an instant equal the completions of that window (C02), i.e. when thresholds "
                       "are met along a history; concurrency aspects are C16.")
    ctx.assumptions = ["NaN ratios (0/0) ignored in the threshold comparison", "listeners outside the crate are not constrained"]
    cfg = "core-default"
    f = ctx.facts(cfg)
    lm = LockModel(f)
    transitions(ctx, f, lm, cfg, "C03")
    try_pass(ctx, f, cfg, "C03")
    rollback(ctx, f, lm, cfg)
    siblings(ctx, f, cfg)
    feeding(ctx, f, cfg)
    # the counts the breakers sum are those of the statistic window: the ring is read only through the filtered readers
    from . import rules_C02
    rules_C02.array_readers(ctx, f, cfg, R="C03.window/who-reads-array")
    # each strategy is guarded by its own breaker type, on the fresh and on the statistics-reusing branch of its generator
    from . import gentable
    gentable.check(ctx, f, "circuitbreaker", cfg, "C03.generators")
    # every breaker counts in its own window: a statistics object handed to a new breaker leaves the old list, so that no two
    # breakers of one resource share (and double-count, or reset) one window
    from . import rules_C11
    rules_C11.rebuild(ctx, f, "circuitbreaker", "build_resource_circuit_breaker", cfg, R="C03.window/one-per-breaker")


def transitions(ctx, f, lm, cfg, P):
    names = state_names(f)
    stores = state_stores(f)
    ctx.floor(P + ".transitions", "stores through MutexGuard<State>", len(stores), 6)
    froms = {}
    for st in stores:
        b = st["body"]
        site = b.path
        if st["value"] == "param":
            # set_state: must have no caller in the library
            callers = [c for c in f.callers_of(b.path)]
            tr = [x for x in f.impl_of_trait_item.get("core::circuitbreaker::breaker::CircuitBreakerTrait::set_state", [])]
            chain = []
            for cb, bb, t in callers:
                up = f.callers_of(cb.path)
                chain.append((cb.path, len(up)))
            ok = all(n == 0 for _, n in chain)
            ctx.instance(P + ".transitions/set_state", site, {"callers": chain}, "raw state setter unreachable from library code", ok, cfg)
            if not ok:
                ctx.violation(P + ".transitions", P + ".transitions|set_state-called", "the unchecked state setter is called from library code: %s" % chain, b.loc(), config=cfg)
            continue
        gt = guard_test(f, b, st)
        if gt is None:
            ctx.instance(P + ".transitions/guarded", site, "store of %s not dominated by a `*guard == X` test on its own guard" % st["value"], "guarded", False, cfg)
            ctx.violation(P + ".transitions", "%s.transitions|unguarded-store|%s|%s" % (P, _role(b), st["value"]),
                          "state is set to %s without testing the previous state under the same lock" % st["value"], b.loc(st["bb"]), config=cfg)
            continue
        x, tb, tt = gt
        y = st["value"]
        live, why = guard_live_between(f, lm, b, st, tb)
        edge_ok = (x, y) in EDGES
        ctx.instance(P + ".transitions/edge", site, {"from": x, "to": y, "same_guard_live": live, "why": why}, "an edge of the machine, test and store under one live guard", edge_ok and live, cfg)
        if not edge_ok:
            ctx.violation(P + ".transitions", "%s.transitions|edge|%s->%s|%s" % (P, x, y, _role(b)), "transition %s -> %s is not an edge of the Closed/Open/Half-Open machine" % (x, y), b.loc(st["bb"]), config=cfg)
        if not live:
            ctx.violation(P + ".transitions", "%s.transitions|guard-not-continuous|%s->%s|%s" % (P, x, y, _role(b)), "test and store of %s -> %s are not under one continuously held state lock (%s)" % (x, y, why), b.loc(st["bb"]), config=cfg)
        # notification: one listener call site on that edge with constants (Y, prev = X)
        lcs = listener_calls(b)
        on_edge = [(bb, n, t) for bb, n, t in lcs if b.dominates(tt, bb)]
        okn = len(lcs) == 1 and len(on_edge) == 1 and on_edge[0][1] == NOTIFY[y] and len(b.scc_of(on_edge[0][0])) > 1
        prev = None
        if on_edge:
            at = Slicer(f, b).of_operand(on_edge[0][2]["args"][1])
            pv = sorted(a.rsplit("::", 1)[1] for a in at if a.startswith("variant:" + STATE_ADT))
            prev = pv[0] if len(pv) == 1 else pv
            okn = okn and prev == x
            # the store precedes the notification and no second notification per listener
            okn = okn and on_edge[0][0] in b.reachable([st["bb"]])
            # listeners come from the registry
            ra = Slicer(f, b).of_operand(on_edge[0][2]["args"][0])
            okn = okn and (any_atom(ra, "call:state_change_listeners") or any(a.startswith("static:") and "LISTE" in a.upper() for a in ra))
            # loop leaves only at exhaustion
            scc = b.scc_of(on_edge[0][0])
            for src, dst in b.loop_exits(scc):
                if (b.term(dst) or {}).get("k") == "unreachable":
                    continue
                t = b.term(src)
                a2 = Slicer(f, b).of_operand(t["op"]) if t["k"] == "switch" else set()
                ne = [tg for v, tg in t.get("targets", []) if v == 0]
                if not (t["k"] == "switch" and "discr" in a2 and any_atom(a2, "call:Iterator::next") and ne and dst == ne[0]):
                    okn = False
        ctx.instance(P + ".transitions/notify", site, {"listener_calls": [(n) for _, n, _ in lcs], "prev_constant": prev},
                     "one loop over all registered listeners calling %s(prev = %s)" % (NOTIFY[y], x), okn, cfg)
        if not okn:
            ctx.violation(P + ".transitions", "%s.transitions|notify|%s->%s|%s" % (P, x, y, _role(b)),
                          "transition %s -> %s is not announced exactly once to every listener as %s(prev=%s): found %s prev=%s" % (x, y, NOTIFY[y], x, [n for _, n, _ in lcs], prev),
                          b.loc(st["bb"]), config=cfg)
        if b.kind == "AssocFn":
            froms[(x, y)] = (b, tt, st)
            # returns true exactly on that edge
            cls = make_classifier([("state", ["lid:%d" % st["guard"]], [])] + [(n, ["variant:%s::%s" % (STATE_ADT, n)], []) for n in names])
            w = D.Walker(f, b, cls, unroll=2)
            paths = w.walk(0, lambda bb, env: None)

            # one winner: the function answers true exactly on the paths on which it stored the new state (the store itself is dominated
            # by the `== previous state` test under the same guard, checked above; further conjuncts of that test - the retry deadline in
            # from_open_to_half_open - only add `false` answers without a store)
            rets = [p for p in paths if p["outcome"][0] == "return" and not any(l == ("const", False) for l in p["lits"])]
            mism = []
            for p in rets:
                v = p["env"].get("_0")
                stored = st["bb"] in p["blocks"]
                if v not in (("const", True), ("const", False)) or (v == ("const", True)) != stored:
                    mism.append({"returns": v, "stored": stored})
            n_true = sum(1 for p in rets if p["env"].get("_0") == ("const", True))
            ctx.instance(P + ".transitions/returns", site, {"return_paths": len(rets), "answering_true": n_true, "mismatches": mism[:2]}, "returns true iff it stored %s (having seen %s under the guard)" % (y, x), not mism and n_true >= 1, cfg)
            if mism or n_true < 1:
                ctx.violation(P + ".transitions", "%s.transitions|returns|%s->%s" % (P, x, y), "%s does not return true exactly when it performed the transition" % b.path, b.loc(), config=cfg)
            if y == "Open":
                ups = [bb for bb, t in b.calls() if callee_is(t, "BreakerBase::update_next_retry_timestamp")]
                oku = len(ups) >= 1 and all(b.dominates(tt, u) for u in ups)
                ctx.instance(P + ".transitions/retry-stamp", site, "update_next_retry_timestamp on the transition edge: %s" % oku, "true", oku, cfg)
                if not oku:
                    ctx.violation(P + ".transitions", "%s.transitions|retry-stamp|%s->%s" % (P, x, y), "opening from %s does not (only) refresh the retry timestamp on the transition edge" % x, b.loc(), config=cfg)
    miss = EDGES - set(froms)
    ctx.instance(P + ".transitions/complete", "BreakerBase", sorted("%s->%s" % e for e in froms), sorted("%s->%s" % e for e in EDGES), not miss, cfg)
    for e in sorted(miss):
        ctx.violation(P + ".transitions", "%s.transitions|missing|%s->%s" % (P, e[0], e[1]), "no guarded transition function for edge %s -> %s" % e, config=cfg)
    return froms


def _role(b):
    if b.kind == "Closure":
        return "hook-in-" + (b.root or "").rsplit("::", 1)[-1]
    return b.path.rsplit("::", 1)[-1]


def try_pass(ctx, f, cfg, P):
    names = state_names(f)
    bodies = [f.trait_default("CircuitBreakerTrait", "try_pass")] + f.impl_methods("CircuitBreakerTrait", "try_pass")
    bodies = [b for b in bodies if b is not None]
    if not ctx.floor(P + ".try_pass", "CircuitBreakerTrait::try_pass bodies", len(bodies), 1):
        return
    for b in bodies:
        cls = make_classifier([("state", ["call:CircuitBreakerTrait::current_state"], []), ("state", ["call:BreakerBase::current_state"], [])]
                              + [(nm, ["variant:State::" + nm], []) for nm in names])

        def oname(t, atoms):
            n = callee_def(t).rsplit("::", 1)[-1]
            return n
        w = D.Walker(f, b, cls, opaque_name=oname)
        paths = w.walk(0, lambda bb, env: None)

        def outcome(p, asg):
            v = p["env"].get("_0")
            return "?" if v is None else str(D.ev(v, asg)).lower()

        def expected(asg):
            # `match state { .. }` or an if-chain of `state == State::X` tests
            nm = variant_of(asg, "state", names)
            if nm is None:
                return None
            if nm == "Closed":
                return "true"
            if nm == "HalfOpen":
                return "false"
            a = asg["opaque"].get("retry_timeout_arrived")
            o = asg["opaque"].get("from_open_to_half_open")
            if a is None or o is None:
                return None
            return "true" if (a and o) else "false"
        n, ncon, mism = run_table(ctx, P + ".try_pass", b.path, cfg, paths, outcome, expected)
        # the transition must not even be attempted before the timeout (it has side effects)
        order_ok = True
        for p in paths:
            names_on = [callee_def(b.term(x)).rsplit("::", 1)[-1] for x in p["blocks"] if (b.term(x) or {}).get("k") == "call"]
            if "from_open_to_half_open" in names_on:
                i = names_on.index("from_open_to_half_open")
                if "retry_timeout_arrived" not in names_on[:i]:
                    order_ok = False
                # and only on the branch where the timeout arrived
                if ("not", ("opaque", "retry_timeout_arrived")) in p["lits"]:
                    order_ok = False
        ok = not mism and ncon >= 6 and order_ok
        ctx.instance(P + ".try_pass", b.path, {"rows": n, "constrained": ncon, "mismatches": mism[:3], "transition_only_after_timeout_test": order_ok},
                     "Closed -> true; HalfOpen -> false; Open -> retry_timeout_arrived() && from_open_to_half_open(ctx)", ok, cfg)
        if not ok:
            ctx.violation(P + ".try_pass", P + ".try_pass|table|" + _role(b), "try_pass differs from the state machine: %s" % (mism[:1] or ("half-open transition attempted before the timeout test" if not order_ok else "match on the state not found")),
                          b.loc(), ["case [%s]: found %s expected %s" % m for m in mism[:6]], config=cfg)
    # retry_timeout_arrived
    b = f.one("BreakerBase::retry_timeout_arrived")
    if ctx.floor(P + ".try_pass", "BreakerBase::retry_timeout_arrived", 1 if b else 0, 1):
        cls = make_classifier([("now", ["call:curr_time_millis"], []), ("stamp", ["field:BreakerBase.next_retry_timestamp_ms"], [])])
        w = D.Walker(f, b, cls)
        paths = w.walk(0, lambda bb, env: None)

        def outcome(p, asg):
            v = p["env"].get("_0")
            return "?" if v is None else ("arrived" if D.ev(v, asg) else "not-yet")

        def expected(asg):
            r = D.rel_of(asg, "now", "stamp")
            if r is None:
                return None
            return "arrived" if r in ">=" else "not-yet"
        n, ncon, mism = run_table(ctx, P + ".try_pass/timeout", b.path, cfg, paths, outcome, expected)
        ctx.instance(P + ".try_pass/timeout", b.path, {"rows": n, "constrained": ncon, "mismatches": mism[:3]}, "arrived iff now(ms) >= next_retry_timestamp_ms", not mism and ncon == 3, cfg)
        if mism or ncon != 3:
            ctx.violation(P + ".try_pass", P + ".try_pass|timeout", "retry timeout test differs from `now >= next_retry_timestamp`: %s" % (mism[:1] or "comparison not found"), b.loc(), config=cfg)
    b = f.one("BreakerBase::update_next_retry_timestamp")
    if ctx.floor(P + ".try_pass", "BreakerBase::update_next_retry_timestamp", 1 if b else 0, 1):
        sl = Slicer(f, b)
        ok = False
        found = []
        for bb, t in b.calls():
            if atomic_op(t) == "store":
                recv = sl.of_operand(t["args"][0])
                val = sl.of_operand(t["args"][1])
                found = sorted(short(a) for a in val if a.startswith(("call:core", "field:", "op:")))
                ok = any_atom(recv, "field:BreakerBase.next_retry_timestamp_ms") and atoms_have(val, "call:curr_time_millis", "field:BreakerBase.retry_timeout_ms", "op:Add") and "op:Mul" not in val and "op:Div" not in val
        ctx.instance(P + ".try_pass/stamp", b.path, found, "next_retry_timestamp_ms := curr_time_millis() + retry_timeout_ms (both ms)", ok, cfg)
        if not ok:
            ctx.violation(P + ".try_pass", P + ".try_pass|stamp", "the retry timestamp is not now(ms) + retry_timeout_ms", b.loc(), config=cfg)


def hook_runs_for_blocked(ctx, f, cfg, P="C03"):
    """The rollback hook lives in the probing entry's exit handlers: a blocked entry must be exited through SentinelEntry::exit (which
    runs the handlers), not through the chain's exit alone (that returns early for blocked contexts)."""
    build = f.one("EntryBuilder::build")
    ex = f.one("SentinelEntry::exit")
    if not ctx.floor(P + ".rollback", "EntryBuilder::build + SentinelEntry::exit", (1 if build else 0) + (1 if ex else 0), 2):
        return
    # SentinelEntry::exit invokes the stored handlers
    ex = f.view(ex)
    sl = Slicer(f, ex)
    # the handler list = the field of SentinelEntry that the public when_exit() pushes to (found by role, whatever it is called)
    hfields = set()
    we = f.one("SentinelEntry::when_exit")
    if we is not None:
        wsl = Slicer(f, we)
        for _, t in we.calls():
            if callee_def(t).rsplit("::", 1)[-1] in ("push", "push_back", "insert") and t["args"]:
                hfields |= {a for a in wsl.of_operand(t["args"][0]) if a.startswith("field:") and "SentinelEntry." in a}
    hfields = hfields or {"field:core::base::entry::SentinelEntry.exit_handlers"}
    invokes = any(("indirect" in str(t["callee"]) or callee_def(t).rsplit("::", 1)[-1] in ("call", "call_once", "call_mut")) and (set().union(*[sl.of_operand(a) for a in t["args"]] or [set()]) & hfields)
                  for _, t in ex.calls())
    from . import rules_C13
    before = len(ctx.viol)
    rules_C13.build_rules(ctx, f, build, cfg)
    ctx.instance(P + ".rollback/runs", build.path, {"SentinelEntry::exit_invokes_exit_handlers": invokes}, "blocked entries are exited through SentinelEntry::exit, which runs the exit handlers", invokes, cfg)
    if not invokes:
        ctx.violation(P + ".rollback", P + ".rollback|handlers-not-run", "SentinelEntry::exit does not invoke the entry's exit handlers: the rollback hook of a blocked probe never runs", ex.loc(), config=cfg)


def rollback(ctx, f, lm, cfg):
    hook_runs_for_blocked(ctx, f, cfg, "C03")
    b = f.one("BreakerBase::from_open_to_half_open")
    if not ctx.floor("C03.rollback", "BreakerBase::from_open_to_half_open", 1 if b else 0, 1):
        return
    # hook registration whenever ctx has an entry, on the transition edge
    regs = [bb for bb, t in b.calls() if callee_is(t, "SentinelEntry::when_exit")]
    cls = make_classifier([("entry", ["call:EntryContext::entry"], []), ("state", ["call:Mutex::<T>::lock"], ["call:EntryContext::entry"])])
    w = D.Walker(f, b, cls, unroll=2)
    paths = w.walk(0, lambda bb, env: None)

    # per feasible path: the hook is registered iff the transition happened on that path (the HalfOpen store was executed) and the
    # context has an entry
    stores = {st["bb"] for st in state_stores(f) if st["body"].path == b.path and st["value"] == "HalfOpen"}
    rets = [p for p in paths if p["outcome"][0] == "return" and not any(l == ("const", False) for l in p["lits"])]
    mism = []
    ncon = 0
    for p in rets:
        hooks = sum(1 for x in p["blocks"] if x in regs)
        transitioned = bool(stores & set(p["blocks"]))
        ent = [l for l in p["lits"] if l[0] in ("disc", "disc_other") and l[1].startswith("entry")]
        has_entry = any(l[0] == "disc" and l[2] == 1 for l in ent)
        no_entry = any(l[0] == "disc" and l[2] == 0 for l in ent)
        if transitioned and not (has_entry or no_entry):
            continue
        ncon += 1
        want = 1 if (transitioned and has_entry) else 0
        if hooks != want:
            mism.append({"transition": transitioned, "entry": has_entry, "hooks": hooks})
    n = len(rets)
    ctx.instance("C03.rollback/registers", b.path, {"return_paths": n, "constrained": ncon, "mismatches": mism[:3], "when_exit_sites": len(regs)},
                 "exit hook registered iff the transition happened and the context has an entry", not mism and ncon >= 3 and bool(stores), cfg)
    if mism or ncon < 3 or not stores:
        ctx.violation("C03.rollback", "C03.rollback|registers", "the probe's rollback hook is not registered exactly when the breaker half-opens for an entry: %s" % (mism[:1] or "registration not found"), b.loc(), config=cfg)
    # (the closure may be written in a private helper that the view inlined)
    owners = [b] + [f.bodies[p] for p in getattr(b, "inlined", []) if p in f.bodies and f.bodies[p].kind != "Closure"]
    hooks = []
    for o in owners:
        hooks += [c for c in f.closures_of(o) if c not in hooks and any(s["body"].path == c.path for s in state_stores(f))]
    if not ctx.floor("C03.rollback", "exit hook closure storing the state", len(hooks), 1):
        return
    h = hooks[0]
    st = [s for s in state_stores(f) if s["body"].path == h.path]
    names = state_names(f)
    cls = make_classifier([("state", ["lid:%d" % st[0]["guard"]], [])] + [(nm, ["variant:%s::%s" % (STATE_ADT, nm)], []) for nm in names])

    def oname(t, atoms):
        return callee_def(t).rsplit("::", 1)[-1]
    w = D.Walker(f, h, cls, opaque_name=oname, unroll=2)
    sb = {s["bb"] for s in st}
    paths = w.walk(0, lambda bb, env: None)

    def outcome2(p, asg):
        return "store=%d" % sum(1 for x in p["blocks"] if x in sb)

    def expected2(asg):
        ib = asg["opaque"].get("is_blocked")
        r = D.rel_of(asg, "state", "HalfOpen")
        if ib is None or r is None:
            return None
        return "store=1" if (ib and r == "=") else "store=0"
    n, ncon, mism = run_table(ctx, "C03.rollback/hook", h.path, cfg, [p for p in paths if p["outcome"][0] == "return"], outcome2, expected2)
    okv = all(s["value"] == "Open" for s in st)
    # is_blocked() is asked of the exiting entry's own context (the hook's ctx parameter)
    sl = Slicer(f, h)
    okc = False
    for bb, t in h.calls():
        if callee_is(t, "EntryContext::is_blocked"):
            okc = any(a.startswith("param:") for a in sl.of_operand(t["args"][0]))
    # returns Ok(()) on all paths
    rets = set()
    for blk in h.blocks:
        for s in blk["stmts"]:
            if s["k"] == "assign" and s["lhs"]["l"] == 0 and not s["lhs"]["p"] and s["rv"]["k"] == "agg":
                rets.add(s["rv"].get("variant"))
    ok = not mism and ncon >= 6 and okv and okc and rets == {"Ok"}
    ctx.instance("C03.rollback/hook", h.path, {"rows": n, "constrained": ncon, "mismatches": mism[:3], "stores": [s["value"] for s in st], "asks_own_ctx": okc, "returns": sorted(rets)},
                 "stores Open iff ctx.is_blocked() && state == HalfOpen; returns Ok(())", ok, cfg)
    if not ok:
        ctx.violation("C03.rollback", "C03.rollback|hook", "the exit hook does not return the breaker to Open exactly when its probe was blocked: %s" % (mism[:1] or {"stores": [s["value"] for s in st], "own_ctx": okc, "returns": sorted(rets)}), h.loc(), config=cfg)


def _field_map(f, impl_self):
    """Which Self field is built from which Rule field (constructor aggregate)."""
    out = {}
    for p, b in f.bodies.items():
        if b.impl_self != impl_self or b.kind != "AssocFn":
            continue
        sl = Slicer(f, b)
        for blk in b.blocks:
            for s in blk["stmts"]:
                if s["k"] == "assign" and s["rv"]["k"] == "agg" and s["rv"].get("adt") == impl_self:
                    for nm, o in zip(s["rv"]["fields"], s["rv"]["ops"]):
                        at = sl.of_operand(o)
                        src = sorted(a.rsplit(".", 1)[-1] for a in at if a.startswith("field:") and "circuitbreaker::rule::Rule." in a)
                        if len(src) == 1:
                            out[nm] = src[0]
    return out


def siblings(ctx, f, cfg):
    names = state_names(f)
    impls = f.impl_methods("CircuitBreakerTrait", "on_request_complete")
    if not ctx.floor("C03.siblings", "impls of CircuitBreakerTrait::on_request_complete", len(impls), 3):
        return
    forms = {}
    for b in impls:
        ty = b.impl_self
        fmap = _field_map(f, ty)      # self field -> rule field
        inv = {v: k for k, v in fmap.items()}
        tname = ty.rsplit("::", 1)[-1]
        thr_f, min_f, rt_f = inv.get("threshold"), inv.get("min_request_amount"), inv.get("max_allowed_rt_ms")
        roles = [
            ("metric", ["field:Counter.target"], []),
            ("total", ["field:Counter.total"], ["field:Counter.target"]),
            ("state", ["call:CircuitBreakerTrait::current_state"], []),
        ]
        if thr_f:
            roles.append(("threshold", ["field:%s.%s" % (tname, thr_f)], []))
        if min_f:
            roles.append(("min_amount", ["field:%s.%s" % (tname, min_f)], []))
        if rt_f:
            roles.append(("max_rt", ["field:%s.%s" % (tname, rt_f)], []))
        # parameters by position (an impl may name them as it likes): (self, rt, error)
        p_rt, p_err = b.param_name(2) or "rt", b.param_name(3) or "error"
        roles.append(("rt", ["param:" + p_rt], []))
        roles.append(("counter", ["call:current_counter"], ["field:Counter.target", "field:Counter.total"]))
        roles.append(("err", ["param:" + p_err], ["param:" + p_rt]))
        base_cls = make_classifier(roles)

        def cls(atoms, op=None, b=b):
            if op is not None and discr_of_call(b, op, "Iterator::next"):
                return "iter"
            r = base_cls(atoms, op)
            return r
        sl = Slicer(f, b)

        def oname(t, atoms):
            n = callee_def(t).rsplit("::", 1)[-1]
            if n in ("is_some", "is_none") and (any(a.startswith("param:") and "err" in a for a in atoms)):
                return "err." + n
            if n == "is_err":
                return "counter.is_err"
            return n
        w = D.Walker(f, b, cls, opaque_name=oname, unroll=2)
        w.option_calls_as_disc = True      # is_err()/is_some() and `match` on the same value give the same atom
        trans = {}
        for bb, t in b.calls():
            n = callee_def(t).rsplit("::", 1)[-1]
            if n in ("from_half_open_to_closed", "from_half_open_to_open", "from_closed_to_open", "from_open_to_half_open", "reset_metric", "set_state"):
                trans[bb] = n
            a = atomic_op(t)
            if a and a != "load":
                recv = sl.of_operand(t["args"][0])
                which = "target" if any_atom(recv, "field:Counter.target") else ("total" if any_atom(recv, "field:Counter.total") else "?")
                cur = any_atom(recv, "call:current_counter")
                trans[bb] = "%s.%s(%s)%s" % (which, a, const_val(t["args"][1]), "" if cur else "@?")
        paths = [p for p in w.walk(0, lambda bb, env: None) if p["outcome"][0] == "return"]

        def outcome(p, asg):
            return ";".join(trans[x] for x in p["blocks"] if x in trans) or "-"
        slow = rt_f is not None and any(l[0] == "cmp" and {l[2], l[3]} == {"rt", "max_rt"} for p in paths for l in p["lits"] + [x[1] for x in p["lits"] if x[0] == "not"])

        def expected(asg, slow=slow):
            if asg["opaque"].get("counter.is_err") or asg["disc"].get("counter") == 1:
                return "-"
            if asg["disc"].get("iter") not in (0, None):
                return None
            if any(v for k, v in asg["opaque"].items() if k.startswith("closure-ran:fold")) :
                return None         # one more bucket summed: same decision as with none, judged on the rows without it
            es, en = asg["opaque"].get("err.is_some"), asg["opaque"].get("err.is_none")
            if es is None and asg["disc"].get("err") in (0, 1):
                es = asg["disc"]["err"] == 1
            if slow:
                r = D.rel_of(asg, "rt", "max_rt")
                if r is None:
                    return None
                fail = r == ">"
            else:
                if es is None:
                    return None
                if en is not None and en == es:
                    return None   # inconsistent valuation of is_some / is_none
                fail = es
            rec = ("target.fetch_add(1);" if fail else "") + "total.fetch_add(1)"
            s = asg["disc"].get("state")
            if s is None or s == "other" or s >= len(names):
                return None
            nm = names[s]
            if nm == "Open":
                return rec
            if nm == "HalfOpen":
                return rec + (";from_half_open_to_open" if fail else ";from_half_open_to_closed;reset_metric")
            r1 = D.rel_of(asg, "total", "min_amount")
            r2 = D.rel_of(asg, "metric", "threshold")
            if r1 is None or r2 is None:
                return None
            return rec + (";from_closed_to_open" if (r1 in ">=" and r2 in ">=") else "")
        n, ncon, mism = run_table(ctx, "C03.siblings", b.path, cfg, paths, outcome, expected)
        ok = not mism and ncon >= 12
        forms[tname] = {"failure": "rt > max_allowed_rt" if slow else "err.is_some()", "fields": fmap, "rows": n, "constrained": ncon}
        ctx.instance("C03.siblings", b.path, {"rows": n, "constrained": ncon, "mismatches": mism[:3], "failure_criterion": forms[tname]["failure"], "field_map": fmap},
                     "record (target+1 iff failure, total+1); HalfOpen: fail -> reopen, else close then reset_metric; Closed: total >= min && metric >= threshold -> open; Open: nothing", ok, cfg)
        if not ok:
            ctx.violation("C03.siblings", "C03.siblings|%s" % tname, "%s::on_request_complete deviates from the state machine: %s" % (tname, mism[:1] or "state match / thresholds not recognised"),
                          b.loc(), ["case [%s]: found %s expected %s" % m for m in mism[:8]], config=cfg)
        # metric operand origin: count strategy compares the target sum, ratio strategies target/total
        want_slow = {"SlowRtBreaker": True}
    # failure criterion per strategy (by which rule fields the breaker consumes)
    for tname, fm in forms.items():
        uses_rt = "max_allowed_rt_ms" in fm["fields"].values()
        ok = (fm["failure"] == "rt > max_allowed_rt") == uses_rt
        ctx.instance("C03.siblings/criterion", tname, fm["failure"], "slow strategy <=> uses max_allowed_rt_ms", ok, cfg)
        if not ok:
            ctx.violation("C03.siblings", "C03.siblings|criterion|" + tname, "%s judges failure by %s" % (tname, fm["failure"]), config=cfg)
    # reset_metric resets every counter
    rm = f.trait_default("CircuitBreakerTrait", "reset_metric")
    if rm is not None:
        calls = [callee_def(t).rsplit("::", 1)[-1] for _, t in rm.calls()]
        ok = "all_counter" in calls and "reset" in calls
        ctx.instance("C03.siblings/reset_metric", rm.path, calls, "iterates all_counter() and resets each", ok, cfg)
        if not ok:
            ctx.violation("C03.siblings", "C03.siblings|reset_metric", "reset_metric does not reset every bucket's counter", rm.loc(), config=cfg)


def feeding(ctx, f, cfg):
    chk = [b for b in f.impl_methods("RuleCheckSlot", "check") if "circuitbreaker" in b.path]
    if not ctx.floor("C03.feeding", "impl RuleCheckSlot::check in core::circuitbreaker", len(chk), 1):
        return
    # the slot's check() in its normalised view: the private helper that asks the breakers (a loop with an early return, a
    # find(..).map(..) chain, ...) is inlined / unfolded there
    b = f.view(f.raw(chk[0]))
    n_tp = sum(1 for _, t in b.calls() if callee_is(t, "CircuitBreakerTrait::try_pass"))
    if ctx.floor("C03.feeding", "try_pass call reachable inside the breaker slot's check", n_tp, 1):
        def cls(atoms, op=None):
            if op is not None and discr_of_call(b, op, "Iterator::next"):
                return "iter"
            return make_classifier([])(atoms, op)
        w = D.Walker(f, b, cls, opaque_name=lambda t, a: callee_def(t).rsplit("::", 1)[-1])
        blocked = {bb for bb, t, vs, c in blocked_sites(f, b)}
        paths = w.walk(0, lambda bb, env: ("blocked",) if bb in blocked else None)

        def outcome(p, asg):
            return "blocked" if p["outcome"][0] == "blocked" else "not-blocked-by-this-breaker"

        def expected(asg):
            if asg["opaque"].get("is_empty"):
                return "not-blocked-by-this-breaker"
            it = asg["disc"].get("iter")
            if it == 0:
                return "not-blocked-by-this-breaker"
            if it not in (None, 1):
                return None
            if any(not v for k, v in asg["opaque"].items() if k.startswith("closure-ran:") and k.rsplit(":", 1)[-1] in ("find_map", "find", "any", "all", "position", "try_for_each")):
                return "not-blocked-by-this-breaker"
            tp = asg["opaque"].get("try_pass")
            if tp is None:
                return None
            return "not-blocked-by-this-breaker" if tp else "blocked"
        n, ncon, mism = run_table(ctx, "C03.feeding/refusal", b.path, cfg, paths, outcome, expected)
        ctx.instance("C03.feeding/refusal", b.path, {"rows": n, "constrained": ncon, "mismatches": mism[:3]}, "Blocked(CircuitBreaking) iff some breaker's try_pass is false", not mism and ncon >= 3, cfg)
        if mism or ncon < 3:
            ctx.violation("C03.feeding", "C03.feeding|refusal", "the breaker slot does not refuse exactly when a breaker's try_pass fails: %s" % mism[:1], b.loc(), config=cfg)
        # the breakers asked are those of the entry's own resource
        a = Slicer(f, b)
        for bb, t in b.calls():
            if callee_is(t, "get_breakers_of_resource"):
                at = a.of_operand(t["args"][0])
                okk = any_atom(at, "call:ResourceWrapper::name") and any_atom(at, "call:EntryContext::resource")
                ctx.instance("C03.feeding/key", b.path, sorted(short(x) for x in at if x.startswith("call:core")), "breakers of ctx.resource().name()", okk, cfg)
                if not okk:
                    ctx.violation("C03.feeding", "C03.feeding|key", "the breaker slot does not ask the breakers of the entry's own resource", b.loc(bb), config=cfg)
    check_block_constants(ctx, f, b, "C03.feeding/report", cfg, "CircuitBreaking", None, None, "circuit breaker")
    # metric stat slot
    ms = [x for x in f.impl_methods("StatSlot", "on_completed") if "circuitbreaker" in x.path]
    if ctx.floor("C03.feeding", "circuitbreaker MetricStatSlot::on_completed", len(ms), 1):
        m = ms[0]
        sl = Slicer(f, m)
        sites = [(bb, t) for bb, t in m.calls() if callee_is(t, "CircuitBreakerTrait::on_request_complete")]
        ok = len(sites) == 1
        form = {}
        if ok:
            bb, t = sites[0]
            a1, a2 = sl.of_operand(t["args"][1]), sl.of_operand(t["args"][2])
            recv = sl.of_operand(t["args"][0])
            scc = m.scc_of(bb)
            early = [s for s, d in m.loop_exits(scc) if (m.term(d) or {}).get("k") != "unreachable" and not (m.term(s)["k"] == "switch" and "discr" in sl.of_operand(m.term(s)["op"]) and any_atom(sl.of_operand(m.term(s)["op"]), "call:Iterator::next"))
                     and not m.term(s).get("hof")]
            form = {"rt_from_round_trip": any_atom(a1, "call:EntryContext::round_trip"), "err_from_ctx": any_atom(a2, "call:EntryContext::get_err"),
                    "breakers_of_own_resource": any_atom(recv, "call:get_breakers_of_resource") and any_atom(recv, "call:ResourceWrapper::name"),
                    "loop": len(scc) > 1, "early_exits": len(early)}
            ok = form["rt_from_round_trip"] and form["err_from_ctx"] and form["breakers_of_own_resource"] and form["loop"] and not early
        ctx.instance("C03.feeding/completion", m.path, form, "for every breaker of the resource: on_request_complete(ctx.round_trip(), ctx.get_err())", ok, cfg)
        if not ok:
            ctx.violation("C03.feeding", "C03.feeding|completion", "completions are not fed to every breaker of the resource with the entry's response time and error: %s" % form, m.loc(), config=cfg)
    # order constants: writer of round_trip before its reader
    writer = [x for x in f.impl_methods("StatSlot", "on_completed") if any(callee_is(t, "EntryContext::set_round_trip") for _, t in x.calls())]
    reader = ms
    if writer and reader:
        ow = _order_of(f, writer[0].impl_self)
        orr = _order_of(f, reader[0].impl_self)
        ok = ow is not None and orr is not None and ow < orr
        ctx.instance("C03.feeding/order", "%s < %s" % (writer[0].impl_self, reader[0].impl_self), {"writer_order": ow, "reader_order": orr}, "slot writing round_trip runs before the slot reading it", ok, cfg)
        if not ok:
            ctx.violation("C03.feeding", "C03.feeding|order", "the slot that computes the response time (order %s) does not run before the breaker stat slot (order %s)" % (ow, orr), config=cfg)


def _order_of(f, self_ty):
    for b in f.impl_methods("BaseSlot", "order"):
        if b.impl_self == self_ty:
            at = Slicer(f, b).of_local(0)
            vs = [a for a in at if a.startswith("const:")]
            if len(vs) == 1:
                try:
                    return int(vs[0][6:])
                except ValueError:
                    return None
    return None
