"""A1 verdicts: lock-order graph, self edges, callbacks under locks, blocking under locks (DESIGN §2 A1)."""
import re
from collections import defaultdict

from .core import *
from .locks import LockModel, lock_call

DROPPING_MUTATORS = {"clear", "remove", "remove_entry", "insert", "retain", "retain_mut", "truncate", "drain", "pop", "pop_front",
                     "pop_back", "swap_remove", "take", "replace", "drop", "clone_from", "resize", "dedup", "dedup_by", "dedup_by_key",
                     "drop_in_place", "swap", "append", "split_off"}
EXT_TRAITS = ("core::circuitbreaker::breaker::StateChangeListener",)


class LockGraph:
    def __init__(self, facts):
        self.f = facts
        self.lm = LockModel(facts)
        self._droppy = None
        self._acq = None
        self.edges = defaultdict(list)      # (a, b) -> [witness dict]
        self.ext_sites = []                 # callbacks invoked with locks held
        self.sleep_sites = []
        self._built = False

    # ---- which type strings may run a local Drop impl ----------------------
    def droppy_names(self):
        if self._droppy is not None:
            return self._droppy
        f = self.f
        names = {}   # name -> drop method path set
        for st, dm in f.drop_impls.items():
            names[_base(st)] = {dm}
        changed = True
        while changed:
            changed = False
            for ap, a in f.adts.items():
                acc = set(names.get(ap, ()))
                for v in a["variants"]:
                    for fl in v["fields"]:
                        for n, dms in list(names.items()):
                            if _mentions(fl["ty"], n):
                                acc |= dms
                if acc and acc != names.get(ap, set()):
                    names[ap] = acc
                    changed = True
            for im in f.impls:
                tr = im.get("trait")
                if not tr or tr.startswith("std::"):
                    continue
                st = _base(im["self_ty"])
                if st in names:
                    key = "dyn " + tr
                    acc = set(names.get(key, ())) | names[st]
                    if acc != names.get(key, set()):
                        names[key] = acc
                        changed = True
        self._droppy = names
        return names

    def drop_targets(self, ty):
        out = set()
        for n, dms in self.droppy_names().items():
            if _mentions(ty, n):
                out |= dms
        return sorted(out)

    # ---- call edges incl. drop glue and external callbacks -----------------
    def out_calls(self, b):
        """[(bb, kind, target)] kind in call|drop|ext"""
        out = []
        f = self.f
        for bb, t, tgt in f.callees(b):
            if tgt.startswith("EXTERNAL("):
                fam = _gen_family(b.path, tgt)
                out.append((bb, "ext", fam if fam == "exit-handler" else "generator:" + fam))
            else:
                out.append((bb, "call", tgt))
        for bb, t in b.calls():
            c = t["callee"]
            if c.get("trait") in EXT_TRAITS:
                out.append((bb, "ext", "listener:" + c["def"].rsplit("::", 1)[-1]))
            if not c.get("local", False) and "indirect" not in c:
                # std mutators may drop elements in place
                nm = c["def"].rsplit("::", 1)[-1]
                for a, aty in zip(t["args"], t.get("arg_tys", [])):
                    if (aty.startswith("&mut ") and nm in DROPPING_MUTATORS) or (nm == "drop" and a.get("k") == "move" and not aty.startswith("&")):
                        for dm in self.drop_targets(aty):
                            out.append((bb, "drop", dm))
        for bi, blk in enumerate(b.blocks):
            if blk["cleanup"]:
                continue
            t = blk["term"]
            if t and t["k"] == "drop":
                for dm in self.drop_targets(t["ty"]):
                    out.append((bi, "drop", dm))
        return out

    # ---- summaries -----------------------------------------------------------
    def acquires(self):
        """path -> set of (cls, mode, waits) | ('EXT', name) | ('SLEEP',) acquired by the body or anything it may call."""
        if self._acq is not None:
            return self._acq
        f = self.f
        direct = {}
        calls = {}
        for p, b in f.bodies.items():
            r = self.lm.analyse(b)
            s = {(a["cls"], a["mode"], a["waits"]) for a in r["acq"]}
            oc = self.out_calls(b)
            for bb, kind, tgt in oc:
                if kind == "ext":
                    s.add(("EXT", tgt))
            for bb, t in b.calls():
                if callee_is(t, "std::thread::sleep"):
                    s.add(("SLEEP",))
            direct[p] = s
            calls[p] = {tgt for _, kind, tgt in oc if kind != "ext" and tgt in f.bodies}
        acq = {p: set(s) for p, s in direct.items()}
        changed = True
        while changed:
            changed = False
            for p in acq:
                cur = acq[p]
                n0 = len(cur)
                for c in calls[p]:
                    cur |= acq[c]
                if len(cur) != n0:
                    changed = True
        self._acq = acq
        self._calls = calls
        return acq

    def why(self, src, item, limit=8):
        """Shortest call chain from body `src` to a body directly acquiring `item`."""
        f = self.f
        from collections import deque
        prev = {src: None}
        dq = deque([src])
        while dq:
            p = dq.popleft()
            b = f.bodies[p]
            r = self.lm.analyse(b)
            direct = {(a["cls"], a["mode"], a["waits"]): a["loc"] for a in r["acq"]}
            if item in direct:
                chain = []
                x = p
                while x is not None:
                    chain.append(x)
                    x = prev[x]
                return [c.replace("core::", "", 1) for c in chain[::-1]] + ["acquires at " + direct[item]]
            if item[0] in ("EXT", "SLEEP"):
                for bb, kind, tgt in self.out_calls(b):
                    if kind == "ext" and ("EXT", tgt) == item:
                        chain = []
                        x = p
                        while x is not None:
                            chain.append(x)
                            x = prev[x]
                        return [c.replace("core::", "", 1) for c in chain[::-1]] + ["calls back at " + b.loc(bb)]
                if item[0] == "SLEEP":
                    for bb, t in b.calls():
                        if callee_is(t, "std::thread::sleep"):
                            chain = []
                            x = p
                            while x is not None:
                                chain.append(x)
                                x = prev[x]
                            return [c.replace("core::", "", 1) for c in chain[::-1]] + ["sleeps at " + b.loc(bb)]
            for c in sorted(self._calls.get(p, ())):
                if c not in prev and item in self._acq.get(c, ()):
                    prev[c] = p
                    dq.append(c)
        return [src, "?"]

    # ---- build ---------------------------------------------------------------
    def build(self):
        if self._built:
            return
        f = self.f
        acq = self.acquires()
        for p, b in f.bodies.items():
            r = self.lm.analyse(b)
            if not r["acq"]:
                continue
            held_at = r["held_at_term"]
            # direct nested acquisitions
            for i, a in enumerate(r["acq"]):
                H = [r["acq"][j] for j in held_at.get(a["bb"], ()) if j != i]
                for h in H:
                    self._edge(h, (a["cls"], a["mode"], a["waits"]), b, a["bb"], [b.path.replace("core::", "", 1), "acquires at " + a["loc"]], H)
            for bb, kind, tgt in self.out_calls(b):
                H = [r["acq"][j] for j in held_at.get(bb, ())]
                if not H:
                    continue
                if kind == "ext":
                    self.ext_sites.append({"body": b, "bb": bb, "ext": tgt, "held": H, "chain": [b.path.replace("core::", "", 1), "calls back at " + b.loc(bb)]})
                    continue
                if tgt not in f.bodies:
                    continue
                for item in acq.get(tgt, ()):
                    if item[0] == "EXT":
                        self.ext_sites.append({"body": b, "bb": bb, "ext": item[1], "held": H, "chain": None, "via": tgt, "item": item})
                    elif item[0] == "SLEEP":
                        self.sleep_sites.append({"body": b, "bb": bb, "held": H, "via": tgt, "item": item})
                    else:
                        for h in H:
                            self._edge(h, item, b, bb, None, H, via=tgt)
            for bb, t in b.calls():
                if callee_is(t, "std::thread::sleep"):
                    H = [r["acq"][j] for j in held_at.get(bb, ())]
                    if H:
                        self.sleep_sites.append({"body": b, "bb": bb, "held": H, "via": None, "item": ("SLEEP",)})
        self._built = True

    def _edge(self, h, item, b, bb, chain, H, via=None):
        cls, mode, waits = item
        self.edges[(h["cls"], cls)].append({"body": b, "bb": bb, "outer": h, "inner": item, "chain": chain, "via": via,
                                            "held": sorted({x["cls"] for x in H})})

    def witness(self, w):
        b = w["body"]
        ch = w["chain"] or ([b.path.replace("core::", "", 1) + " (holding %s taken at %s; call at %s)" % (w["outer"]["cls"], w["outer"]["loc"], b.loc(w["bb"]))] + self.why(w["via"], w["inner"]))
        return ch


def _base(ty):
    return re.sub(r"<.*$", "", ty)


def _mentions(ty, name):
    i = ty.find(name)
    while i >= 0:
        j = i + len(name)
        before_ok = i == 0 or not (ty[i - 1].isalnum() or ty[i - 1] in "_:")
        after_ok = j >= len(ty) or not (ty[j].isalnum() or ty[j] == "_")
        if name.startswith("dyn "):
            before_ok = True
        if before_ok and after_ok:
            return True
        i = ty.find(name, i + 1)
    return False


def _gen_family(path, ext):
    if "::base::entry::" in "::" + path:
        return "exit-handler"
    for fam in ("flow", "hotspot", "circuitbreaker", "isolation", "system"):
        if "::" + fam + "::" in "::" + path:
            return fam
    return "other"
