"""A8 — units of measure (ns / ms / s) inferred over MIR values (DESIGN §2 A8).

Lattice: 'ns' | 'us' | 'ms' | 's' | 'n' (dimensionless count / scalar) | None (unknown, never reported).
Seeds come from what the repository already says: callee names and signatures, field / parameter / variable name suffixes,
and a short table for unnamed carriers.  Transfer: + - comparisons and atomic store/CAS require equal units; x1000 /1000
x1_000_000 and unix_time_unit_offset() shift; unit / same unit -> scalar; casts and transparent calls preserve.
A report is a binary operation or a sink argument whose operand units are both known and different.
"""
import re

from .core import *

TIME = ("ns", "us", "ms", "s")
SCALE = {"s": 0, "ms": 3, "us": 6, "ns": 9}
INV = {v: k for k, v in SCALE.items()}

CALL_RESULT = {
    "utils::time::curr_time_millis": "ms", "utils::time::cal_curr_time_millis": "ms", "utils::time::ticker::curr_time_millis_with_ticker": "ms",
    "utils::time::curr_time_nanos": "ns", "utils::time::milli2nano": "ns",
    "EntryContext::start_time": "ms", "EntryContext::round_trip": "ms",
    "BucketWrap::<T>::start_stamp": "ms", "LeapArray::<T>::calculate_start_stamp": "ms", "LeapArray::<T>::bucket_len_ms": "ms",
    "LeapArray::<T>::interval_ms": "ms", "SlidingWindowMetric::interval_ms": "ms", "SlidingWindowMetric::bucket_len_ms": "ms",
    "CircuitBreakerTrait::next_retry_timestamp_ms": "ms",
}
# argument units demanded by a callee: name suffix -> {arg index: unit}
SINKS = {
    "TokenResult::new_should_wait": {0: "ns"}, "utils::time::sleep_for_ns": {0: "ns"}, "utils::time::sleep_for_ms": {0: "ms"},
    "utils::time::milli2nano": {0: "ms"}, "Duration::from_millis": {0: "ms"}, "Duration::from_nanos": {0: "ns"}, "Duration::from_secs": {0: "s"},
    "Duration::from_micros": {0: "us"}, "EntryContext::set_round_trip": {1: "ms"}, "utils::time::format_time_millis": {0: "ms"},
    "utils::time::format_date": {0: "ms"},
}
FIELD_TABLE = {
    "flow::traffic_shaping::throttling::ThrottlingChecker.last_passed_time": "ns",
    "hotspot::param_metric::ParamsMetric.rule_time_counter": "ms",
    "base::context::EntryContext.start_time": "ms", "base::context::EntryContext.round_trip": "ms",
    "stat::base::leap_array::BucketWrap.start_stamp": "ms",
    "flow::traffic_shaping::warmup::WarmUpCalculator.last_filled_time": "ms",
}
TRANSPARENT_NAMES = {"unwrap", "expect", "clone", "deref", "deref_mut", "load", "add_if_absent", "get", "as_ref", "try_into", "into", "from",
                     "round", "ceil", "floor", "abs", "unwrap_or", "cloned", "copied", "borrow", "to_owned", "swap", "fetch_add", "fetch_sub",
                     "try_from", "max", "min", "saturating_sub", "wrapping_sub", "checked_sub"}
ENUM_PAYLOAD = {"core::base::result::TokenResult::Wait.0": "ns"}


def unit_of_name(nm):
    if not nm:
        return None
    n = nm.lower()
    if re.search(r"(_ns|_nanos|_nano|nanos|_in_ns)$", n) or n.startswith("nanos_") or n.endswith("nano"):
        return "ns"
    if re.search(r"(_ms|_millis|_in_ms|_in_millis|millis)$", n):
        return "ms"
    if re.search(r"(_sec|_secs|_in_sec|_seconds|_in_s)$", n):
        return "s"
    if re.search(r"(_us|_micros)$", n):
        return "us"
    return None


def shift(u, p):
    """multiply a time unit by 10^p (p may be negative)."""
    if u in SCALE and (SCALE[u] + p) in INV:
        return INV[SCALE[u] + p]
    return None


def const_pow(op):
    v = None
    if op.get("k") == "const":
        if "fval" in op:
            try:
                v = float(op["fval"])
            except ValueError:
                v = None
        elif "val" in op:
            v = op["val"]
    if v in (1000, 1000.0):
        return 3
    if v in (1000000, 1000000.0):
        return 6
    if v in (1000000000, 1e9):
        return 9
    return None


class Units:
    def __init__(self, facts, body):
        self.f = facts
        self.b = body
        self.u = {}           # local -> unit
        self.conflicts = []   # dicts
        self.checked = []     # evaluated sites (ops / sinks with both sides known)

    def seed(self):
        b = self.b
        for l in range(len(b.locals)):
            nm = b.vname(l)
            u = unit_of_name(nm)
            ty = b.local_ty(l)
            if u and re.search(r"\b(u|i)(8|16|32|64|128|size)\b|f64|f32", ty):
                self.u[l] = u

    def unit_place(self, pl):
        u = None
        for p in pl["p"]:
            if p.startswith(".") and not p[1:].isdigit():
                fn = p[1:]
                short_ = fn.replace("core::", "", 1)
                if short_ in FIELD_TABLE:
                    u = FIELD_TABLE[short_]
                elif fn in ENUM_PAYLOAD:
                    u = ENUM_PAYLOAD[fn]
                else:
                    u = unit_of_name(fn.rsplit(".", 1)[-1]) or u
        if u:
            return u
        # tuple projections of checked arithmetic keep the unit of the tuple local
        return self.u.get(pl["l"])

    def unit_op(self, op):
        if op is None:
            return None
        if op.get("k") == "const":
            if "item" in op:
                return unit_of_name(op["item"].rsplit("::", 1)[-1])
            return "n" if ("val" in op or "fval" in op) else None
        return self.unit_place(op["pl"])

    def run(self):
        self.seed()
        b = self.b
        changed = True
        it = 0
        while changed and it < 12:
            changed = False
            it += 1
            for bi, blk in enumerate(b.blocks):
                if blk["cleanup"]:
                    continue
                for s in blk["stmts"]:
                    if s["k"] != "assign":
                        continue
                    u = self.unit_rvalue(s["rv"], bi, s, final=False)
                    if u and not s["lhs"]["p"]:
                        changed |= self._set(s["lhs"]["l"], u)
                t = blk["term"]
                if t and t["k"] == "call" and not t["dest"]["p"]:
                    u = self.unit_call(t)
                    if u:
                        changed |= self._set(t["dest"]["l"], u)
        # final pass: collect conflicts
        for bi, blk in enumerate(b.blocks):
            if blk["cleanup"]:
                continue
            for s in blk["stmts"]:
                if s["k"] == "assign":
                    self.unit_rvalue(s["rv"], bi, s, final=True)
                    # store into a unit-carrying field
                    if s["lhs"]["p"]:
                        lu = self.unit_place(s["lhs"])
                        ru = self.unit_rvalue(s["rv"], bi, s, final=False)
                        self._check("store into %s" % place_str(s["lhs"]).split(".")[-1], lu, ru, bi, s.get("dline") or s.get("line"))
            t = blk["term"]
            if t and t["k"] == "call":
                self.check_sinks(t, bi)
        return self

    def _set(self, l, u):
        old = self.u.get(l)
        if old is None or (old == "n" and u in TIME):
            # a name-seeded unit wins over inference; inference fills unknowns
            nm = unit_of_name(self.b.vname(l))
            if nm and nm != u and u != "n":
                self.u[l] = nm
                return old != nm
            self.u[l] = u
            return old != u
        return False

    def unit_rvalue(self, rv, bi, s, final):
        k = rv["k"]
        if k in ("use", "cast", "repeat"):
            return self.unit_op(rv["op"])
        if k == "ref":
            return self.unit_place(rv["pl"])
        if k == "un":
            return self.unit_op(rv["a"])
        if k == "agg":
            if rv.get("adt", "").endswith("result::TokenResult") and rv.get("variant") == "Wait" and final:
                self._check("TokenResult::Wait payload", "ns", self.unit_op(rv["ops"][0]), bi, s.get("dline") or s.get("line"))
            return None
        if k == "bin":
            op = rv["op"].replace("WithOverflow", "")
            ua, ub = self.unit_op(rv["a"]), self.unit_op(rv["b"])
            line = s.get("dline") or s.get("line")
            if op in ("Add", "Sub"):
                if final:
                    self._check(op, ua, ub, bi, line)
                if ua in TIME:
                    return ua
                if ub in TIME:
                    return ub
                return ua or ub
            if op in ("Lt", "Le", "Gt", "Ge", "Eq", "Ne"):
                if final:
                    self._check("compare " + op, ua, ub, bi, line)
                return None
            if op == "Mul":
                pa, pb = const_pow(rv["a"]), const_pow(rv["b"])
                if ua in TIME and pb:
                    return shift(ua, pb)
                if ub in TIME and pa:
                    return shift(ub, pa)
                if ua in TIME and ub in TIME:
                    return None
                if ua in TIME:
                    return ua
                if ub in TIME:
                    return ub
                # multiplication by the unit offset constant
                return "n" if ua == "n" and ub == "n" else None
            if op == "Div":
                pb = const_pow(rv["b"])
                if ua in TIME and pb:
                    return shift(ua, -pb)
                if ua in TIME and ub in TIME:
                    if final:
                        self._check("ratio", ua, ub, bi, line)
                    return "n"
                if ua in TIME:
                    return ua
                if ua == "n" and ub in TIME:
                    return None
                return "n" if ua == "n" and ub == "n" else None
            if op == "Rem":
                if final and ua in TIME and ub in TIME:
                    self._check("remainder", ua, ub, bi, line)
                return ua
        return None

    def unit_call(self, t):
        d = callee_def(t)
        for k, u in CALL_RESULT.items():
            if d.endswith(k) or (t["callee"].get("resolved") or "").endswith(k):
                return u
        nm = d.rsplit("::", 1)[-1]
        if nm == "unix_time_unit_offset":
            return None
        ut = unit_of_name(nm)
        if ut and re.search(r"\b(u|i)(32|64|128)\b|f64", t.get("dest_ty", "")):
            return ut
        if nm in TRANSPARENT_NAMES and t["args"]:
            return self.unit_op(t["args"][0])
        if nm in ("mul_add",):
            return None
        return None

    def check_sinks(self, t, bi):
        d = callee_def(t)
        line = t.get("dline") or t.get("line")
        for k, spec in SINKS.items():
            if d.endswith(k) or (t["callee"].get("resolved") or "").endswith(k):
                for i, want in spec.items():
                    if i < len(t["args"]):
                        self._check("argument of " + k.rsplit("::", 1)[-1], want, self.unit_op(t["args"][i]), bi, line, sink=k)
        a = atomic_op(t)
        if a in ("store", "compare_exchange", "compare_exchange_weak", "fetch_add", "fetch_sub", "swap") and t["args"]:
            cu = self.unit_op(t["args"][0])
            if cu in TIME:
                for i in range(1, len(t["args"])):
                    au = self.unit_op(t["args"][i])
                    if (t.get("arg_tys") or [""] * 9)[i].startswith("std::sync::atomic::Ordering"):
                        continue
                    self._check("atomic %s on a %s carrier" % (a, cu), cu, au, bi, line)
        nm = d.rsplit("::", 1)[-1]
        if nm == "add_if_absent" and len(t["args"]) > 2:
            cu = self.unit_op(t["args"][0])
            if cu in TIME:
                self._check("add_if_absent on a %s carrier" % cu, cu, self.unit_op(t["args"][2]), bi, line)

    def _check(self, what, ua, ub, bi, line, sink=None):
        if ua in TIME and ub in TIME:
            rec = {"what": what, "a": ua, "b": ub, "loc": "%s:%s" % (self.b.file, line), "fn": self.b.path}
            self.checked.append(rec)
            if ua != ub:
                self.conflicts.append(rec)
