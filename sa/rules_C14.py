"""C14 — concurrent entries share one statistics node, accounted without loss or excess.

Decided (DESIGN §3 C14):
  C14.one-node      creation of a resource's node is atomic w.r.t. its lookup: no plain insert into RESOURCE_NODE_MAP decided by a lookup
                    made under a different acquisition of that lock (A2 insert-after-check); nodes are constructed only there (and for
                    the global inbound node)
  C14.same-node     the prepare slot stores exactly that node in the context; the node-statistics callbacks account on the context's node
  C14.rmw           the counters that carry the totals (ResourceNode.concurrency, MetricBucket.counter[*], breaker Counter.target/total,
                    hotspot per-value concurrency) are changed only by single read-modify-write calls (or constant stores in reset());
                    a load and a store of the same atomic in one function is a lost-update pattern (two exemptions: min_rt, max_concurrency)
  C14.rollover      the bucket roll-over path only resets (stores constants); it contains no adding operation: it may miss, never exceed
"""
from .core import *
from .lockgraph import LockGraph

NODE_MAP = "static:stat::node_storage::RESOURCE_NODE_MAP"
TOTAL_FIELDS = ["ResourceNode.concurrency", "MetricBucket.counter", "Counter.target", "Counter.total"]
EXEMPT = {"MetricBucket.min_rt": "load-then-store by design ('might not be accurate' in the source); carries no total named by a property",
          "MetricBucket.max_concurrency": "as above"}


def run(ctx):
    ctx.explanation = (
        "Atomicity rules over MIR: (a) check-then-act on the node map - every plain HashMap::insert on RESOURCE_NODE_MAP must be decided "
        "under the same lock acquisition that performs it (entry()/or_insert_with is atomic by construction); (b) who-may-construct "
        "ResourceNode; (c) origin of the node stored by the prepare slot and used by the statistic callbacks; (d) per atomic field that "
        "carries a total, the set of operations per function (single RMW only); (e) the roll-over path reaches no adding operation.")
    ctx.not_decided = "totals within a bucket under particular schedules (needs an interleaving exploration, another technique family)."
    ctx.assumptions = ["std atomics' RMW operations are atomic", "the closure given to or_insert_with runs under the map's write guard"]
    cfg = "core-default"
    f = ctx.facts(cfg)
    g = LockGraph(f)
    g.build()
    one_node(ctx, f, g, cfg)
    same_node(ctx, f, cfg)
    rmw(ctx, f, cfg)
    rollover(ctx, f, cfg)
    # the roll-over resets every counter unconditionally (a bucket that keeps old counts makes totals exceed what was recorded)
    from . import rules_C02
    rules_C02.reset_coverage(ctx, f, cfg)


def one_node(ctx, f, g, cfg):
    acq = g.acquires()
    n_ins = 0
    creators = []
    via = set()
    for p, b in f.bodies.items():
        if not g.lm.analyse(b)["acq"]:
            continue
        # the function that takes the map's lock, with its private helpers inlined (the insertion may sit in one of them)
        b = f.view(b)
        r = g.lm.analyse(b)
        ids = [i for i, a in enumerate(r["acq"]) if a["cls"] == NODE_MAP]
        if not ids:
            continue
        via |= set(b.inlined)
        sl = Slicer(f, b)
        for bb, t in b.calls():
            nm = callee_def(t).rsplit("::", 1)[-1]
            if nm not in ("insert", "entry", "or_insert_with", "or_insert"):
                continue
            recv = sl.of_operand(t["args"][0])
            if not any(a.startswith("static:") and a.endswith("RESOURCE_NODE_MAP") for a in recv):
                continue
            creators.append(p)
            held = [i for i in r["held_at_term"].get(bb, ()) if r["acq"][i]["cls"] == NODE_MAP]
            # a lock call feeding the receiver as a statement temporary
            if not held:
                held = [i for i in ids if r["acq"][i]["bb"] in b.dominators().get(bb, ()) and bb in b.reachable([r["acq"][i]["bb"]])][-1:]
            if nm != "insert":
                ctx.instance("C14.one-node/atomic-create", p, "%s() under one acquisition of RESOURCE_NODE_MAP (%s)" % (nm, [r["acq"][i]["mode"] for i in held]),
                             "entry API under a write guard", any(r["acq"][i]["mode"] == "write" for i in held), cfg)
                if not any(r["acq"][i]["mode"] == "write" for i in held):
                    ctx.violation("C14.one-node", "C14.one-node|%s|entry-without-write-guard" % p.replace("core::", "", 1), "node creation not under the map's write guard", b.loc(bb), config=cfg)
                continue
            n_ins += 1
            # plain insert: which lookups decide it?
            deciding = []
            for d in sorted(b.dominators().get(bb, ())):
                tt = b.term(d)
                if not tt or tt["k"] != "switch":
                    continue
                at = sl.of_operand(tt["op"])
                for a in at:
                    if a.startswith("call:") and any(c[0] == NODE_MAP for c in acq.get(a[5:], ())):
                        deciding.append("lookup in %s (its own acquisition)" % a[5:].replace("core::", "", 1))
                if any(a.startswith("static:") and a.endswith("RESOURCE_NODE_MAP") for a in at):
                    # lookup in this body: under which acquisition?
                    same = any(i in r["held_at_term"].get(d, ()) for i in held)
                    if not same:
                        deciding.append("lookup under another acquisition in the same function")
            ok = not deciding
            ctx.instance("C14.one-node/insert", p, {"decided_by": deciding}, "insert decided under the inserting guard", ok, cfg)
            if not ok:
                ctx.violation("C14.one-node", "C14.one-node|%s" % p.replace("core::", "", 1),
                              "a node is inserted into RESOURCE_NODE_MAP on the strength of a %s: two first-comers can both insert and keep different nodes" % deciding[0],
                              b.loc(bb), config=cfg)
    ctx.floor("C14.one-node", "creation sites on RESOURCE_NODE_MAP", len(creators), 1)
    # who may construct a ResourceNode
    ctors = []
    for p, b in f.bodies.items():
        for bb, t in b.calls():
            if callee_is(t, "ResourceNode::new"):
                ctors.append(p)
    allowed = set(creators)
    extra = []
    for p in sorted(set(ctors)):
        root = f.bodies[p].root or p
        if root in allowed or p in allowed or root in via or p in via:
            continue
        if "INBOUND_NODE" in p or "INBOUND_NODE" in root:
            continue
        extra.append(p)
    # ... and every node created for a resource ends up in the map: the constructor call sits in the closure given to
    # or_insert_with, or its result is moved into an insert on the map (a node that is returned but not retained makes later
    # entries of that resource account on different nodes)
    for p in sorted(set(ctors)):
        cb = f.bodies[p]
        root = cb.root or p
        if "INBOUND_NODE" in p or "INBOUND_NODE" in root:
            continue
        retained = False
        if cb.kind == "Closure" and cb.root in f.bodies:
            rb = f.bodies[cb.root]
            for bb, t in rb.calls():
                if callee_def(t).rsplit("::", 1)[-1] in ("or_insert_with", "or_insert_with_key") and any(p in d for d in t.get("arg_defs", [])):
                    retained = True
        else:
            sl = Slicer(f, cb)
            for bb, t in cb.calls():
                if callee_def(t).rsplit("::", 1)[-1] in ("insert", "or_insert") and any_atom(sl.of_operand(t["args"][-1]), "call:ResourceNode::new"):
                    w = None
                    news = [x for x, tt in cb.calls() if callee_is(tt, "ResourceNode::new")]
                    w = must_pass(cb, news, cb.return_blocks(), [bb])
                    retained = w is None
        ctx.instance("C14.one-node/retained", p, "created node is stored in the map on every path: %s" % retained, "true", retained, cfg)
        if not retained:
            ctx.violation("C14.one-node", "C14.one-node|not-retained|" + p.replace("core::", "", 1), "%s creates a ResourceNode that can be returned without being stored in RESOURCE_NODE_MAP: later entries of that resource get a different node" % p, cb.loc(), config=cfg)
    # a registered node is never taken out of the map again (entries in flight keep accounting on it; a replacement splits the totals):
    # the only removing operation is the whole-map reset used by tests
    removers = []
    for p, b in f.bodies.items():
        sl2 = None
        for bb, t in b.calls():
            nm = callee_def(t).rsplit("::", 1)[-1]
            if nm not in ("remove", "remove_entry", "retain", "drain", "clear", "take", "swap_remove") or not t["args"]:
                continue
            sl2 = sl2 or Slicer(f, b)
            if any(x.startswith("static:") and x.endswith("RESOURCE_NODE_MAP") for x in sl2.of_operand(t["args"][0])):
                removers.append((p, nm, bb))
    bad_rm = [(p, nm, bb) for p, nm, bb in removers if not (p.endswith("::reset_resource_map") and nm == "clear")]
    ctx.instance("C14.one-node/never-replaced", "RESOURCE_NODE_MAP", {"removing_operations": [(p.replace("core::", "", 1), nm) for p, nm, _ in removers]},
                 "only reset_resource_map().clear()", not bad_rm, cfg)
    for p, nm, bb in bad_rm:
        ctx.violation("C14.one-node", "C14.one-node|replaced|%s|%s" % (p.replace("core::", "", 1), nm),
                      "%s takes a registered node out of RESOURCE_NODE_MAP (%s): entries in flight keep the old node while later ones get a new one" % (p, nm), f.bodies[p].loc(bb), config=cfg)
    ctx.instance("C14.one-node/constructors", "ResourceNode::new callers", sorted(set(ctors)), "only the get-or-create function and the inbound-node static", not extra, cfg)
    for p in extra:
        ctx.violation("C14.one-node", "C14.one-node|constructor|" + p.replace("core::", "", 1), "%s constructs a ResourceNode outside the node map" % p, f.bodies[p].loc(), config=cfg)


def same_node(ctx, f, cfg):
    preps = [b for b in f.impl_methods("StatPrepareSlot", "prepare") if "::stat::" in b.path]
    if not ctx.floor("C14.same-node", "ResourceNodePrepareSlot::prepare", len(preps), 1):
        return
    b = preps[0]
    sl = Slicer(f, b)
    ok = False
    form = {}
    for bb, t in b.calls():
        if callee_is(t, "EntryContext::set_stat_node"):
            a = sl.of_operand(t["args"][1])
            form = {"node_from": sorted(x.rsplit("::", 1)[-1] for x in a if x.startswith("call:core")), "keyed_by_resource_name": any_atom(a, "call:ResourceWrapper::name")}
            ok = any_atom(a, "call:get_or_create_resource_node") and any_atom(a, "call:ResourceWrapper::name") and any_atom(a, "call:EntryContext::resource")
    ctx.instance("C14.same-node/prepare", b.path, form, "ctx.set_stat_node(get_or_create_resource_node(ctx.resource().name(), ..))", ok, cfg)
    if not ok:
        ctx.violation("C14.same-node", "C14.same-node|prepare", "the prepare slot does not store the shared node of the entry's resource in the context", b.loc(), config=cfg)
    # callbacks account on ctx.stat_node()
    for name in ("on_entry_pass", "on_entry_blocked", "on_completed"):
        for cb in f.impl_methods("StatSlot", name):
            if "::stat::" not in cb.path:
                continue
            s2 = Slicer(f, cb)
            sites = 0
            bad = 0
            # (view: private recorder helpers are inlined, each copy with the node it was given) every statistics operation on a
            # `dyn StatNode` receiver is made on the context's node or on the global inbound node
            for bb, t in cb.calls():
                if t["args"] and "dyn core::base::stat::StatNode" in (t.get("arg_tys") or [""])[0] and callee_def(t).startswith("core::base::stat::"):
                    a = s2.of_operand(t["args"][0])
                    sites += 1
                    on_ctx = any_atom(a, "call:EntryContext::stat_node")
                    on_inb = any_atom(a, "call:inbound_node")
                    if on_ctx == on_inb:
                        bad += 1
            ctx.instance("C14.same-node/callbacks", cb.path, {"recording_calls": sites, "not_on_ctx_node_or_inbound": bad}, "all on ctx.stat_node() / inbound_node()", bad == 0 and sites > 0, cfg)
            if bad or not sites:
                ctx.violation("C14.same-node", "C14.same-node|" + name, "%s accounts on a node that is not the context's shared node" % name, cb.loc(), config=cfg)


def rmw(ctx, f, cfg):
    per_field = {}
    for p, b in f.bodies.items():
        sl = None
        ops = {}
        for bb, t in b.calls():
            a = atomic_op(t)
            if not a:
                continue
            sl = sl or Slicer(f, b)
            recv = sl.of_operand(t["args"][0])
            flds = sorted({x[6:].split("::")[-1] for x in recv if x.startswith("field:") and ("Atomic" in (_fty(f, x[6:]) or "") or "EnumMap" in (_fty(f, x[6:]) or ""))})
            for fl in flds:
                ops.setdefault(fl, []).append((a if not (a.startswith("compare_exchange") and not b.in_loop(bb)) else "compare_exchange(not retried)",
                                               const_val(t["args"][1]) if len(t["args"]) > 1 and a in ("store", "fetch_add", "fetch_sub") else None))
        for fl, lst in ops.items():
            per_field.setdefault(fl, {})[p] = lst
    n = 0
    for fl in sorted(per_field):
        short_f = fl
        tracked = any(short_f.endswith(t) for t in TOTAL_FIELDS)
        exempt = EXEMPT.get(short_f)
        if not tracked and not exempt:
            continue
        for p, lst in sorted(per_field[fl].items()):
            kinds = {a for a, _ in lst}
            lost = "load" in kinds and "store" in kinds
            nonconst_store = any(a == "store" and v is None for a, v in lst)
            n += 1
            if exempt:
                ctx.instance("C14.rmw/exempt", "%s in %s" % (fl, p), sorted(kinds), "exempt: " + exempt, True, cfg)
                continue
            # a compare-and-swap that is not retried in a loop silently drops the update when another thread got in between
            single_cas = "compare_exchange(not retried)" in kinds
            ok = not lost and not nonconst_store and not single_cas
            ctx.instance("C14.rmw", "%s in %s" % (fl, p), [list(x) for x in lst], "single RMW calls, or constant stores (reset)", ok, cfg)
            if not ok:
                ctx.violation("C14.rmw", "C14.rmw|%s|%s" % (fl, p.replace("core::", "", 1)),
                              "%s is updated by %s in %s: a separate load and store (or a computed store) loses concurrent updates" % (fl, sorted(kinds), p), f.bodies[p].loc(), config=cfg)
    ctx.floor("C14.rmw", "functions operating on the tracked atomics", n, 8)


def _fty(f, fld):
    adt, _, fn = fld.rpartition(".")
    a = f.adts.get(adt)
    if not a:
        return None
    for v in a["variants"]:
        for fl in v["fields"]:
            if fl["name"] == fn:
                return fl["ty"]
    return None


def rollover(ctx, f, cfg):
    rb = [b for b in f.find("LeapArray::<T>::reset_bucket")]
    if not ctx.floor("C14.rollover", "LeapArray::reset_bucket", len(rb), 1):
        return
    reach = f.reach_bodies([rb[0].path])
    adds = []
    stores = []
    for p in reach:
        b = f.bodies[p]
        for bb, t in b.calls():
            a = atomic_op(t)
            if a in ("fetch_add", "fetch_sub", "fetch_or", "fetch_max", "swap", "compare_exchange", "fetch_update"):
                adds.append((p, a))
            elif a == "store":
                v = t["args"][1]
                at = Slicer(f, b).of_operand(v)
                const_like = v.get("k") == "const" or all(x.startswith(("const:", "item:", "param:start_stamp", "local:")) or x == "env" for x in at if not x.startswith("lid:"))
                stores.append((p.rsplit("::", 2)[-2] + "::" + p.rsplit("::", 1)[-1], const_like))
    ok = not adds and stores and all(c for _, c in stores)
    ctx.instance("C14.rollover", rb[0].path, {"bodies_reached": len(reach), "adding_ops": adds, "stores": stores}, "only constant / start-stamp stores", ok, cfg)
    if not ok:
        ctx.violation("C14.rollover", "C14.rollover|adds", "the roll-over path performs %s: totals could exceed what was recorded" % (adds or stores), rb[0].loc(), config=cfg)
    # and the roll-over is reached only on the deprecated-bucket branch (target_start > start_stamp)
    gb = f.find("LeapArray::<T>::get_bucket_of_time")
    if gb:
        b = gb[0]
        sites = call_or_inlined(b, "reset_bucket")
        sl = Slicer(f, b)
        guarded = True
        for sb in sites:
            okd = False
            for d in b.dominators()[sb]:
                t = b.term(d)
                if t and t["k"] == "switch":
                    a = sl.of_operand(t["op"])
                    if ("op:Gt" in a or "op:Lt" in a) and (any_atom(a, "call:calculate_start_stamp") or ("op:Rem" in a and any_atom(a, "param:now"))) and any_atom(a, "call:start_stamp"):
                        okd = True
            guarded = guarded and okd
        ctx.instance("C14.rollover/guard", b.path, "reset only when the target start is newer than the bucket's stamp: %s (sites=%d)" % (guarded, len(sites)), "true", guarded and sites, cfg)
        if not (guarded and sites):
            ctx.violation("C14.rollover", "C14.rollover|guard", "a bucket can be reset although it is not older than the requested time", b.loc(), config=cfg)
