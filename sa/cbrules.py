"""Shared circuit-breaker rules for C03 (state machine) and C16 (atomic transitions)."""
from .core import *
from . import decision as D
from .decrules import *
from .locks import LockModel, lock_call

STATE_ADT = "core::circuitbreaker::breaker::State"
EDGES = {("Closed", "Open"), ("Open", "HalfOpen"), ("HalfOpen", "Open"), ("HalfOpen", "Closed")}
NOTIFY = {"Open": "on_transform_to_open", "HalfOpen": "on_transform_to_half_open", "Closed": "on_transform_to_closed"}


def state_names(f):
    a = f.adts.get(STATE_ADT)
    return [v["name"] for v in a["variants"]] if a else []


def state_stores(f):
    """All stores through a `&mut State` obtained from a MutexGuard<State>: list of dicts
    {body, bb, idx, value (variant name or 'param'), guard (local)}"""
    out = []
    from . import inline
    for p, b in f.bodies.items():
        if "circuitbreaker" not in p:
            continue
        # private helpers are read where they are used: in the normalised view of the public / trait-role function (or closure)
        # that calls them, so a store is judged together with the test and the lock that surround the helper call
        if inline.default_policy(f, b, b) and f.callers_of(p):
            continue
        b = f.view(b)
        for bi, blk in enumerate(b.blocks):
            if blk["cleanup"]:
                continue
            for si, s in enumerate(blk["stmts"]):
                if s["k"] != "assign" or s["lhs"]["p"] != ["*"]:
                    continue
                l = s["lhs"]["l"]
                if b.local_ty(l) != "&mut " + STATE_ADT:
                    continue
                # the &mut State must come from DerefMut on a guard local
                d = def_of_local(b, l)
                guard = None
                if d and d[0] == "call" and callee_is(d[3], "DerefMut::deref_mut"):
                    a0 = d[3]["args"][0]
                    gl = op_place(a0)
                    if gl is not None:
                        d2 = def_of_local(b, gl["l"])
                        if d2 and d2[0] == "assign" and d2[3]["rv"]["k"] == "ref":
                            guard = d2[3]["rv"]["pl"]["l"]
                if guard is None or "MutexGuard" not in b.local_ty(guard):
                    continue
                rv = s["rv"]
                val = None
                if rv["k"] == "agg" and rv.get("adt") == STATE_ADT:
                    val = rv["variant"]
                elif rv["k"] == "use":
                    at = Slicer(f, b).of_operand(rv["op"])
                    vs = sorted(a.rsplit("::", 1)[1] for a in at if a.startswith("variant:" + STATE_ADT))
                    if len(vs) == 1:
                        val = vs[0]
                    elif any(a.startswith("param:") for a in at):
                        val = "param"
                out.append({"body": b, "bb": bi, "idx": si, "value": val, "guard": guard})
    return out


def guard_test(f, b, store):
    """The test of the previous state on the same guard that dominates the store: `*guard == State::X` (store on the true edge),
    `*guard != State::X` with an early return (store on the false edge), or a `match *guard` whose X arm leads to the store.
    Returns (X, test_block, edge_target) or None."""
    sl = Slicer(f, b)
    names = state_names(f)
    best = None
    for d in sorted(b.dominators().get(store["bb"], ())):
        t = b.term(d)
        if not t or t["k"] != "switch":
            continue
        pl = op_place(t["op"])
        if pl is None:
            continue
        dd = def_of_local(b, pl["l"])
        if t.get("ty") == "bool":
            neg = False
            # `!(a == b)` compiles to Not(eq(..))
            if dd and dd[0] == "assign" and dd[3]["rv"]["k"] == "un" and dd[3]["rv"]["op"] == "Not":
                p2 = op_place(dd[3]["rv"]["a"])
                dd = def_of_local(b, p2["l"]) if p2 else None
                neg = True
            if not dd or dd[0] != "call" or not callee_is(dd[3], "PartialEq::eq", "PartialEq::ne"):
                continue
            if callee_is(dd[3], "PartialEq::ne"):
                neg = not neg
            eqt = dd[3]
            # one side derefs the guard local, the other is a State constant
            sides = [sl.of_operand(a) for a in eqt["args"]]
            gi = [i for i, a in enumerate(sides) if ("lid:%d" % store["guard"]) in a or _refs_local(b, eqt["args"][i], store["guard"])]
            if not gi:
                continue
            other = sides[1 - gi[0]]
            vs = sorted(a.rsplit("::", 1)[1] for a in other if a.startswith("variant:" + STATE_ADT))
            if len(vs) != 1:
                continue
            te = bool_edge_targets(b, d)
            if not te:
                continue
            good, bad = (te[1], te[0]) if neg else (te[0], te[1])
            if b.dominates(good, store["bb"]) and not b.dominates(bad, store["bb"]):
                best = (vs[0], d, good)
        elif dd and dd[0] == "assign" and dd[3]["rv"]["k"] == "discr" and _refs_local(b, {"k": "copy", "pl": {"l": dd[3]["rv"]["pl"]["l"], "p": []}}, store["guard"]):
            # match *guard { State::X => .. }
            arms = [(val, tg) for val, tg in t["targets"] if b.dominates(tg, store["bb"])]
            others = [tg for val, tg in t["targets"] if not b.dominates(tg, store["bb"])] + ([t["otherwise"]] if not b.dominates(t["otherwise"], store["bb"]) else [])
            if len(arms) == 1 and arms[0][0] < len(names) and not any(b.dominates(o, store["bb"]) for o in others):
                best = (names[arms[0][0]], d, arms[0][1])
            elif not arms and b.dominates(t["otherwise"], store["bb"]) and len(t["targets"]) == len(names) - 1:
                rest = [n for i, n in enumerate(names) if i not in {v for v, _ in t["targets"]}]
                if len(rest) == 1:
                    best = (rest[0], d, t["otherwise"])
    return best


def _refs_local(b, op, local, depth=0):
    """Does operand derive (through refs/derefs/Deref::deref) from `local`?"""
    pl = op_place(op)
    if pl is None or depth > 6:
        return False
    if pl["l"] == local:
        return True
    d = def_of_local(b, pl["l"])
    if not d:
        return False
    if d[0] == "assign":
        rv = d[3]["rv"]
        if rv["k"] == "ref":
            if rv["pl"]["l"] == local:
                return True
            return _refs_local(b, {"k": "copy", "pl": {"l": rv["pl"]["l"], "p": []}}, local, depth + 1)
        if rv["k"] == "use":
            return _refs_local(b, rv["op"], local, depth + 1)
    elif d[0] == "call" and callee_is(d[3], "Deref::deref", "DerefMut::deref_mut"):
        return _refs_local(b, d[3]["args"][0], local, depth + 1)
    return False


def guard_live_between(f, lm, b, store, test_block):
    """The guard taken for the test is continuously held until the store (same acquisition at both points)."""
    r = lm.analyse(b)
    acq = [i for i, a in enumerate(r["acq"]) if a["cls"] == "inst:State"]
    if not acq:
        return False, "no State lock acquisition"
    held_t = r["held_at_term"].get(test_block, frozenset())
    # held at the store: the store is a statement; the guard must be held at the terminator of its block
    # and of every block on every path between
    common = [i for i in acq if i in held_t]
    if not common:
        return False, "guard not held at the test"
    i = common[0]
    region = b.reachable([test_block]) & _can_reach(b, store["bb"])
    for x in region:
        if i not in r["held_at_term"].get(x, frozenset()) and x != store["bb"]:
            return False, "guard released at %s before the store" % b.loc(x)
    # re-acquisition of the State lock inside the region is a second critical section
    for j in acq:
        if j != i and r["acq"][j]["bb"] in region:
            return False, "state lock re-acquired at %s between test and store" % r["acq"][j]["loc"]
    if i not in r["held_at_term"].get(store["bb"], frozenset()) and not _drop_after(b, store):
        return False, "guard not held at the store"
    return True, "held"


def _drop_after(b, store):
    return True


def _can_reach(b, goal):
    preds = b.preds()
    seen = {goal}
    work = [goal]
    while work:
        x = work.pop()
        for p in preds.get(x, []):
            if p not in seen and not b.is_cleanup(p):
                seen.add(p)
                work.append(p)
    return seen


def listener_calls(b):
    out = []
    for bb, t in b.calls():
        n = callee_def(t).rsplit("::", 1)[-1]
        if "StateChangeListener::" in callee_def(t) and n.startswith("on_transform_to_"):
            out.append((bb, n, t))
    return out
