"""Thorough tier: run the property's mutant corpus on scratch copies of /repo (DESIGN §6).

mutants/<Cxx>/*.json:
  {"kind": "kill" | "neutral", "note": "...",
   "edits": [{"file": "sentinel-core/src/...", "find": "<exact text>", "replace": "<text>", "count": 1}],
   "expect": ["<substring of a violation key>", ...]        # kill: at least one reported key must contain one of these
  }
seeded/<id>/patch.diff with a meta.json "regression": [{"check": "Cxx", "expect": [...]}] entry is a kill mutant of Cxx given as a patch.
A kill mutant must be reported (by a key matching `expect`); a neutral variant and the unmodified copy must be silent.
A mutant whose `find` text is no longer present is *stale* (the code changed): counted and listed, it does not fail the run.
A surviving kill mutant or an alarming neutral variant is a regression of the machinery: exit 2 (no VIOLATION line).
Scratch copies live under a fresh mkdtemp outside /repo and /verif and are removed as soon as the mutant was analysed.
"""
import glob
import json
import os
import random
import shutil
import subprocess
import sys
import tempfile
import time

from . import extract as X

VERIF = X.VERIF


def load(prop):
    out = []
    for p in sorted(glob.glob(os.path.join(VERIF, "mutants", prop, "*.json"))):
        m = json.load(open(p))
        m["name"] = os.path.basename(p)[:-5]
        out.append(m)
    # seeded changes written by independent sub-agents (seeded/<id>/): patches instead of find/replace edits; a seed is part of the
    # corpus of every check listed in its meta.json "regression" entries
    for p in sorted(glob.glob(os.path.join(VERIF, "seeded", "*", "meta.json"))):
        meta = json.load(open(p))
        for r in meta.get("regression") or []:
            if r.get("check") == prop:
                out.append({"kind": "kill", "name": "seeded:" + meta["id"], "patch": os.path.join(os.path.dirname(p), "patch.diff"),
                            "expect": r.get("expect") or [""], "note": meta.get("summary")})
    # behaviour-preserving refactorings written by independent sub-agents (neutral/<group>/nK.diff): each must stay silent for the
    # properties of its group; the ones that still alarm are listed with the reason in neutral/INDEX.json and are not part of the corpus
    try:
        idx = json.load(open(os.path.join(VERIF, "neutral", "INDEX.json")))
    except OSError:
        idx = {}
    for key, e in sorted(idx.items()):
        if e.get("status") == "silent" and prop in e.get("props", []):
            out.append({"kind": "neutral", "name": "neutral:" + key, "patch": os.path.join(VERIF, "neutral", key + ".diff"), "note": "independent behaviour-preserving refactoring"})
    return out


def make_copy(repo):
    d = tempfile.mkdtemp(prefix="verif-mut-")
    subprocess.run(["rsync", "-a", "--exclude", "target", "--exclude", ".git", repo.rstrip("/") + "/", d + "/"], check=True)
    return d


def apply(d, m):
    if m.get("patch"):
        r = subprocess.run(["git", "apply", m["patch"]], cwd=d, capture_output=True, text=True)
        return r.returncode == 0
    for e in m["edits"]:
        p = os.path.join(d, e["file"])
        try:
            s = open(p).read()
        except OSError:
            return False
        if e["find"] not in s:
            return False
        s = s.replace(e["find"], e["replace"], e.get("count", 1))
        open(p, "w").write(s)
    return True


def run_check(prop, d, cache=None):
    fd, summ = tempfile.mkstemp(prefix="verif-summ-", suffix=".json")
    os.close(fd)
    env = dict(os.environ, VERIF_NO_EVIDENCE="1", VERIF_SUMMARY=summ, VERIF_TIER="quick")
    cmd = [sys.executable, os.path.join(VERIF, "check"), prop, "--tier", "quick", "--repo", d]
    if cache:
        cmd += ["--cache", cache]
    r = subprocess.run(cmd, env=env, capture_output=True, text=True)
    try:
        s = json.load(open(summ))
    except Exception:
        s = None
    os.unlink(summ)
    return r.returncode, s, r.stdout[-1500:]


def run(ctx):
    prop = ctx.prop
    ms = load(prop)
    rnd = random.Random(ctx.seed)
    rnd.shuffle(ms)
    res = {"killed": [], "survived": [], "neutral_silent": [], "neutral_alarmed": [], "stale": [], "build_failed": []}
    t0 = time.time()
    # the unmodified copy must be silent (apart from known findings)
    d = make_copy(ctx.repo)
    try:
        rc, s, out = run_check(prop, d)
    finally:
        shutil.rmtree(d, ignore_errors=True)
    base_keys = set((s or {}).get("new", []))
    if rc != 0 or base_keys:
        res["neutral_alarmed"].append({"name": "<unmodified copy>", "keys": sorted(base_keys), "rc": rc})
    else:
        res["neutral_silent"].append("<unmodified copy>")
    def one(m, cache):
        d = make_copy(ctx.repo)
        try:
            if not apply(d, m):
                return ("stale", m, None, None, "")
            rc, s, out = run_check(prop, d, cache)
        finally:
            shutil.rmtree(d, ignore_errors=True)
        return ("ran", m, rc, s, out)

    workers = max(1, min(int(os.environ.get("VERIF_MUTANT_WORKERS", "4")), len(ms)))
    results = []
    if workers <= 1:
        results = [one(m, None) for m in ms]
    else:
        # per-worker cache directories (own cargo target dir, seeded from the warm one) so that workers do not serialise on the
        # extraction lock; they live under a fresh mkdtemp and are removed at the end
        import concurrent.futures
        import queue
        base = tempfile.mkdtemp(prefix="verif-mutcache-")
        q = queue.Queue()
        try:
            for i in range(workers):
                c = os.path.join(base, "w%d" % i)
                os.makedirs(c)
                for tdir in ("target-core", "target-tower"):
                    src = os.path.join(X.CACHE, tdir)
                    if os.path.isdir(src):
                        subprocess.run(["cp", "-r", src, os.path.join(c, tdir)], check=False)
                q.put(c)

            def job(m):
                c = q.get()
                try:
                    return one(m, c)
                finally:
                    q.put(c)
            with concurrent.futures.ThreadPoolExecutor(max_workers=workers) as ex:
                results = list(ex.map(job, ms))
        finally:
            shutil.rmtree(base, ignore_errors=True)
    for kind, m, rc, s, out in results:
        if kind == "stale":
            res["stale"].append(m["name"])
            continue
        if rc == 2 or s is None:
            res["build_failed"].append({"name": m["name"], "tail": out[-300:]})
            continue
        keys = s.get("new", [])
        if m["kind"] == "kill":
            hit = [k for k in keys if any(e in k for e in m.get("expect", [""]))]
            if hit:
                res["killed"].append({"name": m["name"], "key": hit[0]})
            else:
                res["survived"].append({"name": m["name"], "reported": keys[:3], "expected": m.get("expect")})
        else:
            if keys:
                res["neutral_alarmed"].append({"name": m["name"], "keys": keys[:3]})
            else:
                res["neutral_silent"].append(m["name"])
    res["wall_s"] = round(time.time() - t0, 1)
    ctx.extra["mutant_corpus"] = {"mutants": len(ms), "killed": len(res["killed"]), "survived": res["survived"], "neutral_silent": len(res["neutral_silent"]),
                                  "neutral_alarmed": res["neutral_alarmed"], "stale": res["stale"], "build_failed": res["build_failed"], "wall_s": res["wall_s"],
                                  "killed_detail": res["killed"]}
    for k in res["killed"]:
        ctx.instance("mutant-corpus/kill", k["name"], "reported as " + k["key"], "reported", True, "scratch")
    for n in res["neutral_silent"]:
        ctx.instance("mutant-corpus/neutral", n, "silent", "silent", True, "scratch")
    bad = bool(res["survived"] or res["neutral_alarmed"] or res["build_failed"])
    if bad:
        print("mutant corpus for %s: survived=%s neutral_alarmed=%s build_failed=%s" % (prop, res["survived"], res["neutral_alarmed"], [b["name"] for b in res["build_failed"]]))
    else:
        print("mutant corpus for %s: %d killed, %d neutral/unmodified silent, %d stale, %.0fs" % (prop, len(res["killed"]), len(res["neutral_silent"]), len(res["stale"]), res["wall_s"]))
    return 1 if bad else 0
