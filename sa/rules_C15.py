"""C15 — concurrent rule updates and entries never deadlock, panic or poison a manager.

Decided (DESIGN §3 C15), over all std::sync locks of core-default and core-super:
  C15.order-cycle      the lock-order graph (held -> acquired, through the call graph incl. drop glue) has no cycle between
                       distinct lock classes (per-entry classes EntryContext / SentinelEntry are thread-confined and excluded, see below)
  C15.self-deadlock    no static lock is re-acquired while held on the same thread
  C15.callback         no user callback (rule generators, StateChangeListener methods, exit handlers) runs with a static manager lock
                       (or the breaker state lock) held that a public read-only manager function would take
  C15.sleep-under-lock no thread::sleep with any lock other than the entry's own context held
  C15.check-then-act   a map entry established under one critical section of a manager lock is not assumed (unwrap/index) under a
                       later, separately acquired one (A2)
  C15.panic-under-lock no non-poison panic site executes with a manager lock held in a manager function (A3 b)
"""
from collections import defaultdict

from .core import *
from .lockgraph import LockGraph
from . import panics

PER_ENTRY = {"inst:EntryContext": "the entry's own context: locked only by the thread that is building or exiting that entry",
             "inst:SentinelEntry": "the entry object: written only while SlotChain::entry runs for it (hook registration), read only by the thread exiting it"}

READONLY_FNS = ["get_rules", "get_rules_of_resource", "get_traffic_controller_list_for", "get_breakers_of_resource"]


def readonly_manager_fns(f):
    out = []
    for p, b in f.bodies.items():
        if b.kind == "Fn" and b.pub and b.name in READONLY_FNS and "rule_manager" in p:
            out.append(b)
    cs = f.one("BreakerBase::current_state")
    if cs is not None:
        out.append(cs)
    return out


def run(ctx):
    ctx.explanation = (
        "Lock-order analysis over MIR: every std::sync Mutex/RwLock acquisition is classified (static by path, instance by inner "
        "type), guard liveness is a forward dataflow over drop/move/StorageDead, `acquires(f)` is the least fixpoint over the call "
        "graph (class-hierarchy resolution of dyn calls, drop glue of types reaching `impl Drop for BreakerBase`, EXTERNAL nodes for "
        "user callbacks); edges held->acquired are collected at every acquisition and call site. Verdicts: cycles between distinct "
        "classes, re-acquisition of a static, callbacks and sleeps under locks, check-then-act across critical sections, panic sites "
        "under manager locks.")
    ctx.not_decided = "liveness problems that are not lock cycles (e.g. a callback that never returns); atomics; OS-level blocking."
    ctx.assumptions = ["all locking goes through std::sync (checked: no other lock type is used)",
                       "instance locks are conflated per inner type; per-entry classes are excluded from cycles with the stated reason",
                       "RwLock read acquisitions are treated as blocking (std does not guarantee recursive reads)"]
    cfgs = ["core-default", "core-super"]
    for cfg in cfgs:
        f = ctx.facts(cfg)
        g = LockGraph(f)
        g.build()
        classes = sorted({c for e in g.edges for c in e})
        ctx.extra.setdefault("lock_classes", {})[cfg] = classes
        ctx.extra.setdefault("lock_edges", {})[cfg] = len(g.edges)
        cycles(ctx, f, g, cfg)
        self_edges(ctx, f, g, cfg)
        callbacks(ctx, f, g, cfg)
        sleeps(ctx, f, g, cfg)
        n_static = len([c for c in classes if c.startswith("static:")])
        ctx.floor("C15.anchor", "static lock classes in %s" % cfg, n_static, 15)
        panics.check_then_act(ctx, f, g, cfg, "C15")
        panics.panic_under_lock(ctx, f, g, cfg, "C15")


def cycles(ctx, f, g, cfg):
    E = defaultdict(set)
    for (a, b) in g.edges:
        if a != b and a not in PER_ENTRY and b not in PER_ENTRY:
            # try_lock never waits: it cannot close a wait-for cycle
            if any(w["inner"][2] for w in g.edges[(a, b)]):
                E[a].add(b)
    # simple cycles up to length 4 (canonical rotation)
    seen = set()
    found = []

    def dfs(start, cur, path):
        for nx in sorted(E.get(cur, ())):
            if nx == start and len(path) >= 2:
                cyc = tuple(path)
                i = cyc.index(min(cyc))
                canon = cyc[i:] + cyc[:i]
                if canon not in seen:
                    seen.add(canon)
                    found.append(canon)
            elif nx not in path and len(path) < 4 and nx > start:
                dfs(start, nx, path + [nx])
    for s in sorted(E):
        dfs(s, s, [s])
    n_pairs = sum(len(v) for v in E.values())
    ctx.instance("C15.order-cycle", "lock-order graph [%s]" % cfg, {"classes": len(E), "edges": n_pairs, "cycles": [" -> ".join(c) for c in found]},
                 "acyclic", not found, cfg)
    for cyc in found:
        wit = []
        for i, a in enumerate(cyc):
            b = cyc[(i + 1) % len(cyc)]
            w = g.edges[(a, b)][0]
            wit.append("%s -> %s:" % (a, b))
            wit.extend("    " + x for x in g.witness(w))
        ctx.violation("C15.order-cycle", "C15.order-cycle|" + "|".join(cyc),
                      "lock-order cycle (potential deadlock): " + " -> ".join(cyc + (cyc[0],)), None, wit, config=cfg)
    # per-entry classes: reported, not gated
    sup = sorted({(a, b) for (a, b) in g.edges if a != b and (a in PER_ENTRY or b in PER_ENTRY) and (b, a) in g.edges})
    ctx.extra.setdefault("per_entry_pairs_not_gated", {})[cfg] = [{"pair": p, "reason": PER_ENTRY.get(p[0]) or PER_ENTRY.get(p[1])} for p in sup]


def self_edges(ctx, f, g, cfg):
    n = 0
    for (a, b), ws in sorted(g.edges.items()):
        if a != b or not (a.startswith("static:") or a == "inst:State"):
            continue
        for w in ws:
            if not w["inner"][2]:
                continue
            n += 1
            fn = w["body"].path.replace("core::", "", 1)
            ctx.violation("C15.self-deadlock", "C15.self-deadlock|%s|%s" % (a, fn),
                          "%s is acquired again while already held by the same thread (std locks are not re-entrant)" % a,
                          w["body"].loc(w["bb"]), g.witness(w), config=cfg)
    ctx.instance("C15.self-deadlock", "statics + breaker state [%s]" % cfg, "re-acquisitions: %d" % n, "0", n == 0, cfg)


def _public_holder(f, path):
    """The function a finding is keyed by: the public / trait-role function that holds the lock across the callback.  A closure is
    named after the function it is written in, a private helper after its (single) caller - so that moving the code into a helper or
    renumbering closures does not create a "new" finding, while a new public holder still does."""
    from . import inline
    import re as _re
    is_clo = False
    for _ in range(5):
        b = f.bodies.get(path)
        if b is None:
            break
        if b.kind == "Closure":
            is_clo = True
            path = b.root or _re.sub(r"(::\{closure#\d+\})+$", "", path)
            continue
        if inline.default_policy(f, b, b):
            cs = {(f.bodies[cb.path].root or cb.path) if cb.kind == "Closure" else cb.path for cb, bb, t in f.callers_of(path)}
            if len(cs) == 1:
                path = next(iter(cs))
                continue
        break
    return path + ("::{closure}" if is_clo else "")


def callbacks(ctx, f, g, cfg):
    acq = g.acquires()
    ro = readonly_manager_fns(f)
    ctx.floor("C15.callback", "public read-only manager functions", len(ro), 10)
    ro_locks = {}
    for b in ro:
        # the locks the read-only function itself takes (drop glue of the values it returns is the caller's business)
        ro_locks[b.path] = {(a["cls"], a["mode"], a["waits"]) for a in g.lm.analyse(b)["acq"]}
    seen_sites = 0
    reported = {}
    for s in g.ext_sites:
        held = {h["cls"]: h for h in s["held"]}
        shared = {c: h for c, h in held.items() if c.startswith("static:") or c == "inst:State"}
        if not shared:
            continue
        seen_sites += 1
        holder = _public_holder(f, s["body"].path).replace("core::", "", 1)
        for cls in sorted(shared):
            blockers = sorted(rp.replace("core::", "", 1) for rp, locks in ro_locks.items() if any(c == cls and waits for (c, mode, waits) in locks))
            if not blockers:
                continue
            # one finding per (callback, lock, function that holds the lock across the callback)
            key = "C15.callback|%s|%s|%s" % (s["ext"], cls, holder)
            if key in reported:
                continue
            reported[key] = blockers
            hm = shared[cls]["mode"]
            chain = s["chain"] or ([holder + " (holding %s; call at %s)" % (cls, s["body"].loc(s["bb"]))] + g.why(s["via"], s["item"]))
            ctx.violation("C15.callback", key,
                          "user callback `%s` runs with %s held (%s) by %s; if it calls %s, which take%s that lock, the thread blocks on itself" % (
                              s["ext"], cls, hm, holder, ", ".join(blockers), "s" if len(blockers) == 1 else ""),
                          s["body"].loc(s["bb"]), chain, config=cfg)
    ctx.instance("C15.callback", "callback sites under shared locks [%s]" % cfg, {"sites": seen_sites, "findings": len(reported)}, "0 findings", not reported, cfg)


def sleeps(ctx, f, g, cfg):
    bad = []
    for s in g.sleep_sites:
        others = sorted({h["cls"] for h in s["held"]} - {"inst:EntryContext"})
        if others:
            bad.append((s, others))
    ctx.instance("C15.sleep-under-lock", "sleep sites [%s]" % cfg, {"sites_with_locks": len(g.sleep_sites), "with_shared_locks": len(bad)}, "only the entry's own context may be held", not bad, cfg)
    for s, others in bad:
        ctx.violation("C15.sleep-under-lock", "C15.sleep-under-lock|%s|%s" % (s["body"].path.replace("core::", "", 1), ",".join(others)),
                      "thread::sleep is reachable with %s held" % others, s["body"].loc(s["bb"]), config=cfg)
