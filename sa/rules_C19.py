"""C19 — metric log: written items can be searched back; a torn tail loses one line (structural part, core-super).

Decided (DESIGN §3 C19):
  C19.index-record   the index record written by the writer (u64 BE second, u64 BE offset, in that order) is what the searcher decodes
                     (two read_u64::<BigEndian> per record: first the second, then the offset)
  C19.write-order    in DefaultMetricLogWriter::write: the index entry of a new second is written (and flushed) before that second's
                     lines; its offset is the current end of the metric file; every line is followed by a flush before Ok;
                     latest_op_sec advances only after the lines were written
  C19.reader-accumulates  both per-file readers return, on every Ok path, the vector into which the parsed items were pushed
                     (sibling agreement; a fresh empty vector on some path drops everything read so far)
  C19.torn-line      a line that does not parse is skipped (logged), never propagated as an error and never unwrapped
  C19.no-panic       A3 from the two search entry points
"""
from .core import *
from .lockgraph import LockGraph
from .panics import PanicSites, table_row, site_atoms, _origin_key


def run(ctx):
    ctx.explanation = (
        "Writer/reader agreement of the binary index record (callee sequence, operand origins, endianness type argument); "
        "must-pass-through / dominance rules inside the writer's write(); return-value provenance of the two per-file readers (the value "
        "returned on every Ok path is the accumulator that received the pushes); shape of the malformed-line arm; panic reachability "
        "from the two search calls.")
    ctx.not_decided = ("retrieval across roll-overs and retention, and the crash-prefix claim: they quantify over file-system histories and byte "
                       "offsets; no sound static argument in reach bounds them.")
    ctx.assumptions = ["std::io::Write::flush pushes the bytes to the OS in program order"]
    cfg = "core-super"
    f = ctx.facts(cfg)
    index_record(ctx, f, cfg)
    write_order(ctx, f, cfg)
    readers(ctx, f, cfg)
    line_source(ctx, f, cfg)
    offset_found(ctx, f, cfg)
    cache_file(ctx, f, cfg)
    file_order(ctx, f, cfg)
    retention_order(ctx, f, cfg)
    next_name(ctx, f, cfg)
    cache_offset(ctx, f, cfg)
    cache_validation(ctx, f, cfg)
    undecodable_line(ctx, f, cfg)
    roll_before_index(ctx, f, cfg)
    no_panic(ctx, f, cfg)


def index_record(ctx, f, cfg):
    wi = f.one("DefaultMetricLogWriter::write_index")
    fo = f.one("DefaultMetricSearcher::find_offset_to_start")
    if not ctx.floor("C19.index-record", "write_index + find_offset_to_start", (1 if wi else 0) + (1 if fo else 0), 2):
        return
    sl = Slicer(f, wi)
    seq = []
    for bb, t in sorted(wi.calls(), key=lambda x: _order(wi, x[0])):
        if callee_def(t).endswith("write_all"):
            a = sl.of_operand(t["args"][1])
            be = any(x.startswith("call:") and x.endswith("to_be_bytes") for x in a)
            le = any(x.startswith("call:") and x.endswith(("to_le_bytes", "to_ne_bytes")) for x in a)
            ps = sorted(x[6:] for x in a if x.startswith("param:") and x != "param:self")
            seq.append(("be" if be and not le else "other", ps))
    wform = [(e, p) for e, p in seq]
    okw = wform == [("be", ["time"]), ("be", ["offset"])]
    # parameter types u64
    fn = f.fns.get(wi.path, {})
    okt = fn.get("inputs", [None, None, None])[1:] == ["u64", "u64"]
    flushed = any(callee_def(t).endswith("::flush") for _, t in wi.calls())
    ctx.instance("C19.index-record/writer", wi.path, {"writes": wform, "param_types": fn.get("inputs"), "flushes": flushed}, "[BE(time: u64), BE(offset: u64)] then flush", okw and okt and flushed, cfg)
    if not (okw and okt and flushed):
        ctx.violation("C19.index-record", "C19.index-record|writer", "the index record is not written as (second, offset), both u64 big-endian, followed by a flush: %s" % wform, wi.loc(), config=cfg)
    # reader
    sr = Slicer(f, fo)
    reads = []
    for bb, t in fo.calls():
        if callee_def(t).endswith("read_u64"):
            ta = " ".join(t["callee"].get("targs") or [])
            reads.append((bb, "BigEndian" in ta, t["dest"]["l"]))
    ok = len(reads) == 2 and all(r[1] for r in reads)
    roles = {}
    if ok:
        # first read feeds the comparison with begin_sec; second feeds the returned offset
        for bb, _, dest in reads:
            used_in_cmp = False
            for blk in fo.blocks:
                for s in blk["stmts"]:
                    if s["k"] == "assign" and s["rv"]["k"] == "bin" and s["rv"]["op"] in ("Ge", "Gt", "Lt", "Le"):
                        a = sr.of_operand(s["rv"]["a"]) | sr.of_operand(s["rv"]["b"])
                        if any_atom(a, "param:begin_time_ms") or any("begin" in x for x in a if x.startswith("local:")):
                            aa = sr.of_operand(s["rv"]["a"])
                            # which read feeds this comparison? follow through the Result match
                            if _fed_by(fo, s["rv"]["a"], bb) or _fed_by(fo, s["rv"]["b"], bb):
                                used_in_cmp = True
            roles[bb] = "second" if used_in_cmp else "offset"
        order = [roles[r[0]] for r in sorted(reads, key=lambda r: _order(fo, r[0]))]
        ok = order == ["second", "offset"]
        ret = sr.of_local(0)
        ok = ok and any(x.startswith("call:") and x.endswith("read_u64") for x in ret)
    ctx.instance("C19.index-record/reader", fo.path, {"read_u64_sites": len(reads), "all_big_endian": all(r[1] for r in reads), "order": [roles.get(r[0]) for r in sorted(reads, key=lambda r: _order(fo, r[0]))]},
                 "per record: read_u64::<BigEndian> (second) then read_u64::<BigEndian> (offset); the offset is what is returned", ok, cfg)
    if not ok:
        ctx.violation("C19.index-record", "C19.index-record|reader", "the searcher does not decode the index as (second: u64 BE, offset: u64 BE)", fo.loc(), config=cfg)


def _order(b, bb):
    """Topological-ish position: length of the shortest path from entry."""
    p = b.find_path([0], [bb])
    return len(p) if p else 10 ** 6


def _fed_by(b, op, call_bb, depth=0, seen=None):
    seen = seen or set()
    pl = op_place(op)
    if pl is None or depth > 14 or pl["l"] in seen:
        return False
    seen.add(pl["l"])
    for kind, bi, si, node, projs in b.defs().get(pl["l"], []):
        if kind == "call":
            if bi == call_bb:
                return True
            if any(_fed_by(b, a, call_bb, depth + 1, seen) for a in node["args"]):
                return True
        else:
            rv = node["rv"]
            for key in ("op", "a", "b"):
                if key in rv and isinstance(rv[key], dict) and _fed_by(b, rv[key], call_bb, depth + 1, seen):
                    return True
            if rv["k"] in ("ref", "discr") and _fed_by(b, {"k": "copy", "pl": rv["pl"]}, call_bb, depth + 1, seen):
                return True
    return False


def write_order(ctx, f, cfg):
    ws = [b for b in f.impl_methods("MetricLogWriter", "write") if "DefaultMetricLogWriter" in (b.impl_self or "")]
    if not ctx.floor("C19.write-order", "impl MetricLogWriter::write for DefaultMetricLogWriter", len(ws), 1):
        return
    b = ws[0]
    sl = Slicer(f, b)
    idx = call_or_inlined(b, "write_index")
    items = call_or_inlined(b, "write_items_and_flush")
    ok = len(idx) == 1 and len(items) == 1
    detail = {"write_index_sites": len(idx), "write_items_sites": len(items)}
    if ok:
        # index before items on every path that writes an index; never items -> index
        detail["index_then_items"] = items[0] in b.reachable(b.succs(idx[0])) and idx[0] not in b.reachable(b.succs(items[0]))
        # an Err from write_index returns before the lines are written
        iargs = site_args(b, idx[0])
        idest = site_dest(b, idx[0])
        # the lines are written only on the success edge of the index write (`?`, match, if-let, is_ok alike)
        detail["index_error_propagated"] = ok_edge_dominates(f, b, items[0], "call:write_index", sl=sl) or \
            any(callee_is(t2, "Try::branch") and op_place(t2["args"][0]) and op_place(t2["args"][0])["l"] == idest for _, t2 in b.calls())
        # index written only for a newer second
        guarded = False
        for d in b.dominators()[idx[0]]:
            tt = b.term(d)
            if tt and tt["k"] == "switch":
                a = sl.of_operand(tt["op"])
                if ("op:Gt" in a or "op:Lt" in a or any_atom(a, "call:Ord::cmp") or any_atom(a, "call:PartialOrd::partial_cmp")) and any_atom(a, "field:DefaultMetricLogWriter.latest_op_sec") and any_atom(a, "param:ts"):
                    guarded = True
        detail["index_only_for_new_second"] = guarded
        # offset = current position of the metric file
        a = sl.of_operand(iargs[2]) if len(iargs) > 2 else set()
        detail["offset_is_file_position"] = any(x.startswith("call:") and x.endswith("::seek") for x in a) and any_atom(a, "field:DefaultMetricLogWriter.cur_metric_file") and any_atom(a, "variant:SeekFrom::Current")
        a1 = sl.of_operand(iargs[1]) if len(iargs) > 1 else set()
        detail["second_from_ts"] = any_atom(a1, "param:ts") and "op:Div" in a1
        # latest_op_sec store after the lines
        stores = [bi for bi, blk in enumerate(b.blocks) if not blk["cleanup"] for s in blk["stmts"] if s["k"] == "assign" and any(p.endswith("DefaultMetricLogWriter.latest_op_sec") for p in s["lhs"]["p"])]
        detail["latest_op_sec_after_lines"] = bool(stores) and all(b.dominates(items[0], x) for x in stores)
        ok = all(v for k, v in detail.items() if isinstance(v, bool))
    ctx.instance("C19.write-order", b.path, detail, "index(second, end-of-file) flushed -> lines flushed -> latest_op_sec", ok, cfg)
    if not ok:
        bad = [k for k, v in detail.items() if v is False]
        ctx.violation("C19.write-order", "C19.write-order|" + ",".join(bad or ["sites"]), "the writer does not issue index entry, lines and bookkeeping in the order the searcher relies on: %s" % detail, b.loc(), config=cfg)
    wf = f.one("DefaultMetricLogWriter::write_items_and_flush")
    if wf is not None:
        wa = [bb for bb, t in wf.calls() if callee_def(t).endswith("write_all")]
        fl = [bb for bb, t in wf.calls() if callee_def(t).endswith("::flush")]
        okf = bool(wa) and bool(fl)
        # every path from a write_all to an Ok return passes a flush
        okb = []
        for blk_i, blk in enumerate(wf.blocks):
            for s in blk["stmts"]:
                if s["k"] == "assign" and s["lhs"]["l"] == 0 and not s["lhs"]["p"] and s["rv"]["k"] == "agg" and s["rv"].get("variant") == "Ok":
                    okb.append(blk_i)
        w = must_pass(wf, wa, okb, fl) if okf else [0]
        ctx.instance("C19.write-order/flush", wf.path, {"write_all": len(wa), "flush": len(fl), "ok_without_flush": fmt_path(wf, w) if w else None}, "no Ok without a flush after the last write", w is None, cfg)
        if w:
            ctx.violation("C19.write-order", "C19.write-order|lines-not-flushed", "lines can be reported written (Ok) without being flushed", wf.loc(), config=cfg)
        # lines end with LF
        def _is_lf(op):
            if not isinstance(op, dict) or op.get("k") != "const":
                return False
            return op.get("text", "").strip('"') in ("\\n", "\n") or (op.get("ty") == "char" and op.get("val") == 10) or op.get("text", "") in ("'\\n'", "'\n'")
        lf = any(_is_lf(s["rv"]["op"]) for blk in wf.blocks for s in blk["stmts"] if s["k"] == "assign" and s["rv"]["k"] == "use") or \
            any(_is_lf(a) for _, t in wf.calls() for a in t["args"])      # "\n" appended as a str constant, or '\n' pushed as a char
        ctx.instance("C19.write-order/lf", wf.path, "each item is written as item.to_string() + LF: %s" % lf, "true", lf, cfg)
        if not lf:
            ctx.violation("C19.write-order", "C19.write-order|no-lf", "lines are not LF-terminated (the reader splits on LF)", wf.loc(), config=cfg)


def readers(ctx, f, cfg):
    rs = [b for p, b in f.bodies.items() if "DefaultMetricLogReader::read_metrics" in p and b.kind == "AssocFn" and "bool)" in b.ret_ty]
    if not ctx.floor("C19.reader-accumulates", "per-file readers (fn -> Result<(Vec<MetricItem>, bool)>)", len(rs), 2):
        return
    for b in rs:
        sl = Slicer(f, b)
        acc = set()
        for bb, t in b.calls():
            if callee_def(t).rsplit("::", 1)[-1] == "push":
                acc |= {x for x in sl.of_operand(t["args"][0]) if x.startswith("lid:")}
        rets = []
        for bi, blk in enumerate(b.blocks):
            if blk["cleanup"]:
                continue
            for s in blk["stmts"]:
                if s["k"] == "assign" and s["rv"]["k"] == "agg" and s["rv"].get("tuple") and len(s["rv"]["ops"]) == 2:
                    ty0 = b.local_ty(op_place(s["rv"]["ops"][0])["l"]) if op_place(s["rv"]["ops"][0]) else ""
                    if "Vec<" in ty0:
                        a = sl.of_operand(s["rv"]["ops"][0])
                        is_acc = bool(acc & {x for x in a if x.startswith("lid:")})
                        fresh = any(x.startswith("call:") and x.endswith(("Vec::<T>::new", "Vec::<T>::with_capacity")) for x in a) and not is_acc
                        # a fresh vector is fine only if no push can precede it
                        after_push = any(bi in b.reachable([pb]) for pb, t in b.calls() if callee_def(t).rsplit("::", 1)[-1] == "push")
                        in_loop_after = after_push or b.in_loop(bi)
                        rets.append({"at": b.loc(bi), "returns_accumulator": is_acc, "fresh_vector": fresh, "reachable_after_push": in_loop_after})
        bad = [r for r in rets if not r["returns_accumulator"] and r["reachable_after_push"]]
        ok = bool(rets) and not bad and bool(acc)
        ctx.instance("C19.reader-accumulates", b.path, {"returns": rets, "accumulator_locals": sorted(acc)}, "every Ok((v, _)) returns the vector that received the pushes", ok, cfg)
        if not ok:
            ctx.violation("C19.reader-accumulates", "C19.reader-accumulates|" + b.path.rsplit("::", 1)[-1],
                          "%s returns a fresh empty vector on a path that may follow pushes (%s): the items read so far are dropped" % (b.path.rsplit("::", 1)[-1], [r["at"] for r in bad]),
                          b.loc(), config=cfg)
        # malformed line: Err arm of from_string goes back to the loop
        fs = [(bb, t) for bb, t in b.calls() if callee_is(t, "MetricItem::from_string")]
        okm = bool(fs)
        for bb, t in fs:
            dest = t["dest"]["l"]
            prop = any(callee_is(t2, "Try::branch") and op_place(t2["args"][0]) and op_place(t2["args"][0])["l"] == dest for _, t2 in b.calls())
            unwrapped = any(callee_def(t2).endswith("::unwrap") and op_place(t2["args"][0]) and op_place(t2["args"][0])["l"] == dest for _, t2 in b.calls())
            okm = okm and not prop and not unwrapped
        ctx.instance("C19.torn-line", b.path, {"from_string_sites": len(fs), "skipped_not_propagated": okm}, "Err(line) -> log and continue", okm, cfg)
        if not okm:
            ctx.violation("C19.torn-line", "C19.torn-line|" + b.path.rsplit("::", 1)[-1], "a malformed (torn) line aborts the search or is unwrapped", b.loc(), config=cfg)


# ---- rules added after the second seeded batch / D17-D20 -------------------------------------------------------------------------------
from . import decision as D
from .decrules import make_classifier


def _implied_rel(lits, a, b):
    """Set of orderings of (a, b) in '<=>' consistent with the cmp literals of a path (None if the pair is never compared)."""
    cons = []
    for l in lits:
        want = True
        if l[0] == "not":
            l, want = l[1], False
        if l[0] == "cmp" and {l[2], l[3]} == {a, b}:
            sym = l[1] if (l[2], l[3]) == (a, b) else D.FLIP[l[1]]
            cons.append((sym, want))
    if not cons:
        return None
    out = set()
    for r in "<=>":
        if all({"<": r == "<", "<=": r in "<=", ">": r == ">", ">=": r in ">=", "==": r == "=", "!=": r != "="}[sym] == want for sym, want in cons):
            out.add(r)
    return out


def _feasible(p):
    return not any(l == ("const", False) for l in p["lits"])


def _returns_variant(b, p, variant):
    return any(st["k"] == "assign" and st["lhs"]["l"] == 0 and not st["lhs"]["p"] and st["rv"]["k"] == "agg" and st["rv"].get("variant") == variant
               for x in p["blocks"] for st in b.blocks[x]["stmts"])


def line_source(ctx, f, cfg):
    """Both per-file readers hand MetricItem::from_string a line WITHOUT its terminator (the last field is numeric: a trailing LF makes
    every line unparsable and the reader silently skips all of them).  `lines()` strips it; a buffer filled by read_line must be trimmed."""
    rs = [b for p, b in f.bodies.items() if "DefaultMetricLogReader::read_metrics" in p and b.kind == "AssocFn" and "bool)" in b.ret_ty]
    TRIM = ("trim_end_matches", "trim_end", "trim", "strip_suffix", "trim_matches", "trim_right", "trim_right_matches")
    for b in rs:
        b = f.view(b)        # a private "strip the terminator" helper is part of the reader
        sl = Slicer(f, b)
        uses_read_line = any(callee_def(t).rsplit("::", 1)[-1] in ("read_line", "read_until", "read_to_string") for _, t in b.calls())
        for bb, t in b.calls():
            if not callee_is(t, "MetricItem::from_string"):
                continue
            at = sl.of_operand(t["args"][0])
            from_lines = any(x.startswith("call:") and "Lines" in x and x.endswith("::next") for x in at)
            trimmed = any(x.startswith("call:") and x.rsplit("::", 1)[-1] in TRIM for x in at)
            ok = (from_lines and not uses_read_line) or trimmed
            ctx.instance("C19.line-source", b.path, {"line_from_lines()": from_lines, "buffer_filled_by_read_line": uses_read_line, "terminator_trimmed": trimmed},
                         "the parsed text carries no line terminator", ok, cfg)
            if not ok:
                ctx.violation("C19.line-source", "C19.line-source|" + b.path.rsplit("::", 1)[-1],
                              "%s parses lines that still carry their terminator (read_line keeps it): every line fails to parse and is skipped, the search returns nothing" % b.path.rsplit("::", 1)[-1],
                              b.loc(bb), config=cfg)


def offset_found(ctx, f, cfg):
    """find_offset_to_start answers Ok(offset) only for an index entry whose second is >= the begin second; when the file has no such
    entry it must say so (Err), so that the search moves on to the next file instead of reading this one from its last second."""
    b = f.one("DefaultMetricSearcher::find_offset_to_start")
    if not ctx.floor("C19.offset-found", "find_offset_to_start", 1 if b else 0, 1):
        return
    roles = [("begin", ["param:begin_time_ms"], []), ("entry", ["call:read_u64"], ["param:begin_time_ms"]), ("entry", ["call:from_be_bytes"], ["param:begin_time_ms"])]
    w = D.Walker(f, b, make_classifier(roles), unroll=2)
    paths = [p for p in w.walk(0, lambda bb, env: None) if p["outcome"][0] == "return" and _feasible(p)]
    n_ok = n_found = 0
    bad = []
    for p in paths:
        if not _returns_variant(b, p, "Ok"):
            continue
        n_ok += 1
        rel = _implied_rel(p["lits"], "begin", "entry")
        # the LAST comparison on the path decides: collect only the final literal about (begin, entry)
        last = None
        for l in p["lits"]:
            base = l[1] if l[0] == "not" else l
            if base[0] == "cmp" and {base[2], base[3]} == {"begin", "entry"}:
                last = l
        lrel = _implied_rel([last], "begin", "entry") if last else None
        if lrel is not None and lrel <= set("<="):
            n_found += 1
        else:
            bad.append([D.fmt_expr(l) if hasattr(D, "fmt_expr") else str(l) for l in p["lits"] if (l[1] if l[0] == "not" else l)[0] in ("cmp", "disc", "disc_other") and "other:" not in str(l)][-4:])
    ok = n_found >= 1 and not bad
    ctx.instance("C19.offset-found", b.path, {"ok_paths": n_ok, "ok_paths_after_entry>=begin": n_found, "ok_paths_without_a_matching_entry": bad[:3]},
                 "Ok(offset) only after an index entry with second >= begin second", ok, cfg)
    if not ok:
        ctx.violation("C19.offset-found", "C19.offset-found|find_offset_to_start",
                      "find_offset_to_start returns Ok(offset) although no index entry at or after the begin second was found (%s): a query that begins in a later file reads this file from its last second and returns nothing" % (bad[:1] or "no matching-entry path recognised"),
                      b.loc(), config=cfg)


def cache_file(ctx, f, cfg):
    """get_offset_start_and_file_idx: the start file taken from the cache is the cached file itself (equality with the cached name)."""
    b = f.one("DefaultMetricSearcher::get_offset_start_and_file_idx")
    if not ctx.floor("C19.cache-file", "get_offset_start_and_file_idx", 1 if b else 0, 1):
        return
    sl = Slicer(f, b)
    roles = [("cached", ["field:FilePosition.metric_filename"], []), ("file", ["call:Iterator::next"], ["field:FilePosition.metric_filename"])]
    base_cls = make_classifier(roles)

    def cls_(atoms, op=None):
        r = base_cls(atoms, op)
        # `filenames.iter().position(|v| v == &cached.metric_filename)`: the closure's element is a file of the listing as well
        if r.startswith("other:") and any(x.startswith("call:") and x.endswith("::iter") for x in atoms) and any(x.startswith("param:") and x != "param:self" for x in atoms) \
                and not any_atom(atoms, "field:FilePosition.metric_filename"):
            return "file"
        return r
    w = D.Walker(f, b, cls_, unroll=1)
    # blocks that store the chosen file index (a user variable fed by the enumerate() index)
    stores = set()
    # the locals returned in the (offset, file index) tuple
    returned = set()
    for blk in b.blocks:
        for st in blk["stmts"]:
            if st["k"] == "assign" and st["rv"]["k"] == "agg" and st["rv"].get("tuple") and len(st["rv"]["ops"]) == 2:
                for o in st["rv"]["ops"]:
                    pl = op_place(o)
                    while pl is not None and not b.vname(pl["l"]):
                        d = def_of_local(b, pl["l"])
                        pl = op_place(d[3]["rv"]["op"]) if d and d[0] == "assign" and d[3]["rv"]["k"] == "use" else None
                    if pl is not None:
                        returned.add(pl["l"])
    for bi, blk in enumerate(b.blocks):
        if blk["cleanup"]:
            continue
        for st in blk["stmts"]:
            if st["k"] == "assign" and not st["lhs"]["p"] and st["lhs"]["l"] in returned and b.local_ty(st["lhs"]["l"]) == "usize" and st["rv"]["k"] == "use":
                at = sl.of_operand(st["rv"]["op"])
                if any(x.startswith("call:") and x.endswith("::next") for x in at) and any_atom(at, "call:Iterator::enumerate"):
                    stores.add(bi)
                # ... or by the index `position` found, counted from the front of the whole listing
                elif any_atom(at, "call:Iterator::position") and not any(x.startswith("call:") and x.rsplit("::", 1)[-1] in ("rev", "skip", "skip_while", "filter", "step_by", "rposition") for x in at):
                    stores.add(bi)
    paths = [p for p in w.walk(0, lambda bb, env: None) if _feasible(p)]
    n = 0
    bad = []
    for p in paths:
        if not (set(p["blocks"]) & stores):
            continue
        n += 1
        rel = _implied_rel(p["lits"], "cached", "file")
        if rel != {"="}:
            bad.append(sorted(rel) if rel else "not compared")
    ok = bool(stores) and n >= 1 and not bad
    ctx.instance("C19.cache-file", b.path, {"index_store_sites": len(stores), "paths_storing": n, "not_under_equality": bad[:3]}, "file index taken only where file == cached file", ok, cfg)
    if not ok:
        ctx.violation("C19.cache-file", "C19.cache-file|get_offset_start_and_file_idx",
                      "the cached position selects a file that is not the cached one (relation %s): a reused searcher skips files that contain the requested seconds" % (bad[:1] or "no store found"), b.loc(), config=cfg)


def file_order(ctx, f, cfg):
    """Files of one day are ordered by their NUMBER: a plain text comparison puts .10 before .2, so after ten roll-overs the writer
    re-creates (truncates) an existing file, retention deletes the newest files and the searcher reads files out of write order."""
    b = f.one("metric::filename_comparator")
    if not ctx.floor("C19.file-order", "filename_comparator", 1 if b else 0, 1):
        return
    sl = Slicer(f, b)
    at = sl.of_local(0)
    numeric = sorted(x for x in at if x.startswith("call:") and x.rsplit("::", 1)[-1] in ("len", "parse", "from_str", "from_str_radix"))
    ctx.instance("C19.file-order", b.path, {"number_aware_components": [short_(x) for x in numeric]}, "the tie-break on the same date compares lengths or parsed numbers", bool(numeric), cfg)
    if not numeric:
        ctx.violation("C19.file-order", "C19.file-order|text-compare", "files of one day are ordered by text comparison only (.10 sorts before .2)", b.loc(), config=cfg)
    # everyone who relies on the order sorts with this comparator
    users = 0
    cmp_path = f.raw(b).path
    for p_, lb in f.bodies.items():
        if "log::metric" not in p_:
            continue
        for bb, t in lb.calls():
            if callee_def(t).rsplit("::", 1)[-1] in ("sort_by", "sort_unstable_by") and any(a.get("k") == "const" and (a.get("fn") or a.get("text") or "").endswith(cmp_path.rsplit("::", 1)[-1]) for a in t["args"]) \
                    and "PathBuf" in (t.get("arg_tys") or [""])[0]:
                users += 1
    ctx.instance("C19.file-order/users", "list_metric_files_conditional", {"sorted_with_comparator": users}, ">= 1", users >= 1, cfg)
    if users < 1:
        ctx.violation("C19.file-order", "C19.file-order|listing-unsorted", "the file listing the writer and the searcher rely on is not sorted with filename_comparator", config=cfg)


def short_(x):
    return x.split(":", 1)[1].rsplit("::", 2)[-2] + "::" + x.rsplit("::", 1)[-1] if x.count("::") >= 2 else x


def retention_order(ctx, f, cfg):
    """Retention removes len - max + 1 files, i.e. it leaves room for the file about to be created: pruning with that formula has to
    run BEFORE the creation (after it, one file too many - the oldest still inside the limit - is deleted)."""
    rm = f.one("DefaultMetricLogWriter::remove_deprecated_files")
    cl = f.one("DefaultMetricLogWriter::close_cur_and_new_file")
    if not ctx.floor("C19.retention-order", "remove_deprecated_files + close_cur_and_new_file", (1 if rm else 0) + (1 if cl else 0), 2):
        return
    sl = Slicer(f, rm)
    room = None
    for bb, t in rm.calls():
        if callee_def(t).rsplit("::", 1)[-1] == "take" and len(t["args"]) == 2:
            at = sl.of_operand(t["args"][1])
            room = ("const:1" in at and any(x in at for x in ("op:Add", "op:AddWithOverflow"))) and any_atom(at, "field:DefaultMetricLogWriter.max_file_amount")
    prune = call_or_inlined(cl, "remove_deprecated_files")
    create = [bb for bb, t in cl.calls() if callee_def(t).endswith(("File::create", "OpenOptions::open"))]
    before = bool(prune) and bool(create) and all(cl.dominates(prune[0], c) for c in create)
    after = bool(prune) and bool(create) and all(any(cl.dominates(c, pb) for c in create) for pb in prune)
    ok = room is not None and bool(prune) and len(create) >= 2 and ((room and before) or (room is False and after))
    ctx.instance("C19.retention-order", cl.path, {"amount_leaves_room_for_new_file": room, "prune_sites": len(prune), "create_sites": len(create), "prune_before_create": before},
                 "pruning that leaves room runs before the creation", ok, cfg)
    if not ok:
        ctx.violation("C19.retention-order", "C19.retention-order|close_cur_and_new_file",
                      "retention prunes %s the new files are created but %s: files inside the retention limit are deleted (or the limit is exceeded)" % (
                          "before" if before else "after", "does not leave room for them" if room is False else "already leaves room for one"), cl.loc(), config=cfg)


def next_name(ctx, f, cfg):
    """The number of the next file of a day comes from the number in the LAST existing file name (+1), not from how many files are
    left: after retention removed a file of that day the count names the current file again and File::create truncates it."""
    b = f.one("DefaultMetricLogWriter::next_file_name_of_time")
    if not ctx.floor("C19.next-name", "next_file_name_of_time", 1 if b else 0, 1):
        return
    sl = Slicer(f, b)
    fmt_atoms = set()
    for bb, t in b.calls():
        if callee_def(t).endswith(("new_display", "new_debug")) or callee_def(t).rsplit("::", 1)[-1] in ("new_display", "new_debug"):
            at = sl.of_operand(t["args"][0])
            if any(x.startswith("call:") and x.endswith("::len") or x.rsplit("::", 1)[-1] == "parse" for x in at if x.startswith("call:")) or "op:Add" in at or "op:AddWithOverflow" in at:
                fmt_atoms |= at
    parsed = any(x.startswith("call:") and x.rsplit("::", 1)[-1] in ("parse", "from_str") for x in fmt_atoms)
    plus1 = "const:1" in fmt_atoms and any(x in fmt_atoms for x in ("op:Add", "op:AddWithOverflow"))
    ok = parsed and plus1
    ctx.instance("C19.next-name", b.path, {"number_parsed_from_a_file_name": parsed, "incremented": plus1}, "next number = number parsed from the last file name + 1", ok, cfg)
    if not ok:
        ctx.violation("C19.next-name", "C19.next-name|next_file_name_of_time", "the next file number is not derived from the number of the last existing file: once retention removed a file of the day the name of a live file is produced and File::create truncates it", b.loc(), config=cfg)


def cache_offset(ctx, f, cfg):
    """The index offset kept in the searcher's cache belongs to ONE file.  search_offset_and_read hands the same start offset to every
    file it tries; that is sound only as long as the offset is the constant Start(0).  A non-constant store into cur_offset_in_idx
    therefore requires the per-file call to use it for the cached file only."""
    stores = []
    for p, b in f.bodies.items():
        if "log::metric" not in p:
            continue
        sl = None
        for bi, blk in enumerate(b.blocks):
            if blk["cleanup"]:
                continue
            for st in blk["stmts"]:
                if st["k"] == "assign" and any(pj.endswith("FilePosition.cur_offset_in_idx") for pj in st["lhs"]["p"]):
                    sl = sl or Slicer(f, b)
                    rv = st["rv"]
                    at = set()
                    for k in ("op",):
                        if isinstance(rv.get(k), dict):
                            at |= sl.of_operand(rv[k])
                    for o in rv.get("ops", []) or []:
                        at |= sl.of_operand(o)
                    const_only = not any(x.startswith(("call:", "param:", "field:", "op:")) for x in at)
                    stores.append((p, bi, const_only))
    sr = f.raw(f.one("DefaultMetricSearcher::search_offset_and_read"))      # read as written: the question is what THIS loop hands to the per-file call
    per_file_invariant = None
    if sr is not None:
        sl = Slicer(f, sr)
        for bb in call_or_inlined(sr, "find_offset_to_start"):
            if sr.in_loop(bb):
                args_ = site_args(sr, bb)
                if not args_:
                    continue
                at = sl.of_operand(args_[-1])
                # does the offset argument depend on the loop's own iteration (index / file) ?
                per_file_invariant = not any(x.startswith("call:") and x.endswith(("Iterator::next", "::next")) for x in at) and "op:Eq" not in at
    nonconst = [(p, b) for p, b, c in stores if not c]
    ok = not (nonconst and per_file_invariant)
    ctx.instance("C19.cache-offset", "FilePosition.cur_offset_in_idx", {"stores": len(stores), "non_constant_stores": [p for p, _ in nonconst], "same_offset_handed_to_every_file": per_file_invariant},
                 "a per-file index offset is not applied to other files", ok, cfg)
    if not ok:
        ctx.violation("C19.cache-offset", "C19.cache-offset|" + ",".join(sorted(p.rsplit("::", 1)[-1] for p, _ in nonconst)),
                      "the cached index offset of one file is handed to every file the search tries: the first seconds of a later file are skipped", f.bodies[nonconst[0][0]].loc(nonconst[0][1]), config=cfg)


def cache_validation(ctx, f, cfg):
    """A cached position that cannot be validated (its index file was removed by the writer's retention, or is torn) is a cache miss:
    the error of is_position_in_time_for must not be propagated out of the search."""
    b = f.one("DefaultMetricSearcher::get_offset_start_and_file_idx")
    if not ctx.floor("C19.cache-validation", "get_offset_start_and_file_idx", 1 if b else 0, 1):
        return
    sites = call_or_inlined(b, "is_position_in_time_for")
    prop = []
    for bb in sites:
        dest = site_dest(b, bb)
        for b2, t2 in b.calls():
            if callee_is(t2, "Try::branch") and op_place(t2["args"][0]) and op_place(t2["args"][0])["l"] == dest:
                prop.append(b.loc(b2))
    ok = bool(sites) and not prop
    ctx.instance("C19.cache-validation", b.path, {"validation_sites": len(sites), "error_propagated_at": prop}, "a failed validation is a miss, not a failed search", ok, cfg)
    if not ok:
        ctx.violation("C19.cache-validation", "C19.cache-validation|get_offset_start_and_file_idx",
                      "an error while validating the cached position (index file removed by retention, torn entry) fails every later search of a long-lived searcher instead of falling back to a full search", b.loc(), config=cfg)


def undecodable_line(ctx, f, cfg):
    """A torn tail can end inside a multi-byte character: the read error for text that is not valid UTF-8 is skipped like a line that
    does not parse; propagating it makes the whole search fail although every complete line is intact."""
    rs = [b for p, b in f.bodies.items() if "DefaultMetricLogReader::read_metrics" in p and b.kind == "AssocFn" and "bool)" in b.ret_ty]
    for b in rs:
        sl = Slicer(f, b)
        reads = []
        for bb, t in b.calls():
            nm = callee_resolved(t) or callee_def(t)
            if callee_def(t).endswith("::read_line") or nm.endswith("::read_line") or ("Lines" in nm and nm.endswith("::next")):
                reads.append((bb, t))
        bad = []
        for bb, t in reads:
            dest = t["dest"]["l"]
            # is the (possibly wrapped) result handed to `?` without an ErrorKind test in between?
            for b2, t2 in b.calls():
                if callee_is(t2, "Try::branch"):
                    at = sl.of_operand(t2["args"][0])
                    if ("lid:%d" % dest) in at or any(x.startswith("call:") and (x.endswith("::read_line") or ("Lines" in x and x.endswith("::next"))) for x in at):
                        bad.append(b.loc(b2))
        kinds = any(callee_def(t).endswith("Error::kind") for _, t in b.calls())
        ok = bool(reads) and not bad and kinds
        ctx.instance("C19.torn-line/undecodable", b.path, {"line_reads": len(reads), "read_error_propagated_with_?": bad, "tests_error_kind": kinds}, "undecodable text is skipped (ErrorKind::InvalidData), other read errors are returned", ok, cfg)
        if not ok:
            ctx.violation("C19.torn-line", "C19.torn-line|undecodable|" + b.path.rsplit("::", 1)[-1],
                          "%s propagates the read error of a line that is not valid UTF-8 (a tail torn inside a multi-byte character): the search fails instead of losing that one line" % b.path.rsplit("::", 1)[-1], b.loc(), config=cfg)


def roll_before_index(ctx, f, cfg):
    """The index entry of a second is written to the index of the file its lines go to: a roll-over by date happens BEFORE the index
    entry of the new day's first second is written (otherwise that entry lands in the old day's index and the second cannot be found
    once the old file is gone)."""
    ws = [b for b in f.impl_methods("MetricLogWriter", "write") if "DefaultMetricLogWriter" in (b.impl_self or "")]
    if not ws:
        return
    b = ws[0]
    idx = call_or_inlined(b, "write_index")
    items = call_or_inlined(b, "write_items_and_flush")
    rolls = call_or_inlined(b, "roll_to_next_file")
    late = []
    for i in idx:
        # a roll reachable from the index write before the lines are written
        reach = b.reachable(b.succs(i), avoid=items)
        late += [b.loc(r) for r in rolls if r in reach]
    ok = bool(idx) and bool(items) and not late
    ctx.instance("C19.write-order/roll-before-index", b.path, {"index_sites": len(idx), "roll_sites": len(rolls), "roll_after_index_before_lines": late}, "no roll-over between a second's index entry and its lines", ok, cfg)
    if not ok:
        ctx.violation("C19.write-order", "C19.write-order|roll-after-index", "a roll-over can happen between writing a second's index entry and its lines: the entry stays in the old file's index and the new file has none for that second", b.loc(), config=cfg)


def no_panic(ctx, f, cfg):
    ps = PanicSites(f)
    eps = [b.path for b in f.impl_methods("MetricSearcher", "find_by_time_and_resource") + f.impl_methods("MetricSearcher", "find_from_time_with_max_lines")]
    if not ctx.floor("C19.no-panic", "search entry points", len(eps), 2):
        return
    reach = f.reach_bodies(eps)
    # closures passed as &dyn Fn from the entry points
    for p in list(reach):
        for c in f.closures_of(f.bodies[p]):
            if c.path not in reach:
                reach[c.path] = (p, 0)
                for q in f.reach_bodies([c.path]):
                    reach.setdefault(q, (c.path, 0))
    n = und = 0
    for s in ps.sites():
        b = s["body"]
        if b.path not in reach or s["poison"]:
            continue
        n += 1
        if ps.discharge_local(s):
            continue
        atoms = site_atoms(f, s)
        if table_row(s, atoms, f) or ps.discharge_in_context(s):
            continue
        und += 1
        ctx.violation("C19.no-panic", "C19.no-panic|%s|%s|%s" % (b.path.replace("core::", "", 1), s["kind"], _origin_key(atoms)),
                      "%s at %s can panic while searching the metric log (%s)" % (s["callee"] or s["kind"], b.path, _origin_key(atoms) or "no guard found"), b.loc(s["bb"]), f.chain(reach, b.path)[-4:], config=cfg)
    ctx.instance("C19.no-panic", "search entry points", {"bodies_reached": len(reach), "sites": n, "undischarged": und}, "0 undischarged", und == 0, cfg)
