"""C05 — concurrency caps (isolation, hotspot concurrency) hold and are reported rightly.

Decided (DESIGN §3 C05):
  C05.iso-decision      isolation checker: trips iff current_concurrency + batch > rule.threshold (A6 table)
  C05.iso-gate          isolation slot: Blocked constructed iff the checker said "not passed"
  C05.iso-report        block type Isolation; rule and observed value attached
  C05.hs-decision       hotspot concurrency checker: pass iff in_flight + n <= limit; limit = override[arg] or threshold
  C05.hs-batch          the observed side of that comparison includes the entry's batch count ("plus n")
  C05.hs-report         block type HotSpotParamFlow; rule attached
  C05.hs-pairing        ConcurrencyStatSlot on_entry_pass/on_completed: same counter, same key, +1/-1, single RMW,
                        under the same metric_type == Concurrency guard
"""
from .core import *
from . import decision as D
from .decrules import *


def run(ctx):
    ctx.explanation = (
        "Decision tables (A6) of the isolation checker and of the hotspot concurrency checker extracted from MIR by "
        "path enumeration with role-identified comparison atoms and compared, row by row over the trichotomy of "
        "(observed, limit), with the formula of the statement; BlockType constants and attached rule/snapshot at the "
        "blocked sites; sibling agreement (+1 / -1 on the same per-value counter under the same guard) of the two "
        "ConcurrencyStatSlot callbacks; single-RMW discipline on those counters.")
    ctx.not_decided = "LRU eviction beyond capacity; interleavings (C14); release on exit for isolation is C04's inc/dec pairing."
    ctx.assumptions = ["float NaN orderings ignored", "values are touched only through the comparisons listed"]
    cfg = "core-default"
    f = ctx.facts(cfg)
    isolation(ctx, f, cfg)
    hotspot(ctx, f, cfg)
    pairing(ctx, f, cfg)
    extraction(ctx, f, cfg)
    # "capacity freed by an exit is usable by the very next request": the isolation cap reads the node's in-flight counter, which
    # the completion recorder must lower on every exit of a passed entry (C04's recorder rule, re-evaluated here)
    from . import rules_C04
    rules_C04.recorder(ctx, f, cfg)


def _family_bodies(f, mod):
    return [b for p, b in f.bodies.items() if p.startswith(mod + "::") and b.kind in ("Fn", "AssocFn")]


def isolation(ctx, f, cfg):
    checks = [b for b in f.impl_methods("RuleCheckSlot", "check") if ".isolation." in "." + b.path.replace("::", ".") + "."]
    if not ctx.floor("C05.anchor", "impl RuleCheckSlot::check in core::isolation", len(checks), 1):
        return
    # the whole decision is read in the normalised view of the slot's check(): whatever private helper computes the verdict (a loop with
    # an early return, a find_map closure, a tuple or an Option as its result) is inlined / unfolded there
    chk = f.view(checks[0])
    n_cc = sum(1 for _, t in chk.calls() if callee_is(t, "ConcurrencyStat::current_concurrency"))
    if not ctx.floor("C05.anchor", "isolation decision (reads current_concurrency) reachable inside the slot's check", n_cc, 1):
        return
    roles = [
        ("observed+n", ["call:ConcurrencyStat::current_concurrency", "call:SentinelInput::batch_count", "op:Add"], []),
        ("observed", ["call:ConcurrencyStat::current_concurrency"], []),
        ("limit", ["field:Rule.threshold"], ["call:ConcurrencyStat::current_concurrency"]),
        ("metric_type", ["field:Rule.metric_type"], []),
        ("Concurrency", ["variant:MetricType::Concurrency"], []),
    ]
    base = make_classifier(roles)

    def classify(atoms, op=None):
        if op is not None and discr_of_call(chk, op, "Iterator::next"):
            return "iter"
        return base(atoms, op)
    w = D.Walker(f, chk, classify)
    blocked_bbs = {bb for bb, t, vs, c in blocked_sites(f, chk)}
    paths = w.walk(0, lambda bb, env: ("blocked",) if bb in blocked_bbs else None)

    def outcome(p, asg):
        return "blocked" if p["outcome"][0] == "blocked" else "not-blocked-by-this-rule"

    def expected(asg):
        if any(v for k, v in asg["opaque"].items() if "is_empty" in k):
            return "not-blocked-by-this-rule"
        it = asg["disc"].get("iter")
        if it == 0:   # rules exhausted
            return "not-blocked-by-this-rule"
        if it not in (None, 1):
            return None
        if any(not v for k, v in asg["opaque"].items() if k.startswith("closure-ran:") and k.rsplit(":", 1)[-1] in ("find_map", "find", "any", "position", "try_for_each", "for_each")):
            return "not-blocked-by-this-rule"     # the search closure did not run: no rule to look at
        mt = D.rel_of(asg, "metric_type", "Concurrency")
        if mt is not None and mt != "=":
            return "not-blocked-by-this-rule"
        r = D.rel_of(asg, "observed+n", "limit")
        if r is None:
            return None
        return "blocked" if r == ">" else "not-blocked-by-this-rule"
    site = chk.path
    n, ncon, mism = run_table(ctx, "C05.iso-decision", site, cfg, paths, outcome, expected)
    has_pair = any(("observed+n" in (l[2], l[3]) and "limit" in (l[2], l[3])) for p in paths for l in _lits(p) if l[0] == "cmp")
    ctx.instance("C05.iso-decision", site, {"rows": n, "constrained": ncon, "mismatches": mism[:4], "paths": len(paths),
                                            "compares (in_flight + batch) with rule.threshold": has_pair},
                 "per Concurrency rule of the resource: Blocked iff current_concurrency + batch > rule.threshold", not mism and has_pair and ncon > 0, cfg)
    if not has_pair:
        ctx.violation("C05.iso-decision", "C05.iso-decision|operands",
                      "the isolation decision does not compare (current_concurrency + batch_count) with rule.threshold",
                      chk.loc(), config=cfg)
    elif mism:
        ctx.violation("C05.iso-decision", "C05.iso-decision|table",
                      "isolation decision differs from `in_flight + n > T`: e.g. case [%s] gives %s, expected %s" % mism[0],
                      chk.loc(), ["case [%s]: found %s expected %s" % m for m in mism[:6]], config=cfg)
    # the rejection names the rule that tripped (one of the resource's rules) and carries the observed in-flight count
    nb = check_block_constants(ctx, f, chk, "C05.iso-report", cfg, "Isolation",
                               ["call:get_rules_of_resource"], ["call:ConcurrencyStat::current_concurrency"], "isolation")
    ctx.floor("C05.iso-report", "blocked sites in isolation slot", nb, 1)
    # the rules consulted are those of the entry's own resource; the node read is the context's
    sl = Slicer(f, chk)
    for bb, t in chk.calls():
        if callee_is(t, "isolation::rule_manager::get_rules_of_resource", "get_rules_of_resource"):
            a = sl.of_operand(t["args"][0])
            okk = any_atom(a, "call:ResourceWrapper::name") and any_atom(a, "call:EntryContext::resource")
            ctx.instance("C05.iso-decision/key", chk.path, sorted(short(x) for x in a if x.startswith("call:core")), "rules of ctx.resource().name()", okk, cfg)
            if not okk:
                ctx.violation("C05.iso-decision", "C05.iso-decision|key", "the isolation slot does not consult the rules of the entry's own resource", chk.loc(bb), config=cfg)
        if callee_is(t, "ConcurrencyStat::current_concurrency"):
            a = sl.of_operand(t["args"][0])
            okn = any_atom(a, "call:EntryContext::stat_node")
            ctx.instance("C05.iso-decision/node", chk.path, sorted(short(x) for x in a if x.startswith("call:core")), "in-flight count of ctx.stat_node()", okn, cfg)
            if not okn:
                ctx.violation("C05.iso-decision", "C05.iso-decision|node", "the in-flight count compared is not the one of the entry's own statistics node", chk.loc(bb), config=cfg)


def _lits(p):
    out = []

    def rec(e):
        if e[0] == "cmp":
            out.append(e)
        elif e[0] == "not":
            rec(e[1])
        elif e[0] in ("and", "or"):
            rec(e[1])
            rec(e[2])
    for l in p["lits"]:
        rec(l)
    for v in p["env"].values():
        if v:
            rec(v)
    return out


def hotspot(ctx, f, cfg):
    # the hotspot controller method that reads the per-value concurrency counter and may construct Blocked
    cands = []
    for p, b in f.bodies.items():
        if "hotspot" not in p or b.kind != "AssocFn":
            continue
        sl = Slicer(f, b)
        if blocked_sites(f, b) and any("concurrency_counter" in fn for _, t in b.calls() for a in t["args"] for fn in (sl.of_operand(a))):
            cands.append(b)
    if not ctx.floor("C05.anchor", "hotspot concurrency checker (reads ParamsMetric.concurrency_counter, constructs Blocked)", len(cands), 1):
        return
    b = f.view(f.raw(cands[0]))
    roles = [
        ("observed", ["field:ParamsMetric.concurrency_counter", "call:Atomic::<u64>::load"], []),
        ("limit", ["field:Rule.threshold"], []),
        ("limit", ["field:Rule.specific_items"], []),
    ]
    base_cls = make_classifier(roles)

    def cls(atoms, op=None):
        # the cell handed out by the counter cache: None = first sight of the value (is_none() / match / if-let alike)
        if "discr" in atoms and any_atom(atoms, "call:add_if_absent") and not any_atom(atoms, "call:Atomic::<u64>::load"):
            return "cell"
        return base_cls(atoms, op)
    w = D.Walker(f, b, cls)
    w.option_calls_as_disc = True
    blocked_bbs = {bb for bb, t, vs, c in blocked_sites(f, b)}
    pass_bbs = {bb for bb, t in b.calls() if callee_is(t, "TokenResult::new_pass")}

    def stop(bb, env):
        if bb in blocked_bbs:
            return ("blocked",)
        if bb in pass_bbs:
            return ("pass",)
        return None
    paths = w.walk(0, stop)

    def outcome(p, asg):
        return p["outcome"][0]

    def expected(asg):
        # a value seen for the first time (counter absent) has 0 in flight and is judged by the same comparison (D27: it used to be
        # passed unconditionally, so that a limit of 0 admitted the first request of every value)
        r = D.rel_of(asg, "observed", "limit")
        if r is None:
            return None
        return "pass" if r in "<=" else "blocked"
    n, ncon, mism = run_table(ctx, "C05.hs-decision", b.path, cfg, paths, outcome, expected)
    ctx.instance("C05.hs-decision", b.path, {"rows": n, "constrained": ncon, "mismatches": mism[:4], "paths": len(paths)},
                 "pass iff in_flight(+n) <= limit", not mism and ncon > 0, cfg)
    if mism or not ncon:
        ctx.violation("C05.hs-decision", "C05.hs-decision|table",
                      "hotspot concurrency decision differs from `in_flight + n <= limit`: %s" % (mism[:1] or "comparison between the per-value counter and the limit not found"),
                      b.loc(), ["case [%s]: found %s expected %s" % m for m in mism[:6]], config=cfg)
    # limit = override[arg] if present else threshold; lookup keyed by the checked argument
    sl = Slicer(f, b)
    keyed = False
    for bb, t in b.calls():
        if callee_is(t, "HashMap::<K, V, S>::get", "HashMap::get") :
            a0 = sl.of_operand(t["args"][0])
            a1 = sl.of_operand(t["args"][1])
            if any_atom(a0, "field:Rule.specific_items"):
                keyed = any_atom(a1, "param:arg")
                ctx.instance("C05.hs-decision/override-key", b.path, sorted(short(x) for x in a1 if x.startswith("param:")), "param:arg", keyed, cfg)
                if not keyed:
                    ctx.violation("C05.hs-decision", "C05.hs-decision|override-key", "per-value override is not looked up by the checked argument", b.loc(bb), config=cfg)
    # both limit sources feed the compared limit
    lim_atoms = set()
    obs_atoms = set()
    for bi, blk in enumerate(b.blocks):
        for s in blk["stmts"]:
            if s["k"] == "assign" and s["rv"]["k"] == "bin" and s["rv"]["op"] in D.CMP_OPS:
                for o in (s["rv"]["a"], s["rv"]["b"]):
                    at = sl.of_operand(o)
                    r = cls(at)
                    if r == "limit":
                        lim_atoms |= at
                    elif r == "observed":
                        obs_atoms |= at
    # the override replaces T whenever it is present: its value is compared with the in-flight count only - a side test on the value
    # itself (e.g. "0 means not configured") lets the general threshold apply to a value that has an override
    side = []
    for bi, blk in enumerate(b.blocks):
        if blk["cleanup"]:
            continue
        for s2 in blk["stmts"]:
            if s2["k"] == "assign" and s2["rv"]["k"] == "bin" and s2["rv"]["op"] in D.CMP_OPS and not s2.get("exp"):
                aa, ab = sl.of_operand(s2["rv"]["a"]), sl.of_operand(s2["rv"]["b"])
                for mine, other in ((aa, ab), (ab, aa)):
                    if any_atom(mine, "field:Rule.specific_items") and not any_atom(mine, "field:ParamsMetric.concurrency_counter") and cls(other) != "observed":
                        side.append(b.loc(bi))
    ctx.instance("C05.hs-decision/override-unconditional", b.path, {"side_tests_on_the_override_value": sorted(set(side))}, "the override value is only compared with the in-flight count", not side, cfg)
    if side:
        ctx.violation("C05.hs-decision", "C05.hs-decision|override-conditional", "a per-value override is used only under a test on its own value (%s): for the other values of the override the general threshold applies although an override exists" % sorted(set(side)), b.loc(), config=cfg)
    ok = any_atom(lim_atoms, "field:Rule.specific_items") and any_atom(lim_atoms, "field:Rule.threshold")
    ctx.instance("C05.hs-decision/limit-sources", b.path, sorted(short(a) for a in lim_atoms if a.startswith("field:")), ["Rule.specific_items", "Rule.threshold"], ok, cfg)
    if not ok:
        ctx.violation("C05.hs-decision", "C05.hs-decision|limit-sources", "the compared limit must come from the per-value override when present, else from rule.threshold", b.loc(), config=cfg)
    # "plus n": the observed side must include the entry's batch count
    has_batch = any(a.startswith("param:batch") or a.endswith("SentinelInput::batch_count") for a in obs_atoms)
    ctx.instance("C05.hs-batch", b.path, sorted(short(a) for a in obs_atoms if a.startswith(("param:", "const:", "op:"))), "observed side contains the batch count", has_batch, cfg)
    if not has_batch:
        ctx.violation("C05.hs-batch", "C05.hs-batch|hotspot-concurrency-ignores-batch",
                      "hotspot concurrency admission compares in_flight + 1 (a constant) with the limit; the statement says in-flight plus n (the entry's batch count)",
                      b.loc(), config=cfg)
    check_block_constants(ctx, f, b, "C05.hs-report", cfg, "HotSpotParamFlow", ["field:Controller.rule"], ["call:Atomic::<u64>::load"], "hotspot")


def pairing(ctx, f, cfg):
    slots = [b for b in f.impl_methods("StatSlot", "on_entry_pass") + f.impl_methods("StatSlot", "on_completed")
             if "hotspot" in b.path]
    by = {b.name: b for b in slots}
    if not ctx.floor("C05.anchor", "hotspot ConcurrencyStatSlot callbacks", len(by), 2):
        return
    forms = {}
    for name, b in by.items():
        sl = Slicer(f, b)
        rmw = []
        for bb, t in b.calls():
            cd = callee_def(t)
            if atomic_op(t) and atomic_op(t) != "load":
                recv = sl.of_operand(t["args"][0])
                val = const_val(t["args"][1]) if len(t["args"]) > 1 else None
                # guard: dominated by the `metric_type != Concurrency -> continue` false edge and by Some(arg)
                counter = any_atom(recv, "field:ParamsMetric.concurrency_counter")
                key_from_extract = any_atom(recv, "call:Controller::<C>::extract_args")
                guards = _guards(f, b, bb)
                op = cd.rsplit("::", 1)[1]
                if op == "fetch_update":
                    # a decrement that saturates at zero: fetch_update(.., |v| v.checked_sub(1)) / saturating_sub(1)
                    for defs in t.get("arg_defs", []):
                        for dpath in defs:
                            cb = f.bodies.get(dpath)
                            if cb is None:
                                continue
                            for _, ct in cb.calls():
                                if callee_def(ct).rsplit("::", 1)[-1] in ("checked_sub", "saturating_sub") and len(ct["args"]) == 2 and const_val(ct["args"][1]) is not None:
                                    op, val = "fetch_sub", const_val(ct["args"][1])
                rmw.append({"op": op, "val": val, "counter": counter, "key_from_extract_args": key_from_extract, "guards": guards})
        forms[name] = rmw
    exp_pass = [{"op": "fetch_add", "val": 1}]
    exp_done = [{"op": "fetch_sub", "val": 1}]

    def proj(l):
        return [{"op": x["op"], "val": x["val"]} for x in l]
    okp = proj(forms.get("on_entry_pass", [])) == exp_pass
    okc = proj(forms.get("on_completed", [])) == exp_done
    same = [(x["counter"], x["key_from_extract_args"], tuple(x["guards"])) for x in forms.get("on_entry_pass", [])] == \
           [(x["counter"], x["key_from_extract_args"], tuple(x["guards"])) for x in forms.get("on_completed", [])]
    allc = all(x["counter"] and x["key_from_extract_args"] for l in forms.values() for x in l)
    ok = okp and okc and same and allc
    ctx.instance("C05.hs-pairing", "ConcurrencyStatSlot::{on_entry_pass,on_completed}", forms,
                 "pass: one fetch_add(1); completed: one fetch_sub(1) (plain, or saturating through fetch_update + checked_sub(1)); same counter field, same key extraction, same guards", ok, cfg)
    if not ok:
        ctx.violation("C05.hs-pairing", "C05.hs-pairing|siblings",
                      "hotspot per-value in-flight counter is not raised by one on pass and lowered by one on completion under the same guard and key: %s" % forms,
                      by["on_entry_pass"].loc(), config=cfg)


def _guards(f, b, bb):
    """Comparison atoms (by role) and Some-matches that dominate bb — a line-free description of the guard."""
    out = []
    dom = b.dominators().get(bb, set())
    sl = Slicer(f, b)
    for d in sorted(dom):
        t = b.term(d)
        if t and t["k"] == "switch":
            at = sl.of_operand(t["op"])
            # which edge leads to bb?
            for v, tg in switch_edges(b, d):
                if tg == bb or b.dominates(tg, bb):
                    if any_atom(at, "field:Rule.metric_type"):
                        pol = "ne" if any_atom(at, "call:PartialEq::ne") else "eq"
                        out.append("metric_type %s Concurrency -> edge %s" % (pol, v))
                    elif any_atom(at, "call:Controller::<C>::extract_args") and "discr" in at and not any_atom(at, "field:ParamsMetric.concurrency_counter"):
                        out.append("extract_args is #%s" % v)
                    elif any_atom(at, "field:ParamsMetric.concurrency_counter") and "discr" in at:
                        out.append("counter lookup is #%s" % v)
    return out


def extraction(ctx, f, cfg):
    """C05.hs-extract: which argument a hotspot rule looks at.  Positional: args[param_index], a negative index counts from the end
    (param_index + len, added once), anything outside 0..len means "parameter missing" (None).  Keyed: attachments[param_key.trim()]
    when present; the keyed lookup has priority over the positional one."""
    from .relfacts import RelFacts
    # anchor: the public extractor of the controller; its private helpers (positional / keyed) are inlined in the view
    ea = f.find("hotspot::traffic_shaping::Controller::<C>::extract_args")
    if not ctx.floor("C05.hs-extract", "hotspot Controller::extract_args", len(ea), 1):
        return
    b = f.view(ea[0])
    sl = Slicer(f, b)
    rel = RelFacts(f)
    arg_calls = [bb for bb, t in b.calls() if callee_def(t).endswith("SentinelInput::args")]
    att_calls = [bb for bb, t in b.calls() if callee_def(t).endswith("SentinelInput::attachments")]
    ctx.floor("C05.hs-extract", "reads of SentinelInput::args in the extractor", len(arg_calls), 1)
    sites = [(bb, t) for bb, t in b.calls() if (callee_def(t).endswith("Index::index") or callee_def(t).endswith("]>::get") or callee_def(t).endswith("Vec::<T, A>::get") or callee_def(t).endswith("slice::<impl [T]>::get"))
             and ("Vec<" in (t.get("arg_tys") or [""])[0] or "[core::base::context::ParamKey]" in (t.get("arg_tys") or [""])[0]) and any_atom(sl.of_operand(t["args"][0]), "call:SentinelInput::args")]
    ok = bool(sites)
    detail = {}
    for bb, t in sites:
        at = sl.of_operand(t["args"][1])
        ops = sorted(a for a in at if a.startswith("op:"))
        calls = sorted(a.rsplit("::", 1)[-1] for a in at if a.startswith("call:") and not a.endswith(("::len", "::deref", "::args", "::input", "::as_ref", "::unwrap")))
        is_get = not callee_def(t).endswith("Index::index")
        bounds = rel.index_ok(b, bb, t["args"][0], t["args"][1]) if not is_get else ["Option-returning get()"]
        arith_ok = set(ops) <= {"op:Add", "op:Lt", "op:Ge", "op:Gt", "op:Le"} and not [c for c in calls if c in ("rem_euclid", "abs", "wrapping_add", "wrapping_sub", "checked_rem", "min", "max", "clamp", "unsigned_abs")] and any_atom(at, "field:Rule.param_index")
        from_end = "op:Add" in ops and any(a.endswith("::len") for a in at if a.startswith("call:"))
        detail = {"index_ops": ops, "other_calls": calls, "bounds": bounds, "negative_counts_from_end": from_end}
        ok = ok and arith_ok and bool(bounds) and from_end
    ctx.instance("C05.hs-extract/positional", b.path, detail, "args[param_index] or args[param_index + len], guarded by 0 <= idx < len; otherwise None", ok, cfg)
    if not ok:
        ctx.violation("C05.hs-extract", "C05.hs-extract|positional", "the positional parameter is not args[param_index] / args[param_index + len] within 0..len (a missing parameter must yield None): %s" % detail, b.loc(), config=cfg)
    # keyed: attachments[param_key] / attachments.get(param_key)
    idx = [(bb, t) for bb, t in b.calls() if (callee_def(t).endswith("Index::index") or callee_def(t).rsplit("::", 1)[-1] in ("get", "get_key_value"))
           and "HashMap<" in (t.get("arg_tys") or [""])[0] and any_atom(sl.of_operand(t["args"][0]), "call:SentinelInput::attachments")]
    okk = bool(idx)
    # the key that is looked up is the key that was tested for emptiness: same normalisation (trim) on both
    norm = set()
    for bb, t in b.calls():
        if callee_def(t).rsplit("::", 1)[-1] == "is_empty" and t["args"]:
            a = sl.of_operand(t["args"][0])
            if any_atom(a, "field:Rule.param_key"):
                norm |= {x for x in a if x.startswith("call:") and "trim" in x.rsplit("::", 1)[-1]}
    lost = set()
    for bb, t in idx:
        ka = sl.of_operand(t["args"][1])
        okk = okk and any_atom(ka, "field:Rule.param_key")
        lost |= norm - ka
    okk = okk and not lost
    ctx.instance("C05.hs-extract/keyed", b.path, {"lookups": len(idx), "normalisation_of_tested_key": sorted(x.rsplit("::", 1)[-1] for x in norm), "not_applied_to_lookup_key": sorted(x.rsplit("::", 1)[-1] for x in lost)},
                 "attachments[rule.param_key, normalised as in the emptiness test]", okk, cfg)
    if not okk:
        ctx.violation("C05.hs-extract", "C05.hs-extract|keyed", "the keyed parameter is not looked up by the rule's param_key", b.loc(), config=cfg)
    # priority: the positional list is consulted only after the keyed lookup
    wp = must_pass(b, [0], arg_calls, att_calls) if arg_calls else None
    oko = bool(att_calls) and bool(arg_calls) and wp is None
    ctx.instance("C05.hs-extract/priority", b.path, {"keyed_reads": len(att_calls), "positional_reads": len(arg_calls), "positional_without_keyed_first": fmt_path(b, wp) if wp else None},
                 "the keyed lookup comes first", oko, cfg)
    if not oko:
        ctx.violation("C05.hs-extract", "C05.hs-extract|priority", "keyed parameters no longer take priority over positional ones", b.loc(), config=cfg)
