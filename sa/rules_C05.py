"""C05 — concurrency caps (isolation, hotspot concurrency) hold and are reported rightly.

Decided (DESIGN §3 C05):
  C05.iso-decision      isolation checker: trips iff current_concurrency + batch > rule.threshold (A6 table)
  C05.iso-gate          isolation slot: Blocked constructed iff the checker said "not passed"
  C05.iso-report        block type Isolation; rule and observed value attached
  C05.hs-decision       hotspot concurrency checker: pass iff in_flight + n <= limit; limit = override[arg] or threshold
  C05.hs-batch          the observed side of that comparison includes the entry's batch count ("plus n")
  C05.hs-report         block type HotSpotParamFlow; rule attached
  C05.hs-pairing        ConcurrencyStatSlot on_entry_pass/on_completed: same counter, same key, +1/-1, single RMW,
                        under the same metric_type == Concurrency guard
"""
from .core import *
from . import decision as D
from .decrules import *


def run(ctx):
    ctx.explanation = (
        "Decision tables (A6) of the isolation checker and of the hotspot concurrency checker extracted from MIR by "
        "path enumeration with role-identified comparison atoms and compared, row by row over the trichotomy of "
        "(observed, limit), with the formula of the statement; BlockType constants and attached rule/snapshot at the "
        "blocked sites; sibling agreement (+1 / -1 on the same per-value counter under the same guard) of the two "
        "ConcurrencyStatSlot callbacks; single-RMW discipline on those counters.")
    ctx.not_decided = "LRU eviction beyond capacity; interleavings (C14); release on exit for isolation is C04's inc/dec pairing."
    ctx.assumptions = ["float NaN orderings ignored", "values are touched only through the comparisons listed"]
    cfg = "core-default"
    f = ctx.facts(cfg)
    isolation(ctx, f, cfg)
    hotspot(ctx, f, cfg)
    pairing(ctx, f, cfg)
    extraction(ctx, f, cfg)
    # "capacity freed by an exit is usable by the very next request": the isolation cap reads the node's in-flight counter, which
    # the completion recorder must lower on every exit of a passed entry (C04's recorder rule, re-evaluated here)
    from . import rules_C04
    rules_C04.recorder(ctx, f, cfg)


def _family_bodies(f, mod):
    return [b for p, b in f.bodies.items() if p.startswith(mod + "::") and b.kind in ("Fn", "AssocFn")]


def isolation(ctx, f, cfg):
    checks = [b for b in f.impl_methods("RuleCheckSlot", "check") if ".isolation." in "." + b.path.replace("::", ".") + "."]
    if not ctx.floor("C05.anchor", "impl RuleCheckSlot::check in core::isolation", len(checks), 1):
        return
    chk = checks[0]
    # decision body: reachable from check, compares something derived from current_concurrency
    reach = f.reach_bodies([chk.path])
    cands = []
    for p in reach:
        b = f.bodies[p]
        if any(callee_is(t, "ConcurrencyStat::current_concurrency") for _, t in b.calls()) and "isolation" in p:
            cands.append(b)
    if not ctx.floor("C05.anchor", "isolation decision body (reads current_concurrency)", len(cands), 1):
        return
    dec = cands[0]
    roles = [
        ("observed+n", ["call:ConcurrencyStat::current_concurrency", "call:SentinelInput::batch_count", "op:Add"], []),
        ("observed", ["call:ConcurrencyStat::current_concurrency"], []),
        ("limit", ["field:Rule.threshold"], ["call:ConcurrencyStat::current_concurrency"]),
        ("metric_type", ["field:Rule.metric_type"], []),
        ("iter", ["call:Iterator::next"], []),
    ]
    w = D.Walker(f, dec, make_classifier(roles))

    def stop(bb, env):
        return None
    paths = w.walk(0, stop)
    for p in paths:
        p["extra_exprs"] = []

    def outcome(p, asg):
        if p["outcome"][0] == "loop":
            return "next-rule"
        v = p["env"].get("_0.0")
        if v is None:
            return "unknown"
        return "pass" if D.ev(v, asg) else "trip"

    def expected(asg):
        it = asg["disc"].get("iter")
        if it is None:
            return None
        if it == 0:   # None: rules exhausted
            return "pass"
        if it != 1:
            return None
        mt = [k for k in asg["pairs"] if "metric_type" in k]
        if mt and asg["pairs"][mt[0]] != "=":
            return "next-rule"
        r = D.rel_of(asg, "observed+n", "limit")
        if r is None:
            return None
        return "trip" if r == ">" else "next-rule"

    site = dec.path
    n, ncon, mism = run_table(ctx, "C05.iso-decision", site, cfg, paths, outcome, expected)
    has_pair = any(("observed+n" in (l[2], l[3]) and "limit" in (l[2], l[3])) for p in paths for l in _lits(p) if l[0] == "cmp")
    ctx.instance("C05.iso-decision", site, {"rows": n, "constrained": ncon, "mismatches": mism[:4], "paths": len(paths),
                                            "compares (in_flight + batch) with rule.threshold": has_pair},
                 "trip iff current_concurrency + batch > rule.threshold (per Concurrency rule)", not mism and has_pair and ncon > 0, cfg)
    if not has_pair:
        ctx.violation("C05.iso-decision", "C05.iso-decision|operands",
                      "the isolation decision does not compare (current_concurrency + batch_count) with rule.threshold",
                      dec.loc(), config=cfg)
    elif mism:
        ctx.violation("C05.iso-decision", "C05.iso-decision|table",
                      "isolation decision differs from `in_flight + n > T`: e.g. case [%s] gives %s, expected %s" % mism[0],
                      dec.loc(), ["case [%s]: found %s expected %s" % m for m in mism[:6]], config=cfg)
    # gate in the slot
    roles2 = [("passed", ["call:" + dec.path.rsplit("::", 1)[1]], []), ("resname", ["call:String::is_empty"], [])]
    cls2 = make_classifier([("passed", ["call:" + dec.path], []), ("passed", ["call:" + dec.path.rsplit("::", 1)[-1]], [])])
    w2 = D.Walker(f, chk, cls2)
    blocked_bbs = {bb for bb, t, vs, c in blocked_sites(f, chk)}

    def stop2(bb, env):
        return ("blocked",) if bb in blocked_bbs else None
    paths2 = w2.walk(0, stop2)

    def outcome2(p, asg):
        return "blocked" if p["outcome"][0] == "blocked" else "not-blocked"

    def expected2(asg):
        if asg["opaque"].get("call:String::is_empty") is True or any(v for k, v in asg["opaque"].items() if "is_empty" in k):
            return "not-blocked"
        k = [k for k in asg["opaque"] if k.startswith("bool:passed")]
        if not k:
            return None
        return "not-blocked" if asg["opaque"][k[0]] else "blocked"
    n, ncon, mism = run_table(ctx, "C05.iso-gate", chk.path, cfg, paths2, outcome2, expected2)
    ctx.instance("C05.iso-gate", chk.path, {"rows": n, "constrained": ncon, "mismatches": mism[:4]},
                 "Blocked constructed iff the checker returned passed == false", not mism and ncon > 0, cfg)
    if mism or not ncon:
        ctx.violation("C05.iso-gate", "C05.iso-gate|table", "isolation slot does not block exactly when its checker refuses: %s" % (mism[:1] or "gate on the checker's verdict not found"),
                      chk.loc(), config=cfg)
    nb = check_block_constants(ctx, f, chk, "C05.iso-report", cfg, "Isolation",
                               ["call:" + dec.path.rsplit("::", 1)[-1]], ["call:" + dec.path.rsplit("::", 1)[-1]], "isolation")
    ctx.floor("C05.iso-report", "blocked sites in isolation slot", nb, 1)
    # the tuple returned on the tripping path carries Some(rule), Some(in-flight)
    sl = Slicer(f, dec)
    for bi, blk in enumerate(dec.blocks):
        for s in blk["stmts"]:
            if s["k"] == "assign" and s["lhs"]["l"] == 0 and not s["lhs"]["p"] and s["rv"]["k"] == "agg" and s["rv"].get("tuple"):
                ops = s["rv"]["ops"]
                if const_val(ops[0]) == 0:
                    a1 = sl.of_operand(ops[1])
                    a2 = sl.of_operand(ops[2])
                    ok = any_atom(a1, "variant:Option::Some") and any_atom(a1, "call:Iterator::next") and any_atom(a2, "variant:Option::Some") and any_atom(a2, "call:ConcurrencyStat::current_concurrency")
                    ctx.instance("C05.iso-report/tuple", dec.path, "refusal tuple = (false, Some(rule from the loop), Some(observed in-flight)): %s" % ok, "true", ok, cfg)
                    if not ok:
                        ctx.violation("C05.iso-report", "C05.iso-report|tuple", "the refusing tuple does not carry the triggering rule and the observed in-flight count", dec.loc(bi), config=cfg)


def _lits(p):
    out = []

    def rec(e):
        if e[0] == "cmp":
            out.append(e)
        elif e[0] == "not":
            rec(e[1])
        elif e[0] in ("and", "or"):
            rec(e[1])
            rec(e[2])
    for l in p["lits"]:
        rec(l)
    for v in p["env"].values():
        if v:
            rec(v)
    return out


def hotspot(ctx, f, cfg):
    # the hotspot controller method that reads the per-value concurrency counter and may construct Blocked
    cands = []
    for p, b in f.bodies.items():
        if "hotspot" not in p or b.kind != "AssocFn":
            continue
        sl = Slicer(f, b)
        if blocked_sites(f, b) and any("concurrency_counter" in fn for _, t in b.calls() for a in t["args"] for fn in (sl.of_operand(a))):
            cands.append(b)
    if not ctx.floor("C05.anchor", "hotspot concurrency checker (reads ParamsMetric.concurrency_counter, constructs Blocked)", len(cands), 1):
        return
    b = cands[0]
    roles = [
        ("observed", ["field:ParamsMetric.concurrency_counter", "call:Atomic::<u64>::load"], []),
        ("limit", ["field:Rule.threshold"], []),
        ("limit", ["field:Rule.specific_items"], []),
    ]
    cls = make_classifier(roles)
    w = D.Walker(f, b, cls)
    blocked_bbs = {bb for bb, t, vs, c in blocked_sites(f, b)}
    pass_bbs = {bb for bb, t in b.calls() if callee_is(t, "TokenResult::new_pass")}

    def stop(bb, env):
        if bb in blocked_bbs:
            return ("blocked",)
        if bb in pass_bbs:
            return ("pass",)
        return None
    paths = w.walk(0, stop)

    def outcome(p, asg):
        return p["outcome"][0]

    def expected(asg):
        # first sight of a value (counter absent): opaque is_none -> pass; otherwise by comparison
        isn = [k for k in asg["opaque"] if "is_none" in k]
        if isn and asg["opaque"][isn[0]]:
            return "pass"
        r = D.rel_of(asg, "observed", "limit")
        if r is None:
            return None
        return "pass" if r in "<=" else "blocked"
    n, ncon, mism = run_table(ctx, "C05.hs-decision", b.path, cfg, paths, outcome, expected)
    ctx.instance("C05.hs-decision", b.path, {"rows": n, "constrained": ncon, "mismatches": mism[:4], "paths": len(paths)},
                 "pass iff in_flight(+n) <= limit", not mism and ncon > 0, cfg)
    if mism or not ncon:
        ctx.violation("C05.hs-decision", "C05.hs-decision|table",
                      "hotspot concurrency decision differs from `in_flight + n <= limit`: %s" % (mism[:1] or "comparison between the per-value counter and the limit not found"),
                      b.loc(), ["case [%s]: found %s expected %s" % m for m in mism[:6]], config=cfg)
    # limit = override[arg] if present else threshold; lookup keyed by the checked argument
    sl = Slicer(f, b)
    keyed = False
    for bb, t in b.calls():
        if callee_is(t, "HashMap::<K, V, S>::get", "HashMap::get") :
            a0 = sl.of_operand(t["args"][0])
            a1 = sl.of_operand(t["args"][1])
            if any_atom(a0, "field:Rule.specific_items"):
                keyed = any_atom(a1, "param:arg")
                ctx.instance("C05.hs-decision/override-key", b.path, sorted(short(x) for x in a1 if x.startswith("param:")), "param:arg", keyed, cfg)
                if not keyed:
                    ctx.violation("C05.hs-decision", "C05.hs-decision|override-key", "per-value override is not looked up by the checked argument", b.loc(bb), config=cfg)
    # both limit sources feed the compared limit
    lim_atoms = set()
    obs_atoms = set()
    for bi, blk in enumerate(b.blocks):
        for s in blk["stmts"]:
            if s["k"] == "assign" and s["rv"]["k"] == "bin" and s["rv"]["op"] in D.CMP_OPS:
                for o in (s["rv"]["a"], s["rv"]["b"]):
                    at = sl.of_operand(o)
                    r = cls(at)
                    if r == "limit":
                        lim_atoms |= at
                    elif r == "observed":
                        obs_atoms |= at
    # the override replaces T whenever it is present: its value is compared with the in-flight count only - a side test on the value
    # itself (e.g. "0 means not configured") lets the general threshold apply to a value that has an override
    side = []
    for bi, blk in enumerate(b.blocks):
        if blk["cleanup"]:
            continue
        for s2 in blk["stmts"]:
            if s2["k"] == "assign" and s2["rv"]["k"] == "bin" and s2["rv"]["op"] in D.CMP_OPS and not s2.get("exp"):
                aa, ab = sl.of_operand(s2["rv"]["a"]), sl.of_operand(s2["rv"]["b"])
                for mine, other in ((aa, ab), (ab, aa)):
                    if any_atom(mine, "field:Rule.specific_items") and not any_atom(mine, "field:ParamsMetric.concurrency_counter") and cls(other) != "observed":
                        side.append(b.loc(bi))
    ctx.instance("C05.hs-decision/override-unconditional", b.path, {"side_tests_on_the_override_value": sorted(set(side))}, "the override value is only compared with the in-flight count", not side, cfg)
    if side:
        ctx.violation("C05.hs-decision", "C05.hs-decision|override-conditional", "a per-value override is used only under a test on its own value (%s): for the other values of the override the general threshold applies although an override exists" % sorted(set(side)), b.loc(), config=cfg)
    ok = any_atom(lim_atoms, "field:Rule.specific_items") and any_atom(lim_atoms, "field:Rule.threshold")
    ctx.instance("C05.hs-decision/limit-sources", b.path, sorted(short(a) for a in lim_atoms if a.startswith("field:")), ["Rule.specific_items", "Rule.threshold"], ok, cfg)
    if not ok:
        ctx.violation("C05.hs-decision", "C05.hs-decision|limit-sources", "the compared limit must come from the per-value override when present, else from rule.threshold", b.loc(), config=cfg)
    # "plus n": the observed side must include the entry's batch count
    has_batch = any(a.startswith("param:batch") or a.endswith("SentinelInput::batch_count") for a in obs_atoms)
    ctx.instance("C05.hs-batch", b.path, sorted(short(a) for a in obs_atoms if a.startswith(("param:", "const:", "op:"))), "observed side contains the batch count", has_batch, cfg)
    if not has_batch:
        ctx.violation("C05.hs-batch", "C05.hs-batch|hotspot-concurrency-ignores-batch",
                      "hotspot concurrency admission compares in_flight + 1 (a constant) with the limit; the statement says in-flight plus n (the entry's batch count)",
                      b.loc(), config=cfg)
    check_block_constants(ctx, f, b, "C05.hs-report", cfg, "HotSpotParamFlow", ["field:Controller.rule"], ["call:Atomic::<u64>::load"], "hotspot")


def pairing(ctx, f, cfg):
    slots = [b for b in f.impl_methods("StatSlot", "on_entry_pass") + f.impl_methods("StatSlot", "on_completed")
             if "hotspot" in b.path]
    by = {b.name: b for b in slots}
    if not ctx.floor("C05.anchor", "hotspot ConcurrencyStatSlot callbacks", len(by), 2):
        return
    forms = {}
    for name, b in by.items():
        sl = Slicer(f, b)
        rmw = []
        for bb, t in b.calls():
            cd = callee_def(t)
            if atomic_op(t) and atomic_op(t) != "load":
                recv = sl.of_operand(t["args"][0])
                val = const_val(t["args"][1]) if len(t["args"]) > 1 else None
                # guard: dominated by the `metric_type != Concurrency -> continue` false edge and by Some(arg)
                counter = any_atom(recv, "field:ParamsMetric.concurrency_counter")
                key_from_extract = any_atom(recv, "call:Controller::<C>::extract_args")
                guards = _guards(f, b, bb)
                op = cd.rsplit("::", 1)[1]
                if op == "fetch_update":
                    # a decrement that saturates at zero: fetch_update(.., |v| v.checked_sub(1)) / saturating_sub(1)
                    for defs in t.get("arg_defs", []):
                        for dpath in defs:
                            cb = f.bodies.get(dpath)
                            if cb is None:
                                continue
                            for _, ct in cb.calls():
                                if callee_def(ct).rsplit("::", 1)[-1] in ("checked_sub", "saturating_sub") and len(ct["args"]) == 2 and const_val(ct["args"][1]) is not None:
                                    op, val = "fetch_sub", const_val(ct["args"][1])
                rmw.append({"op": op, "val": val, "counter": counter, "key_from_extract_args": key_from_extract, "guards": guards})
        forms[name] = rmw
    exp_pass = [{"op": "fetch_add", "val": 1}]
    exp_done = [{"op": "fetch_sub", "val": 1}]

    def proj(l):
        return [{"op": x["op"], "val": x["val"]} for x in l]
    okp = proj(forms.get("on_entry_pass", [])) == exp_pass
    okc = proj(forms.get("on_completed", [])) == exp_done
    same = [(x["counter"], x["key_from_extract_args"], tuple(x["guards"])) for x in forms.get("on_entry_pass", [])] == \
           [(x["counter"], x["key_from_extract_args"], tuple(x["guards"])) for x in forms.get("on_completed", [])]
    allc = all(x["counter"] and x["key_from_extract_args"] for l in forms.values() for x in l)
    ok = okp and okc and same and allc
    ctx.instance("C05.hs-pairing", "ConcurrencyStatSlot::{on_entry_pass,on_completed}", forms,
                 "pass: one fetch_add(1); completed: one fetch_sub(1) (plain, or saturating through fetch_update + checked_sub(1)); same counter field, same key extraction, same guards", ok, cfg)
    if not ok:
        ctx.violation("C05.hs-pairing", "C05.hs-pairing|siblings",
                      "hotspot per-value in-flight counter is not raised by one on pass and lowered by one on completion under the same guard and key: %s" % forms,
                      by["on_entry_pass"].loc(), config=cfg)


def _guards(f, b, bb):
    """Comparison atoms (by role) and Some-matches that dominate bb — a line-free description of the guard."""
    out = []
    dom = b.dominators().get(bb, set())
    sl = Slicer(f, b)
    for d in sorted(dom):
        t = b.term(d)
        if t and t["k"] == "switch":
            at = sl.of_operand(t["op"])
            # which edge leads to bb?
            for v, tg in switch_edges(b, d):
                if tg == bb or b.dominates(tg, bb):
                    if any_atom(at, "field:Rule.metric_type"):
                        pol = "ne" if any_atom(at, "call:PartialEq::ne") else "eq"
                        out.append("metric_type %s Concurrency -> edge %s" % (pol, v))
                    elif any_atom(at, "call:Controller::<C>::extract_args") and "discr" in at and not any_atom(at, "field:ParamsMetric.concurrency_counter"):
                        out.append("extract_args is #%s" % v)
                    elif any_atom(at, "field:ParamsMetric.concurrency_counter") and "discr" in at:
                        out.append("counter lookup is #%s" % v)
    return out


def extraction(ctx, f, cfg):
    """C05.hs-extract: which argument a hotspot rule looks at.  Positional: args[param_index], a negative index counts from the end
    (param_index + len, added once), anything outside 0..len means "parameter missing" (None).  Keyed: attachments[param_key.trim()]
    when present; the keyed lookup has priority over the positional one."""
    from .relfacts import RelFacts
    lst = f.find("hotspot::traffic_shaping::Controller::<C>::extract_list_args")
    if not lst:
        lst = [b for p, b in f.bodies.items() if "hotspot::traffic_shaping::Controller" in p and any(callee_def(t).endswith("SentinelInput::args") for _, t in b.calls())]
    if not ctx.floor("C05.hs-extract", "hotspot positional argument extractor (reads SentinelInput::args)", len(lst), 1):
        return
    b = lst[0]
    sl = Slicer(f, b)
    rel = RelFacts(f)
    sites = [(bb, t) for bb, t in b.calls() if callee_def(t).endswith("Index::index") and "Vec<" in (t.get("arg_tys") or [""])[0]]
    ok = bool(sites)
    detail = {}
    for bb, t in sites:
        at = sl.of_operand(t["args"][1])
        ops = sorted(a for a in at if a.startswith("op:"))
        calls = sorted(a.rsplit("::", 1)[-1] for a in at if a.startswith("call:") and not a.endswith(("::len", "::deref", "::args", "::input", "::as_ref", "::unwrap")))
        bounds = rel.index_ok(b, bb, t["args"][0], t["args"][1])
        arith_ok = set(ops) <= {"op:Add", "op:Lt"} and not [c for c in calls if c in ("rem_euclid", "abs", "wrapping_add", "wrapping_sub", "checked_rem", "min", "max", "clamp", "unsigned_abs")] and any_atom(at, "field:Rule.param_index")
        from_end = "op:Add" in ops and any(a.endswith("::len") for a in at if a.startswith("call:"))
        detail = {"index_ops": ops, "other_calls": calls, "bounds": bounds, "negative_counts_from_end": from_end}
        ok = ok and arith_ok and bool(bounds) and from_end
    ctx.instance("C05.hs-extract/positional", b.path, detail, "args[param_index] or args[param_index + len], guarded by 0 <= idx < len; otherwise None", ok, cfg)
    if not ok:
        ctx.violation("C05.hs-extract", "C05.hs-extract|positional", "the positional parameter is not args[param_index] / args[param_index + len] within 0..len (a missing parameter must yield None): %s" % detail, b.loc(), config=cfg)
    kv = f.find("hotspot::traffic_shaping::Controller::<C>::extract_kv_args")
    if not kv:
        kv = [x for p, x in f.bodies.items() if "hotspot::traffic_shaping::Controller" in p and any(callee_def(t).endswith("SentinelInput::attachments") for _, t in x.calls())]
    if kv:
        k = kv[0]
        s2 = Slicer(f, k)
        idx = [(bb, t) for bb, t in k.calls() if callee_def(t).endswith("Index::index") and "HashMap<" in (t.get("arg_tys") or [""])[0]]
        okk = bool(idx)
        for bb, t in idx:
            ka = s2.of_operand(t["args"][1])
            okk = okk and any_atom(ka, "field:Rule.param_key")
        ctx.instance("C05.hs-extract/keyed", k.path, {"lookups": len(idx)}, "attachments[rule.param_key] (guarded by contains_key: C12)", okk, cfg)
        if not okk:
            ctx.violation("C05.hs-extract", "C05.hs-extract|keyed", "the keyed parameter is not looked up by the rule's param_key", k.loc(), config=cfg)
    ea = f.find("hotspot::traffic_shaping::Controller::<C>::extract_args")
    if ea:
        e = ea[0]
        order = [callee_def(t).rsplit("::", 1)[-1] for bb, t in sorted(e.calls(), key=lambda x: len(e.find_path([0], [x[0]]) or [])) if callee_def(t).rsplit("::", 1)[-1] in ("extract_kv_args", "extract_list_args")]
        oko = order[:2] == ["extract_kv_args", "extract_list_args"]
        ctx.instance("C05.hs-extract/priority", e.path, order, ["extract_kv_args", "extract_list_args"], oko, cfg)
        if not oko:
            ctx.violation("C05.hs-extract", "C05.hs-extract|priority", "keyed parameters no longer take priority over positional ones: %s" % order, e.loc(), config=cfg)
