"""Fact base, CFG utilities, origin slices, call graph (DESIGN §1.2)."""
import glob
import json
import os
import re
from collections import defaultdict, deque


# --------------------------------------------------------------------------
# Loading
# --------------------------------------------------------------------------

class Body:
    __slots__ = ("j", "path", "crate", "blocks", "kind", "file", "line", "name", "impl_self", "impl_trait",
                 "in_trait", "root", "argc", "locals", "_preds", "_defs", "_dom", "varname", "pub", "ret_ty",
                 "_pdom", "_uses")

    def __init__(self, j, crate):
        self.j = j
        self.crate = crate
        self.path = j["def"]
        self.blocks = j["blocks"]
        self.kind = j["kind"]
        self.file = j.get("file", "")
        self.line = j.get("line", 0)
        self.name = j.get("name")
        self.impl_self = j.get("impl_self")
        self.impl_trait = j.get("impl_trait")
        self.in_trait = j.get("in_trait")
        self.root = j.get("root")
        self.argc = j.get("argc", 0)
        self.locals = j["locals"]
        self.pub = j.get("pub", False)
        self.ret_ty = j.get("ret_ty", "")
        self._preds = None
        self._defs = None
        self._dom = None
        self._pdom = None
        self._uses = None
        self.varname = {}
        for v in j.get("vars", []):
            pl = v["pl"]
            if not pl["p"]:
                self.varname.setdefault(pl["l"], v["name"])

    # ---- CFG ----
    def term(self, bb):
        return self.blocks[bb]["term"]

    def succs(self, bb, unwind=False):
        t = self.blocks[bb]["term"]
        if t is None:
            return []
        k = t["k"]
        out = []
        if k == "goto":
            out = [t["target"]]
        elif k == "switch":
            out = [x[1] for x in t["targets"]] + [t["otherwise"]]
        elif k in ("drop", "assert"):
            out = [t["target"]]
        elif k == "call":
            out = [t["target"]] if t["target"] is not None else []
        elif k == "yield":
            out = [t["target"]]
            if unwind and t.get("drop") is not None:
                out.append(t["drop"])
        if unwind and t.get("unwind") is not None:
            out.append(t["unwind"])
        # de-dup, keep order
        seen = []
        for x in out:
            if x not in seen:
                seen.append(x)
        return seen

    def preds(self):
        if self._preds is None:
            p = defaultdict(list)
            for i in range(len(self.blocks)):
                for s in self.succs(i):
                    p[s].append(i)
            self._preds = p
        return self._preds

    def is_cleanup(self, bb):
        return self.blocks[bb]["cleanup"]

    def return_blocks(self):
        return [i for i, b in enumerate(self.blocks) if b["term"] and b["term"]["k"] == "return" and not b["cleanup"]]

    def calls(self, include_cleanup=False):
        for i, b in enumerate(self.blocks):
            if b["cleanup"] and not include_cleanup:
                continue
            t = b["term"]
            if t and t["k"] == "call":
                yield i, t

    def loc(self, bb=None, line=None):
        if line is None and bb is not None:
            t = self.blocks[bb]["term"]
            line = (t or {}).get("dline") or (t or {}).get("line") or self.line
            if not line:
                for s in self.blocks[bb]["stmts"]:
                    if s.get("line"):
                        line = s["line"]
                        break
        return "%s:%s" % (self.file, line or self.line)

    def local_ty(self, l):
        return self.locals[l]["ty"]

    # ---- reachability / dominance ----
    def reachable(self, starts, avoid=(), unwind=False):
        avoid = set(avoid)
        seen = set()
        dq = deque(s for s in starts if s not in avoid)
        seen.update(dq)
        while dq:
            x = dq.popleft()
            for s in self.succs(x, unwind):
                if s not in seen and s not in avoid:
                    seen.add(s)
                    dq.append(s)
        return seen

    def find_path(self, starts, goals, avoid=(), unwind=False):
        """Shortest block path from any start to any goal avoiding `avoid` (None if none)."""
        avoid = set(avoid)
        goals = set(goals)
        prev = {}
        dq = deque()
        for s in starts:
            if s in avoid:
                continue
            prev[s] = None
            dq.append(s)
        while dq:
            x = dq.popleft()
            if x in goals:
                out = []
                while x is not None:
                    out.append(x)
                    x = prev[x]
                return out[::-1]
            for s in self.succs(x, unwind):
                if s not in prev and s not in avoid:
                    prev[s] = x
                    dq.append(s)
        return None

    def dominators(self):
        """dom[b] = set of blocks dominating b (non-unwind CFG, entry 0)."""
        if self._dom is None:
            n = len(self.blocks)
            reach = self.reachable([0])
            order = self._rpo()
            preds = self.preds()
            full = set(reach)
            dom = {b: set(full) for b in reach}
            dom[0] = {0}
            changed = True
            while changed:
                changed = False
                for b in order:
                    if b == 0:
                        continue
                    ps = [p for p in preds[b] if p in reach]
                    if not ps:
                        continue
                    new = set.intersection(*(dom[p] for p in ps)) | {b}
                    if new != dom[b]:
                        dom[b] = new
                        changed = True
            self._dom = dom
        return self._dom

    def _rpo(self):
        seen = set()
        post = []
        stack = [(0, iter(self.succs(0)))]
        seen.add(0)
        while stack:
            b, it = stack[-1]
            adv = False
            for s in it:
                if s not in seen:
                    seen.add(s)
                    stack.append((s, iter(self.succs(s))))
                    adv = True
                    break
            if not adv:
                post.append(b)
                stack.pop()
        return post[::-1]

    def dominates(self, a, b):
        d = self.dominators()
        return b in d and a in d[b]

    def in_loop(self, bb):
        """True if bb can reach itself."""
        return bb in self.reachable(self.succs(bb))

    def scc_of(self, bb):
        """Blocks mutually reachable with bb (its loop), or {bb} if bb is not in a loop."""
        fwd = self.reachable(self.succs(bb))
        if bb not in fwd:
            return {bb}
        out = {bb}
        for x in fwd:
            if bb in self.reachable(self.succs(x)):
                out.add(x)
        return out

    def loop_exits(self, scc):
        """Edges (src, dst) leaving the block set."""
        out = []
        for x in sorted(scc):
            for s in self.succs(x):
                if s not in scc:
                    out.append((x, s))
        return out

    # ---- defs ----
    def defs(self):
        """local -> list of ('assign'|'call', bb, idx, node, projs)"""
        if self._defs is None:
            d = defaultdict(list)
            for bi, b in enumerate(self.blocks):
                for si, s in enumerate(b["stmts"]):
                    if s["k"] == "assign":
                        d[s["lhs"]["l"]].append(("assign", bi, si, s, s["lhs"]["p"]))
                t = b["term"]
                if t and t["k"] == "call":
                    d[t["dest"]["l"]].append(("call", bi, None, t, t["dest"]["p"]))
                if t and t["k"] == "yield":
                    pass
            self._defs = d
        return self._defs

    def vname(self, l):
        return self.varname.get(l)

    def param_name(self, l):
        if 1 <= l <= self.argc:
            return self.varname.get(l) or ("arg%d" % l)
        return None


class Facts:
    def __init__(self, facts_dir, crates=None):
        self.dir = facts_dir
        self.bodies = {}
        self.adts = {}
        self.impls = []
        self.traits = {}
        self.statics = {}
        self.fns = {}
        self.features = {}
        self.crates = []
        self.n_calls = 0
        for f in sorted(glob.glob(os.path.join(facts_dir, "*.json"))):
            if os.path.basename(f) == "STAMP.json":
                continue
            name = os.path.basename(f).split(".")[0]
            if crates is not None and name not in crates:
                continue
            j = json.load(open(f))
            self.crates.append(name)
            self.features[name] = j["features"]
            self.n_calls += j["n_calls"]
            multi = crates is None or len(crates) > 1
            for b in j["bodies"]:
                body = Body(b, name)
                key = body.path if not (multi and name not in ("sentinel_core",)) else name + "::" + body.path
                if multi and name not in ("sentinel_core",):
                    body.path = key
                self.bodies[key] = body
            if name in ("sentinel_core", "sentinel_tower") or not multi:
                for a in j["adts"]:
                    self.adts[a["def"]] = a
                self.impls.extend(j["impls"])
                for t in j["traits"]:
                    self.traits[t["def"]] = t
                for s in j["statics"]:
                    self.statics[s["def"]] = s
                for fn in j["fns"]:
                    self.fns[fn["def"]] = fn
        self._index()

    def _index(self):
        # trait method def -> [impl method def]
        self.impl_of_trait_item = defaultdict(list)
        self.drop_impls = {}  # self_ty -> drop method def
        for im in self.impls:
            for it in im["items"]:
                ti = it.get("trait_item")
                if ti:
                    self.impl_of_trait_item[ti].append(it["def"])
            if im.get("trait") in ("std::ops::Drop", "core::ops::Drop"):
                for it in im["items"]:
                    if it["name"] == "drop":
                        self.drop_impls[im["self_ty"]] = it["def"]
        self.fmt_impls = defaultdict(list)
        for im in self.impls:
            if im.get("trait") in ("std::fmt::Display", "std::fmt::Debug") and not im.get("exp"):
                for it in im["items"]:
                    if it["name"] == "fmt":
                        self.fmt_impls[(im["trait"], im["self_ty"])].append(it["def"])
        self.closures_by_root = defaultdict(list)
        for p, b in self.bodies.items():
            if b.root:
                self.closures_by_root[b.root].append(p)
        # Box<dyn Fn..> coercions: dyn type string -> set(def paths)
        self.dyn_fn_sources = defaultdict(set)
        for p, b in self.bodies.items():
            for blk in b.blocks:
                for s in blk["stmts"]:
                    if s["k"] == "assign" and s["rv"]["k"] == "cast" and "PointerCoercion" in s["rv"]["kind"]:
                        ty = s["rv"]["ty"]
                        m = re.search(r"dyn (for<[^>]*> )?(std::ops::)?Fn", ty)
                        if m:
                            for d in s["rv"].get("src_defs", []):
                                self.dyn_fn_sources[_dyn_sig(ty)].add(d)
        self._callers = None
        self._cg = {}

    # ---- lookup helpers ----
    def body(self, path):
        return self._v(self.bodies.get(path))

    def _v(self, b):
        """rules get the normalised view of every body they look up by role (set auto_view = False for the raw MIR)"""
        if b is None or not getattr(self, "auto_view", False):
            return b
        return self.view(b)

    def raw(self, b):
        return getattr(b, "base", b)

    def view(self, body, keep=(), unfold=True, policy=None):
        """normalised view of a body (sa/inline.py): private helpers inlined, closures of higher-order std calls unfolded"""
        from . import inline
        if body is None:
            return None
        if isinstance(body, inline.ViewBody):
            return body
        key = (body.path, tuple(sorted(keep)), unfold, policy)
        c = self.__dict__.setdefault("_views", {})
        if key not in c:
            c[key] = inline.build(self, body, policy=policy, keep=keep, unfold=unfold)
        return c[key]

    def find(self, suffix):
        """bodies whose path ends with `suffix` (segment boundary)."""
        out = []
        for p, b in self.bodies.items():
            if p == suffix or p.endswith("::" + suffix):
                out.append(self._v(b))
        return out

    def one(self, suffix):
        r = self.find(suffix)
        return r[0] if len(r) == 1 else None

    def impl_methods(self, trait, method):
        """Bodies implementing trait::method (trait path suffix match), plus impl self types."""
        out = []
        for p, b in self.bodies.items():
            if b.name == method and b.impl_trait and (b.impl_trait == trait or b.impl_trait.endswith("::" + trait)):
                out.append(self._v(b))
        return out

    def trait_default(self, trait, method):
        for p, b in self.bodies.items():
            if b.name == method and b.in_trait and (b.in_trait == trait or b.in_trait.endswith("::" + trait)):
                return self._v(b)
        return None

    def closures_of(self, body):
        return [self.bodies[p] for p in self.closures_by_root.get(body.root or body.path, []) if p in self.bodies]

    # ---- call graph ----
    def call_targets(self, body, t):
        """Resolve a call terminator to a list of body paths in the fact base.
        Also returns pseudo nodes 'EXTERNAL(<dyn sig>)' for calls through Box<dyn Fn>."""
        c = t["callee"]
        out = []
        if "indirect" in c:
            return out
        d = c["def"]
        res = c.get("resolved")
        rk = c.get("rk")
        prefix = ""
        if body.crate not in ("sentinel_core",) and body.path.startswith(body.crate + "::"):
            prefix = body.crate + "::"
        def have(p):
            if c.get("local") and prefix and (prefix + p) in self.bodies:
                return prefix + p
            if p in self.bodies and (c.get("local") or True):
                return p
            return None
        if res and rk == "item":
            h = have(res)
            if h:
                out.append(h)
        elif res and rk == "closure_once":
            h = have(res)
            if h:
                out.append(h)
        if not out and c.get("trait") and (not res or rk == "virtual"):
            # CHA over impls in the analysed crates (only for calls rustc could not resolve to one item)
            for m in self.impl_of_trait_item.get(d, []):
                if m in self.bodies:
                    out.append(m)
            if d in self.bodies:  # default method body
                out.append(d)
        # formatting machinery: Argument::new_display::<T> / new_debug::<T> / ToString::to_string call <T as Display/Debug>::fmt
        tail = d.rsplit("::", 1)[-1]
        if tail in ("new_display", "new_debug") and "fmt::rt::Argument" in d or (tail == "to_string" and c.get("trait", "").endswith("ToString")):
            tr = "std::fmt::Debug" if tail == "new_debug" else "std::fmt::Display"
            ty = (c.get("targs") or [""])[-1 if tail != "to_string" else 0]
            ty = ty.lstrip("&").replace("mut ", "")
            # Display/Debug of &T, Arc<T>, Box<T>, Rc<T> forward to T
            for _ in range(4):
                ty = ty.lstrip("&")
                m0 = re.match(r"^(?:std::sync::Arc|std::boxed::Box|std::rc::Rc)<(.*)>$", ty)
                if not m0:
                    break
                ty = m0.group(1)
            for m in self.fmt_impls.get((tr, ty), ()):
                out.append(m)
        # Fn::call / FnMut::call_mut / FnOnce::call_once on a dyn Fn object or a closure
        if c.get("trait", "").endswith(("ops::Fn", "ops::FnMut", "ops::FnOnce")):
            self_ty = c["targs"][0] if c["targs"] else ""
            if "dyn " in self_ty:
                sig = _dyn_sig(self_ty)
                for s in self.dyn_fn_sources.get(sig, ()):
                    if s in self.bodies:
                        out.append(s)
                out.append("EXTERNAL(%s)" % sig)
        # closures / fn items passed as arguments to non-local callees are assumed to be invoked
        if not c.get("local") and not d.endswith(("Box::<T>::new", "Arc::<T>::new", "Rc::<T>::new", "Box::<T>::pin", "Mutex::<T>::new", "RwLock::<T>::new")):
            for defs in t.get("arg_defs", []):
                for dd in defs:
                    h = have(dd)
                    if h and h not in out:
                        out.append(h)
        seen = []
        for x in out:
            if x not in seen:
                seen.append(x)
        return seen

    def callees(self, body):
        key = (body.path, hasattr(body, "base"))
        if key not in self._cg:
            outs = []
            for bb, t in body.calls():
                for tgt in self.call_targets(body, t):
                    outs.append((bb, t, tgt))
            self._cg[key] = outs
        return self._cg[key]

    def callers_of(self, path):
        if self._callers is None:
            cs = defaultdict(list)
            for p, b in self.bodies.items():
                for bb, t, tgt in self.callees(b):
                    cs[tgt].append((b, bb, t))
            self._callers = cs
        return self._callers.get(path, [])

    def reach_bodies(self, roots, stop=()):
        """Call-graph closure from root body paths. Returns dict path -> (parent path, bb) for witness chains."""
        parent = {}
        dq = deque()
        for r in roots:
            if r in self.bodies and r not in parent:
                parent[r] = None
                dq.append(r)
        while dq:
            p = dq.popleft()
            b = self.bodies[p]
            for bb, t, tgt in self.callees(b):
                if tgt in parent or tgt in stop:
                    continue
                if tgt.startswith("EXTERNAL("):
                    continue
                parent[tgt] = (p, bb)
                dq.append(tgt)
        return parent

    def chain(self, parent, path):
        out = []
        cur = path
        while cur is not None:
            pr = parent.get(cur)
            if pr is None:
                out.append(cur)
                break
            out.append("%s (called at %s)" % (cur, self.bodies[pr[0]].loc(pr[1])))
            cur = pr[0]
        return out[::-1]


def _dyn_sig(ty):
    """Canonical signature of a dyn Fn type inside a type string: '(A, B) -> R'."""
    m = re.search(r"dyn (?:for<[^>]*> )?(?:std::ops::|core::ops::)?(Fn(?:Mut|Once)?)\((.*)", ty)
    if not m:
        return ty
    rest = m.group(2)
    depth = 1
    i = 0
    while i < len(rest) and depth:
        if rest[i] == "(":
            depth += 1
        elif rest[i] == ")":
            depth -= 1
        i += 1
    args = rest[: i - 1]
    tail = rest[i:]
    ret = ""
    m2 = re.match(r"\s*->\s*([^+]*?)(?:\s*\+.*)?$", tail.rstrip(">").rstrip())
    if m2:
        ret = m2.group(1).strip()
    args = re.sub(r"'[a-z_0-9]+ ?", "", args)
    ret = re.sub(r"'[a-z_0-9]+ ?", "", ret)
    # trailing unmatched '>' from enclosing generics
    while ret.count(">") > ret.count("<"):
        ret = ret[:-1].rstrip()
    return "(%s) -> %s" % (args, ret)


# --------------------------------------------------------------------------
# Operands, places, callee names
# --------------------------------------------------------------------------

def callee_def(t):
    c = t["callee"]
    return c.get("def", "")


def callee_resolved(t):
    c = t["callee"]
    return c.get("resolved") or c.get("def", "")


def callee_is(t, *names):
    """Match callee by def or resolved path (exact or '::' suffix)."""
    c = t["callee"]
    cands = [c.get("def", ""), c.get("resolved") or ""]
    for n in names:
        for x in cands:
            if x == n or x.endswith("::" + n):
                return True
    return False


def op_place(op):
    if op and op.get("k") in ("copy", "move"):
        return op["pl"]
    return None


def op_const(op):
    if op and op.get("k") == "const":
        return op
    return None


def const_val(op):
    if op and op.get("k") == "const":
        if "val" in op:
            return op["val"]
    return None


def resolve_const(b, op, depth=6):
    """constant value of an operand, following plain single-definition copies (parameters of inlined helpers are such copies)"""
    for _ in range(depth):
        v = const_val(op)
        if v is not None or op is None:
            return v
        pl = op_place(op)
        if pl is None or pl["p"]:
            return None
        ds = b.defs().get(pl["l"], [])
        if len(ds) != 1 or ds[0][0] != "assign" or ds[0][3]["rv"]["k"] not in ("use", "cast"):
            return None
        op = ds[0][3]["rv"]["op"]
    return None


def place_str(pl):
    s = "_%d" % pl["l"]
    for p in pl["p"]:
        s += p if p.startswith((".", "[")) else "(" + p + ")"
    return s


def field_names(pl):
    out = []
    for p in pl["p"]:
        if p.startswith(".") and not p[1:].isdigit():
            out.append(p[1:])
    return out


TRANSPARENT = (
    "Deref::deref", "DerefMut::deref_mut", "Clone::clone", "Option::<T>::unwrap", "Result::<T, E>::unwrap",
    "Option::<T>::as_ref", "Option::<T>::as_mut", "Option::<T>::expect", "Result::<T, E>::expect",
    "Borrow::borrow", "AsRef::as_ref", "Into::into", "From::from", "TryInto::try_into", "TryFrom::try_from",
    "Option::<T>::cloned", "Option::<&T>::cloned", "Option::<T>::copied", "Option::<&T>::copied",
    "ToOwned::to_owned", "Option::<T>::unwrap_or", "Option::<T>::unwrap_or_default",
    "Result::<T, E>::unwrap_or", "Result::<T, E>::ok", "Try::branch", "Option::<T>::as_deref",
    "Arc::<T>::clone", "IntoIterator::into_iter", "Iterator::next",
)


def is_transparent(t):
    return callee_is(t, *TRANSPARENT)


class Slicer:
    """Backward data-dependency slice inside one body, returning origin atoms (DESIGN §1.2).

    Atoms:  param:<name>   upvar:<name>   field:<Adt.field>   call:<callee>   callc:<callee>[<const args>]
            const:<v>      variant:<Adt>::<V>   static:<path>  fn:<path>  op:<BinOp>  local:<user var>
    """

    def __init__(self, facts, body, depth=1):
        self.f = facts
        self.b = body
        self.depth = depth
        self.memo = {}

    def of_operand(self, op):
        atoms = set()
        self._operand(op, atoms, set())
        return atoms

    def of_place(self, pl):
        atoms = set()
        self._place(pl, atoms, set())
        return atoms

    def of_local(self, l):
        return self.of_place({"l": l, "p": []})

    def _operand(self, op, atoms, seen):
        if op is None:
            return
        k = op.get("k")
        if k == "const":
            if "fn" in op:
                atoms.add("fn:" + op["fn"])
            elif "static" in op:
                atoms.add("static:" + op["static"])
            elif "item" in op:
                atoms.add("item:" + op["item"])
                if "val" in op:
                    atoms.add("const:%s" % (op.get("fval") or op["val"]))
            elif "val" in op:
                atoms.add("const:%s" % (op.get("fval") or op["val"]))
            else:
                atoms.add("const:" + op.get("text", "?"))
        elif k in ("copy", "move"):
            self._place(op["pl"], atoms, seen)

    def _place(self, pl, atoms, seen):
        for fn in field_names(pl):
            atoms.add("field:" + fn)
        for p in pl["p"]:
            if p.startswith("[_"):
                self._local(int(p[2:-1]), atoms, seen)
        # component-precise for tuples built locally: `_t.1` where `_t = (a, b)` (or a copy of such a tuple) is b, not a and b
        if pl["p"] and re.fullmatch(r"\.\d+", pl["p"][0]) and self._tuple_component(pl, atoms, seen):
            return
        self._local(pl["l"], atoms, seen)

    def _tuple_component(self, pl, atoms, seen, depth=0):
        n = int(pl["p"][0][1:])
        ds = self.b.defs().get(pl["l"], [])
        if not ds or depth > 6:
            return False
        plans = []
        for kind, bi, si, node, projs in ds:
            if kind != "assign" or projs:
                return False
            rv = node["rv"]
            if rv["k"] == "agg" and rv.get("tuple") and n < len(rv["ops"]):
                plans.append(("op", rv["ops"][n]))
            elif rv["k"] == "use" and rv["op"].get("k") in ("copy", "move"):
                plans.append(("pl", {"l": rv["op"]["pl"]["l"], "p": list(rv["op"]["pl"]["p"]) + [pl["p"][0]]}))
            else:
                return False
        key = ("tc", pl["l"], n)
        if key in seen:
            return True
        seen.add(key)
        nm = self.b.vname(pl["l"])
        if nm:
            atoms.add("local:%s" % nm)
            atoms.add("lid:%d" % pl["l"])
        for kind, x in plans:
            if kind == "op":
                self._operand(x, atoms, seen)
            else:
                self._place(x, atoms, seen)
        return True

    def _local(self, l, atoms, seen):
        if l in seen:
            return
        seen.add(l)
        b = self.b
        nm = b.vname(l)
        if 1 <= l <= b.argc:
            if b.kind == "Closure" and l == 1:
                atoms.add("env")
            else:
                atoms.add("param:%s" % (nm or ("arg%d" % l)))
        elif nm:
            atoms.add("local:%s" % nm)
            atoms.add("lid:%d" % l)
        for kind, bi, si, node, projs in b.defs().get(l, []):
            if kind == "assign":
                if node.get("inl_callee"):
                    atoms.add("call:" + node["inl_callee"])     # value returned by an inlined helper: keep the call's name as an origin too
                self._rvalue(node["rv"], atoms, seen)
            else:
                t = node
                name = callee_def(t) or "<indirect>"
                atoms.add("call:" + name)
                res = t["callee"].get("resolved")
                if res and res != name:
                    atoms.add("call:" + res)
                cargs = []
                for a in t["args"]:
                    if a.get("k") == "const" and ("val" in a or "text" in a):
                        cargs.append(str(a.get("val", a.get("text"))))
                for a in t["args"]:
                    self._operand(a, atoms, seen)
                if "indirect" in t["callee"]:
                    self._operand(t["callee"]["indirect"], atoms, seen)

    def _rvalue(self, rv, atoms, seen):
        k = rv["k"]
        if k == "cast":
            kind = rv.get("kind", "")
            if kind.startswith("FloatToInt"):
                atoms.add("cast:FloatToInt")
            elif kind.startswith("IntToInt"):
                m1 = re.search(r"(\d+)$", rv.get("src_ty", ""))
                m2 = re.search(r"(\d+)$", rv.get("ty", ""))
                if m1 and m2 and int(m2.group(1)) < int(m1.group(1)):
                    atoms.add("cast:narrow")
        if k in ("use", "cast", "repeat"):
            self._operand(rv["op"], atoms, seen)
        elif k in ("ref", "rawptr", "discr"):
            if k == "discr":
                atoms.add("discr")
            self._place(rv["pl"], atoms, seen)
        elif k == "bin":
            atoms.add("op:" + rv["op"].replace("WithOverflow", ""))
            self._operand(rv["a"], atoms, seen)
            self._operand(rv["b"], atoms, seen)
        elif k == "un":
            atoms.add("op:" + rv["op"])
            self._operand(rv["a"], atoms, seen)
        elif k == "agg":
            if "adt" in rv:
                atoms.add("variant:%s::%s" % (rv["adt"], rv["variant"]))
            if "closure" in rv:
                atoms.add("closure:" + rv["closure"])
            for o in rv["ops"]:
                self._operand(o, atoms, seen)


def atoms_have(atoms, *pats):
    """True if for every pattern some atom equals it or ends with it (suffix match on '::'/'.' boundaries)."""
    for p in pats:
        if not any_atom(atoms, p):
            return False
    return True


def any_atom(atoms, pat):
    kind, _, rest = pat.partition(":")
    for a in atoms:
        k, _, r = a.partition(":")
        if k != kind:
            continue
        if r == rest or r.endswith("::" + rest) or r.endswith("." + rest):
            return True
    return False


# --------------------------------------------------------------------------
# Must-pass-through (A4)
# --------------------------------------------------------------------------

def must_pass(body, starts, goals, through, unwind=False):
    """Every path from `starts` to `goals` passes through a block in `through`?
    Returns None if yes, else a witness block path."""
    return body.find_path(starts, goals, avoid=through, unwind=unwind)


def call_blocks(body, *names, pred=None):
    out = []
    for bb, t in body.calls():
        if callee_is(t, *names) and (pred is None or pred(t)):
            out.append(bb)
    return out


def ok_edge_dominates(f, b, site_bb, callee_pat, extra=None, sl=None):
    """Is block `site_bb` dominated by the SUCCESS edge of a test on the Result returned by a call matching `callee_pat` ("call:<name>"
    atom pattern)?  Success edge = Continue of `?`, the Ok arm of a match / if-let on the Result (also the fall-through of
    `if let Err(e) = r { return .. }`), the true edge of is_ok(), the false edge of is_err().  `extra(atoms)` may add a condition on
    the tested value's origin."""
    sl = sl or Slicer(f, b)
    for d in b.dominators().get(site_bb, ()):
        tt = b.term(d)
        if not tt or tt["k"] != "switch":
            continue
        a = sl.of_operand(tt["op"])
        if not any_atom(a, callee_pat) or (extra is not None and not extra(a)):
            continue
        cont = []
        if "discr" in a:
            cont = [tg for v, tg in tt["targets"] if v == 0]
            if not cont and len(tt["targets"]) == 1 and tt["targets"][0][0] == 1 and (b.term(tt["otherwise"]) or {}).get("k") != "unreachable":
                cont = [tt["otherwise"]]
        elif tt.get("ty") == "bool" and (any_atom(a, "call:is_ok") or any_atom(a, "call:is_err")):
            te = bool_edge_targets(b, d)
            if te:
                neg = ("op:Not" in a) != bool(any_atom(a, "call:is_err"))
                cont = [te[1] if neg else te[0]]
        if cont and b.dominates(cont[0], site_bb):
            return True
    return False


def site_args(body, bb):
    """argument operands of the call at `bb` - or, where a view inlined the callee there, the values its parameters were bound to"""
    t = body.blocks[bb]["term"]
    if t and t["k"] == "call":
        return t["args"]
    if t and t["k"] == "goto" and t.get("inl_call"):
        return [s["rv"]["op"] for s in body.blocks[bb]["stmts"] if s.get("inl") == "param"]
    return []


def site_dest(body, bb):
    """destination local of the call at `bb` / of the inlined callee's result"""
    t = body.blocks[bb]["term"]
    if t and t["k"] == "call":
        return t["dest"]["l"]
    if t and t["k"] == "goto" and t.get("inl_call"):
        for blk in body.blocks:
            for s in blk["stmts"]:
                if s.get("inl") == "ret" and s.get("inl_callee", "").endswith(t["inl_call"].rsplit("::", 1)[-1]):
                    return s["lhs"]["l"]
    return None


def call_or_inlined(body, *names):
    """blocks where a function named by `names` is called, or - in a normalised view - where its inlined copy starts"""
    out = []
    for i, blk in enumerate(body.blocks):
        if blk["cleanup"]:
            continue
        t = blk["term"]
        if not t:
            continue
        if t["k"] == "call" and callee_is(t, *names):
            out.append(i)
        elif t["k"] == "goto" and t.get("inl_call"):
            d = t["inl_call"]
            if any(d == n or d.endswith("::" + n) for n in names):
                out.append(i)
    return out


def fmt_path(body, blocks):
    return " -> ".join("bb%d(%s)" % (b, body.loc(b).rsplit(":", 1)[1]) for b in blocks)


# --------------------------------------------------------------------------
# Branch conditions
# --------------------------------------------------------------------------

def switch_edges(body, bb):
    """For a switch block: list of (value or 'otherwise', target)."""
    t = body.term(bb)
    if not t or t["k"] != "switch":
        return []
    out = [(v, tg) for v, tg in t["targets"]]
    out.append(("otherwise", t["otherwise"]))
    return out


def bool_edge_targets(body, bb):
    """For a bool switch: (true_target, false_target) or None."""
    t = body.term(bb)
    if not t or t["k"] != "switch" or t.get("ty") != "bool":
        return None
    f = None
    for v, tg in t["targets"]:
        if v == 0:
            f = tg
    if f is None:
        return None
    return (t["otherwise"], f)


def def_of_local(body, l):
    """Unique whole-local definition (kind, bb, idx, node) or None."""
    ds = [d for d in body.defs().get(l, []) if not d[4]]
    if len(ds) == 1:
        return ds[0]
    return None


_ATOMIC_RE = re.compile(r"(?:^|::)atomic::Atomic(?:::<[^>]*>|[A-Z][A-Za-z0-9]*)?::([a-z_]+)$")


def discr_of_call(b, op, *names):
    """True if operand `op` is (a copy of) the discriminant of the value a call to one of `names` returned directly"""
    pl = op_place(op) if op else None
    for _ in range(4):
        if pl is None:
            return False
        ds = b.defs().get(pl["l"], [])
        if len(ds) != 1:
            return False
        kind, bi, si, node, projs = ds[0]
        if kind == "call":
            return callee_is(node, *names)
        rv = node["rv"]
        if rv["k"] == "discr":
            pl = rv["pl"]
        elif rv["k"] in ("use", "cast"):
            pl = op_place(rv["op"])
        elif rv["k"] == "ref":
            pl = rv["pl"]
        else:
            return False
    return False


def atomic_op(t):
    """Name of the std atomic operation called (load, store, fetch_add, ...) or None."""
    m = _ATOMIC_RE.search(callee_def(t))
    return m.group(1) if m else None


def source_attrs(repo, file, line):
    """Attributes written directly above the item that starts at file:line (derive helper attributes such as #[serde(..)] do not
    survive into HIR, so they are read from the source text the compiler was given).  Returns a list of attribute strings."""
    path = file if os.path.isabs(file) else os.path.join(repo, file)
    try:
        lines = open(path, encoding="utf-8", errors="replace").read().split("\n")
    except OSError:
        return []
    i = line - 2
    depth = 0
    chunk = []
    while i >= 0:
        raw = lines[i]
        st = raw.strip()
        code = re.sub(r'"(?:[^"\\]|\\.)*"', '""', st.split("//")[0] if not st.startswith("//") else "")
        closes = code.count("]") + code.count(")")
        opens = code.count("[") + code.count("(")
        if depth > 0 or st.startswith("#[") or st.startswith("//") or (closes > opens and (st.endswith(")]") or st.endswith(")"))):
            depth += closes - opens
            chunk.append(raw)
            i -= 1
            continue
        break
    text = "\n".join(reversed(chunk))
    out = []
    j = 0
    while True:
        k = text.find("#[", j)
        if k < 0:
            break
        d = 0
        m = k + 1
        while m < len(text):
            if text[m] == "[":
                d += 1
            elif text[m] == "]":
                d -= 1
                if d == 0:
                    break
            m += 1
        out.append(re.sub(r"\s+", " ", text[k:m + 1]))
        j = m + 1
    return out
