"""C12 — valid rules are enforceable without panics; invalid input never poisons Sentinel.

Decided (DESIGN §3 C12, A3):
  C12.reach            from the public entry points (every pub fn of the five rule managers, EntryBuilder::build, EntryStrongPtr::exit)
                       no panic site is reachable in the call graph (dyn slot calls by class hierarchy, closures, drop glue) unless it is
                       discharged locally by the analysis (dominating is_some/is_ok/match/contains_key/length/non-zero tests, locally
                       constructed Some/Ok) or by a table row naming one function role and one operand origin with its reason
  C12.under-lock       a table-discharged site whose argument depends on other threads must not run under a shared lock
  C12.generators       G1/G2: every built-in generator installs calculator/checker (and their owner back-pointers) before publishing
  overflow asserts are listed, not gated (they exist only with overflow checks on).
"""
from .core import *
from .lockgraph import LockGraph
from . import panics
from .panics import PanicSites, table_row, entry_held, is_shared, _origin_key


def entry_points(f):
    eps = [b.path for b in panics.manager_fns(f)]
    for suf in ("EntryBuilder::build", "EntryStrongPtr::exit", "EntryBuilder::new", "api::base::trace_error"):
        b = f.one(suf)
        if b is not None:
            eps.append(b.path)
    return eps


def run(ctx):
    ctx.explanation = (
        "Panic-reachability analysis over MIR: every Assert terminator (bounds, division/remainder by zero; overflow listed only) and "
        "every call to unwrap/expect/index/remove/RefCell::borrow/LocalKey::with/core::panicking::* reachable from the managers' public "
        "functions, EntryBuilder::build and EntryStrongPtr::exit is either discharged by a local dominance argument computed by the "
        "analysis (test on the same value, must-nonzero dataflow with validator summaries, contains_key on the same map and key) or by a "
        "table row (function role + operand origin + reason); the rest are reported with the call chain. Poison-class unwraps are "
        "discharged by the under-lock obligation itself.")
    ctx.not_decided = "panics inside third-party crates not named by a table row; non-termination other than lock cycles (C15)."
    ctx.assumptions = ["custom generators / listeners / slots (EXTERNAL) are excluded and reported as such",
                       "overflow asserts do not gate (profile dependent)"]
    cfgs = ["core-default", "core-super"] if True else ["core-default"]
    for cfg in cfgs:
        f = ctx.facts(cfg)
        g = LockGraph(f)
        g.build()
        reach_rule(ctx, f, g, cfg)
        if cfg == "core-default":
            generators(ctx, f, cfg)
            premises(ctx, f, cfg)
            underflow(ctx, f, cfg)
            # overflow asserts are listed only (profile dependent), with one exception that is decidable from the types: the ms<->ns
            # factor applied in 32-bit arithmetic overflows inside the documented range of the rule fields (panic in the generator,
            # under the manager locks)
            from . import rules_C07
            rules_C07.pacing_arithmetic(ctx, f, cfg, R="C12.overflow/unit-conversion")
            # a statistics object is handed to a checker that did not fill it only if the reuse predicate ignores what selects the
            # checker: the hotspot reject checker then retries forever on a value the throttling checker registered (hang)
            from . import rules_C11
            for fam in ("hotspot", "circuitbreaker", "flow"):
                rules_C11.reuse_shape(ctx, f, fam, cfg, R="C12.hang/reuse-shape")
            lru_recency(ctx, f, cfg)
            # premise of several table rows ("only valid rules reach a controller / breaker"): the validity filter of every manager
            from . import rules_C10
            for fam in rules_C10.FAMILIES:
                bodies = rules_C10.manager_bodies(f, fam)
                if bodies:
                    rules_C10.validity(ctx, f, rules_C10.ValidSets(f, bodies, fam), fam, bodies, cfg)


def reach_rule(ctx, f, g, cfg):
    ps = PanicSites(f)
    eps = entry_points(f)
    ctx.floor("C12.reach", "entry points (pub manager fns + build/exit) in %s" % cfg, len(eps), 30)
    reach = f.reach_bodies(eps)
    # drop glue is part of reachability too
    work = list(reach)
    while work:
        p = work.pop()
        b = f.bodies[p]
        for bb, kind, tgt in g.out_calls(b):
            if kind == "drop" and tgt in f.bodies and tgt not in reach:
                reach[tgt] = (p, bb)
                work.append(tgt)
                for q in f.reach_bodies([tgt]):
                    if q not in reach:
                        reach[q] = (tgt, 0)
                        work.append(q)
    eh = entry_held(f, g)
    counts = {"sites": 0, "poison": 0, "local": 0, "table": 0, "overflow": 0, "undischarged": 0}
    used_rows = set()
    for s in ps.sites():
        b = s["body"]
        if b.path not in reach:
            continue
        counts["sites"] += 1
        if s["poison"]:
            counts["poison"] += 1
            continue
        d = ps.discharge_local(s)
        if d:
            if d.startswith("listed-only"):
                counts["overflow"] += 1
            else:
                counts["local"] += 1
                if counts["local"] <= 6:
                    ctx.instance("C12.reach/local", "%s@%s" % (b.path, s["kind"]), d, "locally discharged", True, cfg)
            continue
        t = s["term"]
        atoms = panics.site_atoms(f, s)
        row = table_row(s, atoms, f)
        r = g.lm.analyse(b)
        held = {r["acq"][j]["cls"] for j in r["held_at_term"].get(s["bb"], ())} | eh.get(b.path, set())
        held = sorted(c for c in held if is_shared(c))
        if row:
            counts["table"] += 1
            used_rows.add(row[0])
            ctx.instance("C12.reach/table", "%s@%s" % (b.path, s["kind"]), row[0], "table row with reason", True, cfg)
            if held and not row[1]:
                ctx.violation("C12.under-lock", "C12.under-lock|%s|%s|%s" % (b.path.replace("core::", "", 1), s["kind"], _origin_key(atoms)),
                              "%s in %s relies on a fact other threads can change and runs with %s held" % (s["callee"] or s["kind"], b.path, held), b.loc(s["bb"]), config=cfg)
            continue
        dc = ps.discharge_in_context(s)
        if dc:
            counts["context"] = counts.get("context", 0) + 1
            ctx.instance("C12.reach/context", "%s@%s" % (b.path, s["kind"]), dc, "discharged in every place the helper is inlined", True, cfg)
            continue
        counts["undischarged"] += 1
        key = "C12.reach|%s|%s|%s" % (b.path.replace("core::", "", 1), s["kind"], _origin_key(atoms))
        ctx.instance("C12.reach", "%s@%s" % (b.path, s["kind"]), {"callee": s["callee"], "origin": _origin_key(atoms), "locks_held": held}, "discharged", False, cfg)
        ctx.violation("C12.reach", key,
                      "%s at %s can panic (%s)%s" % (s["callee"] or s["kind"], b.path.replace("core::", "", 1), _origin_key(atoms) or "no guard found",
                                                    "; it runs with %s held, so the panic poisons the manager" % held if held else ""),
                      b.loc(s["bb"]), f.chain(reach, b.path)[-5:], config=cfg)
    ctx.extra.setdefault("panic_sites", {})[cfg] = counts
    ctx.instance("C12.reach/summary", cfg, counts, "undischarged == 0", counts["undischarged"] == 0, cfg)


def premises(ctx, f, cfg):
    """Premises of panic-table rows that are facts about other functions, checked as rule instances of their own (a row is only as good
    as its premise): P1 the hotspot validity check refuses a QPS rule with duration_in_sec == 0 (divisor of the refill / interval
    arithmetic); P2 the breaker's bucket-count accessor hands LeapArray::new only geometries it accepts."""
    from . import decision as D
    from .decrules import make_classifier
    from .rules_C19 import _implied_rel, _feasible, _returns_variant
    # P1
    bs = [b for b in f.impl_methods("SentinelRule", "is_valid") if "hotspot" in (b.impl_self or "")]
    if ctx.floor("C12.premise", "hotspot Rule::is_valid", len(bs), 1):
        b = bs[0]
        roles = [("duration", ["field:Rule.duration_in_sec"], []), ("metric", ["field:Rule.metric_type"], []), ("QPS", ["variant:MetricType::QPS"], ["field:Rule.metric_type"])]
        w = D.Walker(f, b, make_classifier(roles), unroll=1)
        bad = []
        n_ok = 0
        for pth in w.walk(0, lambda bb, env: None):
            if pth["outcome"][0] != "return" or not _feasible(pth) or not _returns_variant(b, pth, "Ok"):
                continue
            n_ok += 1
            rd = _implied_rel(pth["lits"], "duration", "const:0")
            rm = _implied_rel(pth["lits"], "metric", "QPS")
            may_zero = rd is None or "=" in rd
            may_qps = rm is None or "=" in rm
            if may_zero and may_qps:
                bad.append({"duration_vs_0": sorted(rd) if rd else "untested", "metric_vs_QPS": sorted(rm) if rm else "untested"})
        ok = n_ok >= 1 and not bad
        ctx.instance("C12.premise/hotspot-duration", b.path, {"ok_paths": n_ok, "ok_paths_admitting_qps_with_zero_duration": bad[:2]}, "no Ok path admits metric_type == QPS with duration_in_sec == 0", ok, cfg)
        if not ok:
            ctx.violation("C12.premise", "C12.premise|hotspot-duration", "a hotspot QPS rule with duration_in_sec == 0 passes is_valid; the QPS checkers divide by duration_in_sec * 1000 (panic on the first refill)", b.loc(), config=cfg)
    # P2
    g = f.one("circuitbreaker::rule::Rule::get_rule_stat_sliding_window_bucket_count")
    if ctx.floor("C12.premise", "circuitbreaker Rule::get_rule_stat_sliding_window_bucket_count", 1 if g else 0, 1):
        roles = [("rem", ["op:Rem"], []), ("count", ["field:Rule.stat_sliding_window_bucket_count"], ["op:Rem"])]
        w = D.Walker(f, g, make_classifier(roles), unroll=1)
        bad = []
        n = 0
        for pth in w.walk(0, lambda bb, env: None):
            if pth["outcome"][0] != "return" or not _feasible(pth):
                continue
            n += 1
            # does this path return the configured count (not the constant 1)?
            keeps = not any(st["k"] == "assign" and not st["lhs"]["p"] and st["rv"]["k"] == "use" and st["rv"]["op"].get("k") == "const" and st["rv"]["op"].get("val") == 1 and g.vname(st["lhs"]["l"])
                            for x in pth["blocks"] for st in g.blocks[x]["stmts"])
            if keeps:
                rc = _implied_rel(pth["lits"], "count", "const:0")
                rr = _implied_rel(pth["lits"], "rem", "const:0")
                if rc is None or "=" in rc or rr != {"="}:
                    bad.append({"count_vs_0": sorted(rc) if rc else "untested", "interval%count_vs_0": sorted(rr) if rr else "untested"})
        ok = n >= 2 and not bad
        ctx.instance("C12.premise/breaker-buckets", g.path, {"paths": n, "configured_count_returned_unchecked": bad[:2]}, "the configured count is returned only when it is non-zero and divides the interval, otherwise 1", ok, cfg)
        if not ok:
            ctx.violation("C12.premise", "C12.premise|breaker-buckets", "the breaker's bucket count can be a value LeapArray::new refuses (the breaker constructors unwrap it): %s" % bad[:1], g.loc(), config=cfg)


# cells whose decrement is paired with an earlier increment on every history, by a rule that runs elsewhere (one line of reason each)
PAIRED_CELLS = {
    "ResourceNode.concurrency": "raised only by on_entry_pass and lowered only by on_completed of the same entry (rules C04.who-may / C04.counter, C13.completion); the node outlives its entries (C14.one-node/retained)",
}


def underflow(ctx, f, cfg):
    """An unsigned counter must not wrap below zero: every fetch_sub on an unsigned atomic is (a) the undo of a fetch_add of the same
    cell that dominates it in the same function, (b) followed by a test of the value it returns (wrap detection), or (c) on a cell whose
    increments and decrements are paired by construction (table above).  A cell taken from an evictable cache (hotspot per-value
    counters) satisfies none of these: it can be re-created between an entry's increment and its decrement; the decrement has to be
    saturating (fetch_update / checked_sub), otherwise the next checked addition on it panics (overflow checks) or the cap is void."""
    n = 0
    for p, b in sorted(f.bodies.items()):
        sl = None
        for bb, t in b.calls():
            if atomic_op(t) != "fetch_sub":
                continue
            ty = (t.get("arg_tys") or [""])[0] + " " + callee_def(t)
            if not any(u in ty for u in ("AtomicU64", "AtomicU32", "AtomicUsize", "Atomic<u64>", "Atomic<u32>", "Atomic<usize>", "Atomic::<u64>", "Atomic::<u32>", "Atomic::<usize>")):
                continue
            n += 1
            sl = sl or Slicer(f, b)
            at = sl.of_operand(t["args"][0])
            flds = {x for x in at if x.startswith("field:")}
            reason = None
            for cell, why in PAIRED_CELLS.items():
                if any_atom(at, "field:" + cell):
                    reason = "paired: " + why
            if reason is None:
                for bb2, t2 in b.calls():
                    if callee_def(t2).endswith("::fetch_add") and bb2 != bb and b.dominates(bb2, bb) and ({x for x in sl.of_operand(t2["args"][0]) if x.startswith("field:")} == flds) and flds:
                        reason = "undo of the fetch_add on the same cell earlier in this function"
            if reason is None:
                for bi, blk in enumerate(b.blocks):
                    tt = blk["term"]
                    if tt and tt["k"] == "switch" and bb in b.dominators().get(bi, ()) and any(x.startswith("call:") and x.endswith("::fetch_sub") for x in sl.of_operand(tt["op"])):
                        reason = "the value returned by fetch_sub is tested afterwards (wrap detection)"
            ctx.instance("C12.underflow", "%s@%s" % (p, sorted(short_field(x) for x in flds)), reason or "plain fetch_sub on a cell that is not paired", "undo / wrap-tested / paired cell", reason is not None, cfg)
            if reason is None:
                src = sorted(x[5:].rsplit("::", 2)[-2] + "::" + x.rsplit("::", 1)[-1] for x in at if x.startswith("call:") and x.rsplit("::", 1)[-1] in ("get", "add_if_absent", "get_mut"))
                ctx.violation("C12.underflow", "C12.underflow|%s" % p.replace("core::", "", 1),
                              "an unsigned counter obtained through %s is decremented with a plain fetch_sub: if the cell was evicted and re-created since the matching increment it wraps to MAX, and the next `count + 1` on it panics (overflow checks) or voids the cap" % (src or "a lookup"),
                              b.loc(bb), config=cfg)
    ctx.floor("C12.underflow", "fetch_sub sites on unsigned atomics", n, 2)


def short_field(x):
    return x.split(":", 1)[1].rsplit("::", 1)[-1]


def generators(ctx, f, cfg):
    """G1/G2: bodies that construct a flow/hotspot Controller and return it wrapped in Arc must call set_checker (and set_calculator for
    flow) and give the installed checker/calculator its owner before returning."""
    n = 0
    for p, b in f.bodies.items():
        if "rule_manager" not in p:
            continue
        fam = "flow" if "::flow::" in "::" + p else ("hotspot" if "::hotspot::" in "::" + p else None)
        if fam is None:
            continue
        news = [bb for bb, t in b.calls() if callee_is(t, "Controller::new", "Controller::<C>::new", "Controller::<C>::new_with_metric")]
        if not news or "Controller" not in b.ret_ty:
            continue
        n += 1
        names = [callee_def(t).rsplit("::", 1)[-1] for _, t in b.calls()]
        need = ["set_checker"] + (["set_calculator"] if fam == "flow" else [])
        rets = b.return_blocks()
        missing = []
        for nm in need:
            sites = [bb for bb, t in b.calls() if callee_def(t).rsplit("::", 1)[-1] == nm]
            w = must_pass(b, news, rets, sites) if sites else [0]
            # early error returns before the controller exists are fine: only paths from the construction matter
            if w:
                missing.append(nm)
        owner_ok = any(nm == "set_owner" for nm in names) or any("downgrade" in nm for nm in names)
        ok = not missing and owner_ok
        ctx.instance("C12.generators", p, {"calls": sorted(set(x for x in names if x.startswith("set_") or "downgrade" in x)), "missing_on_some_path": missing},
                     "every path from Controller::new to the return installs %s and an owner back-pointer" % need, ok, cfg)
        if not ok:
            ctx.violation("C12.generators", "C12.generators|" + p.replace("core::", "", 1),
                          "generator %s can publish a controller without %s; perform_checking unwraps them" % (p, missing or "owner back-pointer"), b.loc(), config=cfg)
    ctx.floor("C12.generators", "built-in generator bodies constructing a Controller", n, 6)


def lru_recency(ctx, f, cfg, R="C12.hang/lru-recency"):
    """The hotspot QPS checkers keep two LRU caches per rule (time cell, token cell) that must evict the same keys: the reject checker
    waits (spins) for the token cell of a key whose time cell exists.  They stay in step only if every access through the counter
    cache refreshes the key's recency - a read that merely peeks lets one cache evict a key the other keeps, and the next check of that
    key never returns.  Rule: the cache's `get` goes through an LRU operation that promotes the key."""
    impls = [b for b in f.impl_methods("CounterTrait", "get") if "Mock" not in (b.impl_self or "")]
    if not ctx.floor(R, "impl CounterTrait::get for the hotspot counter cache", len(impls), 1):
        return
    for b in impls:
        b = f.view(b)
        ops = sorted({callee_def(t).rsplit("::", 1)[-1] for _, t in b.calls() if "LruCache" in callee_def(t)})
        promoting = [o for o in ops if o in ("get", "get_mut", "get_or_insert", "get_or_insert_mut", "promote", "put", "push")]
        ok = bool(promoting)
        ctx.instance(R, b.path, {"lru_operations": ops}, "a promoting LRU read (get / get_mut), not peek", ok, cfg)
        if not ok:
            ctx.violation(R, "%s|%s" % (R, ",".join(ops) or "none"), "the hotspot counter cache reads a cell without refreshing its recency (%s): the time and token caches of a rule can evict different keys, "
                          "and the reject checker then spins for a token cell that is gone while holding the rule's checker mutex" % (ops or "no LRU read"), b.loc(), config=cfg)
