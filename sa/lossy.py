"""Lossy-integer-arithmetic patterns (structural): an integer division whose truncated result is then converted to a real number or
multiplied.  `(a / b) as f64` and `n * (a / b)` lose the fraction before it matters; `a as f64 / b` and `n * a / b` do not.
Used by C02 (per-second rates) and C07 (spacing arithmetic)."""
from .core import *

INT = ("u8", "u16", "u32", "u64", "u128", "usize", "i8", "i16", "i32", "i64", "i128", "isize")


def _root_def(b, op, depth=0):
    """Definition that produces the value of `op`, following plain copies/moves and the `.0` projection of checked arithmetic."""
    pl = op_place(op)
    while pl is not None and depth < 6:
        d = def_of_local(b, pl["l"])
        if not d or d[0] != "assign":
            return d
        rv = d[3]["rv"]
        if rv["k"] == "use" and op_place(rv["op"]) is not None:
            pl = op_place(rv["op"])
            depth += 1
            continue
        return d
    return None


def int_div_sites(f, b):
    """[(kind, block, description)] with kind in {'div-then-float', 'div-then-mul'}."""
    out = []
    for bi, blk in enumerate(b.blocks):
        if blk["cleanup"]:
            continue
        for st in blk["stmts"]:
            if st["k"] != "assign" or st.get("exp"):
                continue
            rv = st["rv"]
            if rv["k"] == "cast" and rv["kind"].startswith("IntToFloat"):
                d = _root_def(b, rv["op"])
                if d and d[0] == "assign" and d[3]["rv"]["k"] == "bin" and d[3]["rv"]["op"] == "Div":
                    out.append(("div-then-float", bi, "integer division converted to a real number afterwards"))
            if rv["k"] == "bin" and rv["op"] in ("Mul", "MulWithOverflow"):
                for o in (rv["a"], rv["b"]):
                    d = _root_def(b, o)
                    pl = op_place(o)
                    if d and d[0] == "assign" and d[3]["rv"]["k"] == "bin" and d[3]["rv"]["op"] == "Div" and pl is not None and (b.local_ty(pl["l"]) or "") in INT:
                        out.append(("div-then-mul", bi, "integer division multiplied afterwards"))
    return out
