"""Check context: instances, violations, known findings, evidence, replay files."""
import hashlib
import json
import os
import sys
import time

from . import extract as X
from .core import Facts

VERIF = X.VERIF


VIEW_READY = {"C01", "C02", "C03", "C04", "C05", "C06", "C07", "C08", "C09", "C10", "C11", "C12", "C13", "C14", "C15", "C16", "C17", "C18", "C19", "C20"}


class Ctx:
    def __init__(self, prop, tier="quick", seed=0, repo=None, cache=None, only_key=None, quiet=False):
        self.prop = prop
        self.tier = tier
        self.seed = seed
        self.repo = repo or X.REPO
        self.cache = cache
        self.t0 = time.time()
        self.instances = []      # evaluated rule instances
        self.viol = []           # dicts
        self.notes = []
        self.extra = {}
        self.configs = {}
        self._facts = {}
        self.explanation = ""
        self.not_decided = ""
        self.assumptions = []
        self.only_key = only_key
        self.quiet = quiet
        self.floors = []
        self.bodies_touched = set()

    # ---- facts ----
    def facts(self, config, crates=None):
        k = (config, tuple(crates) if crates else None)
        if k not in self._facts:
            try:
                d, info = X.extract(config, repo=self.repo, cache=self.cache)
            except X.BuildError as e:
                sys.stderr.write(e.stderr[-3000:] + "\n")
                raise
            self.configs[config] = info
            want = crates if crates is not None else X.CONFIGS[config]["crates"]
            self._facts[k] = Facts(d, crates=want)
            # normalised views (sa/inline.py) for the properties whose rules were converted to them; the others still read raw MIR
            self._facts[k].auto_view = (self.prop in VIEW_READY or os.environ.get("VERIF_VIEWS", "") == "1") and os.environ.get("VERIF_RAW_BODIES", "") != "1"
        return self._facts[k]

    # ---- recording ----
    def instance(self, rule, site, found, expected=None, ok=True, config=None):
        """One evaluated rule instance (something the rule actually had to check)."""
        self.instances.append({"rule": rule, "site": site, "found": found, "expected": expected, "ok": bool(ok),
                               "config": config})

    def violation(self, rule, key, what, where=None, witness=None, config=None):
        """key: canonical, no line numbers."""
        for v in self.viol:
            if v["key"] == key:
                if config and config not in v["configs"]:
                    v["configs"].append(config)
                return
        self.viol.append({"rule": rule, "key": key, "what": what, "where": where, "witness": witness,
                          "configs": [config] if config else []})

    def floor(self, rule, what, found, floor, public_anchor=True):
        """Fail closed when a rule matched fewer sites than confirmed by hand."""
        self.floors.append({"rule": rule, "what": what, "found": found, "floor": floor})
        if found < floor:
            self.violation(rule, "%s|floor|%s" % (rule, what),
                           "anchor/instance missing: %s: found %d, expected at least %d" % (what, found, floor))
            return False
        return True

    def note(self, s):
        self.notes.append(s)

    # ---- finishing ----
    def finish(self):
        kf_path = os.path.join(VERIF, "known_findings.json")
        known = []
        if os.path.exists(kf_path):
            known = json.load(open(kf_path))["findings"]
        open_keys = {k["key"]: k for k in known if k["property"] == self.prop and k.get("status") == "open"}
        new, kfs = [], []
        for v in self.viol:
            if self.only_key and v["key"] != self.only_key:
                continue
            if v["key"] in open_keys:
                kfs.append((v, open_keys[v["key"]]))
            else:
                new.append(v)
        for v, k in kfs:
            print("KNOWN-FINDING: property=%s %s [key=%s]" % (self.prop, k.get("what") or v["what"], v["key"]))
        rc = 0
        os.makedirs(os.path.join(VERIF, "replay"), exist_ok=True)
        for v in new:
            h = hashlib.sha256(v["key"].encode()).hexdigest()[:10]
            rp = os.path.join(VERIF, "replay", "%s-%s.json" % (self.prop, h))
            json.dump({"property": self.prop, "violation": v,
                       "rerun": "./check %s --tier %s --replay %s" % (self.prop, self.tier, rp)},
                      open(rp, "w"), indent=1)
            if not self.quiet:
                print("  rule: %s" % v["rule"])
                print("  what: %s" % v["what"])
                if v.get("where"):
                    print("  where: %s" % v["where"])
                if v.get("witness"):
                    w = v["witness"]
                    if isinstance(w, list):
                        for x in w[:12]:
                            print("    | %s" % x)
                    else:
                        print("    | %s" % w)
            print("VIOLATION property=%s replay=%s" % (self.prop, rp))
            rc = 1
        if os.environ.get("VERIF_SUMMARY"):
            json.dump({"new": [v["key"] for v in new], "known": [v["key"] for v, _ in kfs], "instances": len(self.instances)}, open(os.environ["VERIF_SUMMARY"], "w"))
        self._write_evidence(len(new), [v for v, _ in kfs])
        return rc

    def _write_evidence(self, n_viol, known_hit):
        distinct = set()
        for i in self.instances:
            distinct.add((i["rule"], i["site"]))
        samples = []
        seen_rules = set()
        for i in self.instances:
            if i["rule"] not in seen_rules:
                seen_rules.add(i["rule"])
                samples.append({k: i[k] for k in ("rule", "site", "found", "expected", "ok")})
        for i in self.instances:
            if len(samples) >= 40:
                break
            s = {k: i[k] for k in ("rule", "site", "found", "expected", "ok")}
            if s not in samples:
                samples.append(s)
        cov = {
            "explanation": self.explanation or "static analysis over MIR facts",
            "not_decided": self.not_decided,
            "evaluations": len(self.instances),
            "distinct_nontrivial": len(distinct),
            "rule": "one evaluation = one rule instance (rule template with its slots filled at one site of the "
                    "current tree) evaluated in one build configuration; distinct = distinct (rule, site) pairs; "
                    "non-trivial = the rule found the construct it is about at that site and had a normal form "
                    "to compare (instances that match nothing are not counted and trip a floor instead)",
            "samples": samples,
            "rules": sorted(seen_rules),
            "floors": self.floors,
            "configs": self.configs,
            "notes": self.notes,
            "known_findings_hit": [v["key"] for v in known_hit],
            "violations_reported": [v["key"] for v in self.viol if v not in known_hit],
            "instances_failing": [
                {k: i[k] for k in ("rule", "site", "found", "expected")} for i in self.instances if not i["ok"]][:60],
        }
        cov.update(self.extra)
        ev = {
            "property_id": self.prop,
            "tier": self.tier,
            "seed": int(self.seed),
            "level": "other",
            "coverage": cov,
            "assumptions": self.assumptions,
            "wall_s": round(time.time() - self.t0, 2),
            "violations": n_viol,
        }
        if os.environ.get("VERIF_EVIDENCE_TO"):       # debugging aid: evidence of a run on a scratch copy, outside /verif/evidence
            json.dump(ev, open(os.environ["VERIF_EVIDENCE_TO"], "w"), indent=1, default=str)
        if os.environ.get("VERIF_NO_EVIDENCE"):
            return
        os.makedirs(os.path.join(VERIF, "evidence"), exist_ok=True)
        p = os.path.join(VERIF, "evidence", "%s.json" % self.prop)
        tmp = p + ".tmp%d" % os.getpid()
        json.dump(ev, open(tmp, "w"), indent=1, default=str)
        os.replace(tmp, p)
