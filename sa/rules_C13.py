"""C13 — slot chain contract: ordered run, block iff a check blocked, one notification.

Decided on SlotChain::{add_*, entry, exit} and EntryBuilder::build (DESIGN §3 C13):
  C13.add-sorts        each add_* pushes to one vector and then sorts that same vector by order() (ascending key sort);
                       the vector pushed by add_X is the one `entry`/`exit` iterate for role X
  C13.phases           in entry: no check call reaches a prepare call, no on_entry_* call reaches a check call;
                       each loop iterates the vector forwards and leaves only on exhaustion
                       (check loop: early exit allowed only after a blocked verdict)
  C13.verdict          reset to pass dominates the check loop; the only verdict store inside it is dominated by
                       is_blocked() of that slot's own return value and stores that value; the value returned is the
                       context's result
  C13.one-notification on_entry_pass / on_entry_blocked sit on the two edges of the verdict test, one call each per iteration
  C13.completion       in exit every on_completed is dominated by the not-blocked edge and that edge reaches the loop
  C13.build            build maps Blocked -> Err after exiting the entry, anything else -> Ok without exiting
"""
from .core import *
from . import decision as D
from .decrules import *


def run(ctx):
    ctx.explanation = (
        "Structural rules over the MIR of SlotChain::add_*/entry/exit and EntryBuilder::build: push-then-sort on the same "
        "field keyed by order(); phase ordering by CFG reachability between the three kinds of slot calls; loop-exit "
        "analysis (strongly connected component of each slot call; exits only at iterator exhaustion); dominance of the "
        "verdict store by is_blocked() of the slot's own return; the two notification calls on the two edges of the verdict "
        "test (decision table over is_pass/is_blocked); on_completed dominated by the not-blocked edge; the Blocked->Err/"
        "exit mapping in build by a decision table over the discriminant of the chain's result.")
    ctx.not_decided = ("whether a blocked verdict stops later check slots (the statement leaves it open); behaviour of custom "
                       "slots that overwrite the context's verdict themselves; equal order values need only ascending order.")
    ctx.assumptions = ["std's sort_by_key family sorts ascending by the key", "slice::Iter iterates front to back"]
    cfg = "core-default"
    f = ctx.facts(cfg)
    entry = f.one("SlotChain::entry")
    exit_ = f.one("SlotChain::exit")
    build = f.one("EntryBuilder::build")
    ok = ctx.floor("C13.anchor", "SlotChain::entry / SlotChain::exit / EntryBuilder::build", sum(x is not None for x in (entry, exit_, build)), 3)
    if not ok:
        return
    role_field = entry_rules(ctx, f, entry, cfg)
    slot_stores(ctx, f, cfg)
    adds(ctx, f, role_field, cfg)
    exit_rules(ctx, f, exit_, role_field, cfg)
    build_rules(ctx, f, build, cfg)


SLOT_CALLS = {"prepare": "StatPrepareSlot::prepare", "check": "RuleCheckSlot::check", "pass": "StatSlot::on_entry_pass",
              "blocked": "StatSlot::on_entry_blocked", "completed": "StatSlot::on_completed"}


def _calls(b, name):
    return [bb for bb, t in b.calls() if callee_is(t, SLOT_CALLS[name])]


def _recv_field(f, b, bb):
    """SlotChain field from which the receiver of the slot call at bb is drawn."""
    at = Slicer(f, b).of_operand(b.term(bb)["args"][0])
    fs = sorted(a.split(".", 1)[1] if "." in a else a for a in at if a.startswith("field:") and "SlotChain." in a)
    return [x.rsplit(".", 1)[-1] for x in fs]


def _iter_info(f, b, scc):
    """next() calls of the loop: iterator type and the exhaustion edge."""
    info = []
    for x in sorted(scc):
        t = b.term(x)
        if t and t["k"] == "call" and callee_is(t, "Iterator::next"):
            info.append((x, (t["callee"].get("targs") or ["?"])[0]))
        h = _for_each_head(b, x)
        if h is not None:
            info.append((x, h))
    return info


def _for_each_head(b, x):
    """`it.for_each(|s| ..)` in a view: the head of the unfolded closure loop; for_each runs the closure for every element the
    iterator yields, in the iterator's order, and nothing else - so the loop is the for loop over that iterator.  -> iterator type"""
    blk = b.blocks[x]
    if not str(blk.get("hof_head") or "").endswith("Iterator::for_each"):
        return None
    ct = b.term(blk["term"]["otherwise"])
    return (ct["callee"].get("targs") or ["?"])[0] if ct and ct["k"] == "call" else None


def entry_rules(ctx, f, b, cfg):
    role_field = {}
    pre, chk, ps, bl = _calls(b, "prepare"), _calls(b, "check"), _calls(b, "pass"), _calls(b, "blocked")
    okc = len(pre) == 1 and len(chk) == 1 and len(ps) == 1 and len(bl) == 1
    ctx.instance("C13.phases/sites", b.path, {"prepare": len(pre), "check": len(chk), "on_entry_pass": len(ps), "on_entry_blocked": len(bl)},
                 "one call site each", okc, cfg)
    if not okc:
        ctx.violation("C13.phases", "C13.phases|call-sites", "SlotChain::entry must call prepare/check/on_entry_pass/on_entry_blocked from one site each: %s" % (
            {"prepare": len(pre), "check": len(chk), "pass": len(ps), "blocked": len(bl)}), b.loc(), config=cfg)
        return role_field
    pre, chk, ps, bl = pre[0], chk[0], ps[0], bl[0]
    # phase order
    bad = []
    if pre in b.reachable(b.succs(chk)):
        bad.append("a check call can be followed by a prepare call")
    for x, nm in ((ps, "on_entry_pass"), (bl, "on_entry_blocked")):
        r = b.reachable(b.succs(x))
        if chk in r or pre in r:
            bad.append("%s can be followed by a check/prepare call" % nm)
    if not (chk in b.reachable(b.succs(pre)) or True):
        pass
    # prepare loop precedes check loop precedes stat loop on every path: check/prepare calls happen before
    if not b.dominates(b.scc_of(pre) and min(b.scc_of(pre)), chk) and False:
        pass
    ctx.instance("C13.phases/order", b.path, bad or "prepare* ; check* ; on_entry_*  (no back flow between phases)", "three phases in order", not bad, cfg)
    for m in bad:
        ctx.violation("C13.phases", "C13.phases|order|" + m, "slot phases out of order: " + m, b.loc(), config=cfg)
    # every entry reaches the statistic phase: no return before the loop that notifies the stat slots (an early return - e.g. a
    # "no check slots" fast path - leaves the stat slots without their pass-or-blocked notification while exit still completes them);
    # and the prepare and check phases are passed on the way
    skipped = []
    for role, site in (("prepare", pre), ("check", chk), ("stat", ps)):
        w = must_pass(b, [0], b.return_blocks(), sorted(b.scc_of(site)))
        if w is not None:
            skipped.append(role)
    ctx.instance("C13.phases/all-phases", b.path, {"phases_that_a_return_path_skips": skipped}, "every return path runs through the prepare, check and stat loops", not skipped, cfg)
    for role in skipped:
        ctx.violation("C13.phases", "C13.phases|%s|skipped" % role, "SlotChain::entry can return without entering the %s phase" % role, b.loc(), config=cfg)
    # each loop: forward iteration over one SlotChain field, leaves only on exhaustion
    for role, site, allow_after_block in (("prepare", pre, False), ("check", chk, True), ("stat", ps, False)):
        scc = b.scc_of(site)
        fields = _recv_field(f, b, site)
        role_field[role] = fields[0] if len(fields) == 1 else None
        its = _iter_info(f, b, scc)
        fwd = len(its) == 1 and its[0][1].startswith("std::slice::Iter<")
        exits = b.loop_exits(scc)
        bad_exits = []
        for src, dst in exits:
            t = b.term(src)
            if (b.term(dst) or {}).get("k") == "unreachable":
                continue
            if t["k"] == "switch" and _for_each_head(b, src) is not None and dst == t["otherwise"]:
                continue          # for_each hands over to its continuation only when the iterator is exhausted
            if t["k"] == "switch":
                at = Slicer(f, b).of_operand(t["op"])
                none_edge = [tg for v, tg in t["targets"] if v == 0]
                if "discr" in at and any_atom(at, "call:Iterator::next") and none_edge and dst == none_edge[0]:
                    continue
            if allow_after_block and _after_blocked(f, b, src):
                continue
            bad_exits.append((src, dst))
        ok = len(scc) > 1 and fwd and not bad_exits and role_field[role]
        ctx.instance("C13.phases/loop", "%s#%s" % (b.path, role),
                     {"field": fields, "iterator": [i[1][:60] for i in its], "exits": len(exits), "early_exits": [b.loc(s) for s, d in bad_exits]},
                     "for s in &self.<field>: forward slice iterator, leaves only when exhausted", ok, cfg)
        if len(scc) <= 1:
            ctx.violation("C13.phases", "C13.phases|%s|not-a-loop" % role, "%s slots are not run in a loop over the chain's vector" % role, b.loc(site), config=cfg)
        elif not fwd:
            ctx.violation("C13.phases", "C13.phases|%s|iteration-order" % role, "%s slots are not iterated front to back (iterator %s)" % (role, [i[1][:80] for i in its]), b.loc(site), config=cfg)
        if bad_exits:
            ctx.violation("C13.phases", "C13.phases|%s|early-exit" % role, "the %s loop can stop before every slot ran" % role, b.loc(bad_exits[0][0]), config=cfg)
    if role_field.get("stat") is not None:
        f2 = _recv_field(f, b, bl)
        if f2 != [role_field["stat"]]:
            ctx.violation("C13.one-notification", "C13.one-notification|different-vectors", "pass and blocked notifications go to different slot vectors", b.loc(bl), config=cfg)
    if len({v for v in role_field.values() if v}) != 3:
        ctx.violation("C13.phases", "C13.phases|fields", "the three phases do not iterate three distinct slot vectors: %s" % role_field, b.loc(), config=cfg)

    # verdict
    resets = [bb for bb, t in b.calls() if callee_is(t, "EntryContext::reset_result_to_pass")]
    sets = [bb for bb, t in b.calls() if callee_is(t, "EntryContext::set_result")]
    chk_scc = b.scc_of(chk)
    ok_reset = len(resets) >= 1 and all(b.dominates(resets[0], x) for x in chk_scc) and resets[0] not in chk_scc and pre not in b.reachable(b.succs(resets[0]))
    ctx.instance("C13.verdict/reset", b.path, "reset_result_to_pass sites=%d dominates check loop: %s" % (len(resets), ok_reset), "true", ok_reset, cfg)
    if not ok_reset:
        ctx.violation("C13.verdict", "C13.verdict|reset", "the verdict is not reset to pass (after preparation) before the check slots run", b.loc(), config=cfg)
    # reset really stores Pass
    rb = f.one("EntryContext::reset_result_to_pass")
    if rb is not None:
        # effect summary: every TokenResult variant constructed by anything reachable from the reset is Pass
        vs = set()
        for p in f.reach_bodies([rb.path]):
            for blk in f.bodies[p].blocks:
                for s in blk["stmts"]:
                    if s["k"] == "assign" and s["rv"]["k"] == "agg" and s["rv"].get("adt", "").endswith("result::TokenResult"):
                        vs.add(s["rv"]["variant"])
        okp = vs == {"Pass"}
        ctx.instance("C13.verdict/reset-value", rb.path, sorted(vs), ["Pass"], okp, cfg)
        if not okp:
            ctx.violation("C13.verdict", "C13.verdict|reset-value", "reset_result_to_pass constructs %s, expected only Pass" % sorted(vs), rb.loc(), config=cfg)
    sl = Slicer(f, b)
    okv = True
    why = []
    for sb in sets:
        if sb not in chk_scc:
            okv = False
            why.append("verdict stored outside the check loop")
            continue
        at = sl.of_operand(b.term(sb)["args"][1])
        if not any_atom(at, "call:RuleCheckSlot::check"):
            okv = False
            why.append("stored verdict is not the slot's own return value")
        # dominated by is_blocked()==true on the slot's return
        domd = False
        for d in b.dominators()[sb]:
            t = b.term(d)
            if t and t["k"] == "switch" and d in chk_scc:
                a2 = sl.of_operand(t["op"])
                if any_atom(a2, "call:TokenResult::is_blocked") and any_atom(a2, "call:RuleCheckSlot::check"):
                    te = bool_edge_targets(b, d)
                    if te and b.dominates(te[0], sb) and not b.dominates(te[1], sb):
                        domd = True
                # equivalent idiom: match on the slot's return value, Blocked arm
                if "discr" in a2 and any_atom(a2, "call:RuleCheckSlot::check") and not any_atom(a2, "call:TokenResult::is_blocked"):
                    enum = f.adts.get("core::base::result::TokenResult")
                    names = [v["name"] for v in enum["variants"]] if enum else []
                    for v, tg in t["targets"]:
                        if v < len(names) and names[v] == "Blocked" and b.dominates(tg, sb):
                            domd = True
        if not domd:
            okv = False
            why.append("verdict store not dominated by is_blocked() of the slot's return value")
    if not sets:
        okv = False
        why.append("no verdict store in the check loop")
    ctx.instance("C13.verdict/store", b.path, {"set_result_sites": len(sets), "problems": why}, "one store, inside the loop, guarded by is_blocked(res), storing res", okv, cfg)
    if not okv:
        ctx.violation("C13.verdict", "C13.verdict|store|" + ";".join(sorted(set(why))), "blocked-iff-some-slot-blocked broken: " + "; ".join(sorted(set(why))), b.loc(), config=cfg)
    # ... and EVERY blocking return of a slot is stored: per iteration of the check loop, store iff that slot's result is Blocked
    # (a second condition on the store - a ranking of reasons, a "first blocker wins" flag - lets an entry pass although a slot blocked)
    if sets and chk_scc:
        enum_ = f.adts.get("core::base::result::TokenResult")
        vnames = [v["name"] for v in enum_["variants"]] if enum_ else []
        chk_bbs = [bb for bb, t in b.calls() if callee_is(t, "RuleCheckSlot::check") and bb in chk_scc]

        def cls_v(atoms, op=None):
            if op is not None and discr_of_call(b, op, "Iterator::next"):
                return "iter"
            if "discr" in atoms and any_atom(atoms, "call:RuleCheckSlot::check") and not any_atom(atoms, "call:EntryContext::result"):
                return "slot-result"
            return make_classifier([])(atoms, op)
        wv = D.Walker(f, b, cls_v)
        wv.summarise_predicates = True
        pv = []
        for cb_ in chk_bbs:
            its_ = {x for x, tt in b.calls() if callee_is(tt, "Iterator::next") and x in chk_scc} | {x for x in chk_scc if _for_each_head(b, x) is not None}
            pv += wv.walk(b.term(cb_)["target"], lambda bb, env: ("next",) if (bb in its_ or bb not in chk_scc) else None)

        def out_v(p, asg):
            return "stored" if any(x in sets for x in p["blocks"]) else "not-stored"

        def exp_v(asg):
            v = asg["disc"].get("slot-result")
            if v == "other":
                return "not-stored"      # `if let Blocked(_) = res { store }`: every unlisted variant
            if not isinstance(v, int) or v >= len(vnames):
                return None
            return "stored" if vnames[v] == "Blocked" else "not-stored"
        nv, ncv, mv = run_table(ctx, "C13.verdict/store-iff-blocked", b.path, cfg, pv, out_v, exp_v)
        okt = not mv and ncv >= 2
        ctx.instance("C13.verdict/store-iff-blocked", b.path, {"rows": nv, "constrained": ncv, "mismatches": mv[:3]}, "per check slot: its result is stored as the verdict iff it is Blocked", okt, cfg)
        if not okt:
            ctx.violation("C13.verdict", "C13.verdict|store-iff-blocked", "a check slot's Blocked result is not always stored as the entry's verdict (or a non-blocking one is): %s" % (mv[:2] or "test on the slot's result not found"), b.loc(), config=cfg)
    # returned value is the context's verdict - and nothing else (a check slot's own result handed back directly can contradict it)
    at = sl.of_local(0)
    okr = any_atom(at, "call:EntryContext::result") and not any_atom(at, "call:RuleCheckSlot::check")
    ctx.instance("C13.verdict/returned", b.path, "returns ctx.result(): %s" % okr, "true", okr, cfg)
    if not okr:
        ctx.violation("C13.verdict", "C13.verdict|returned", "SlotChain::entry does not return the context's verdict", b.loc(), config=cfg)

    # one notification: decision table over one iteration of the stat loop
    stat_scc = b.scc_of(ps)
    its = _iter_info(f, b, stat_scc)
    if its:
        base_cls = make_classifier([("iter", ["call:Iterator::next"], [])])

        def cls(atoms, op=None):
            # `match ctx.result().block_err() { Some(e) => blocked, None => pass }` is an equivalent way to test the verdict
            if "discr" in atoms and any_atom(atoms, "call:TokenResult::block_err") and any_atom(atoms, "call:EntryContext::result") and not any_atom(atoms, "call:Iterator::next"):
                return "verdict.block_err"
            return base_cls(atoms, op)

        def oname(t, atoms):
            if callee_is(t, "TokenResult::is_pass") and any_atom(atoms, "call:EntryContext::result"):
                return "verdict.is_pass"
            if callee_is(t, "TokenResult::is_blocked") and any_atom(atoms, "call:EntryContext::result"):
                return "verdict.is_blocked"
            return "call:" + callee_def(t).rsplit("::", 1)[-1]
        def cls(atoms, op=None, _c=cls):
            r = _c(atoms, op)
            if r == "verdict.block_err":
                return r
            if op is not None and discr_of_call(b, op, "Iterator::next"):
                return "iter"
            if "discr" in atoms and any_atom(atoms, "call:EntryContext::result") and not any_atom(atoms, "call:Iterator::next") and not any_atom(atoms, "call:TokenResult::block_err"):
                return "verdict"      # match on / is_pass() / is_blocked() of the stored verdict
            return r
        w = D.Walker(f, b, cls, opaque_name=oname)
        w.summarise_predicates = True
        hof_loop = _for_each_head(b, its[0][0]) is not None
        start = b.term(its[0][0])["targets"][0][1] if hof_loop else b.term(its[0][0])["target"]
        counts = {}

        def stop(bb, env):
            if bb == its[0][0]:
                return ("iteration-done",)
            if bb not in stat_scc:
                return ("left-loop",)
            return None
        paths = w.walk(start, stop)

        def outcome(p, asg):
            n_pass = sum(1 for x in p["blocks"] if x == ps)
            n_bl = sum(1 for x in p["blocks"] if x == bl)
            return "pass=%d,blocked=%d" % (n_pass, n_bl)

        def expected(asg):
            if asg["disc"].get("iter") != 1 and not hof_loop:
                return None
            be = asg["disc"].get("verdict.block_err")
            if be is not None:
                return "pass=0,blocked=1" if be == 1 else ("pass=1,blocked=0" if be == 0 else None)
            vd = asg["disc"].get("verdict")
            vnames = [v["name"] for v in (f.adts.get("core::base::result::TokenResult") or {}).get("variants", [])]
            if isinstance(vd, int) and vd < len(vnames):
                return {"Pass": "pass=1,blocked=0", "Blocked": "pass=0,blocked=1"}.get(vnames[vd])
            ip = asg["opaque"].get("verdict.is_pass")
            ib = asg["opaque"].get("verdict.is_blocked")
            if ip is None or ib is None:
                return None
            if ip and ib:
                return None          # impossible: a verdict is not both
            if ip:
                return "pass=1,blocked=0"
            if ib:
                return "pass=0,blocked=1"
            return None              # verdict neither pass nor blocked: unreachable for a verdict stored by the chain
        n, ncon, mism = run_table(ctx, "C13.one-notification", b.path, cfg, paths, outcome, expected)
        ctx.instance("C13.one-notification", b.path, {"rows": n, "constrained": ncon, "mismatches": mism[:3]},
                     "per stat slot and entry: verdict pass -> exactly on_entry_pass; verdict blocked -> exactly on_entry_blocked", not mism and ncon >= 2, cfg)
        if mism or ncon < 2:
            ctx.violation("C13.one-notification", "C13.one-notification|table", "a statistic slot does not get exactly one pass-or-blocked notification: %s" % (mism[:1] or "verdict test not found"), b.loc(ps), config=cfg)
        # the verdict consulted per slot must not be a value that the loop itself consumes or changes: either it is re-read from the
        # context inside the loop, or the local carrying it is never mutably borrowed / reassigned inside the loop
        reread = any(x in stat_scc for x, t in b.calls() if callee_is(t, "EntryContext::result"))
        mutated = []
        if not reread:
            carriers = set()
            for x in stat_scc:
                t = b.term(x)
                if t and t["k"] == "switch":
                    carriers |= {int(a[4:]) for a in sl.of_operand(t["op"]) if a.startswith("lid:")}
            for x in stat_scc:
                for s_ in b.blocks[x]["stmts"]:
                    if s_["k"] == "assign" and s_["rv"]["k"] == "ref" and s_["rv"].get("mut") and s_["rv"]["pl"]["l"] in carriers:
                        mutated.append(b.loc(x))
                    if s_["k"] == "assign" and not s_["lhs"]["p"] and s_["lhs"]["l"] in carriers:
                        mutated.append(b.loc(x))
        oks = reread or not mutated
        ctx.instance("C13.one-notification/stable-verdict", b.path, {"verdict_reread_in_loop": reread, "carrier_mutated_in_loop": mutated}, "every slot sees the same verdict", oks, cfg)
        if not oks:
            ctx.violation("C13.one-notification", "C13.one-notification|verdict-consumed-in-loop", "the verdict handed to the statistic slots is held in a local that the loop itself mutates (e.g. Option::take): later slots see a different verdict", b.loc(ps), config=cfg)
        # the error handed to on_entry_blocked is the stored verdict's
        a3 = sl.of_operand(b.term(bl)["args"][2]) if len(b.term(bl)["args"]) > 2 else set()
        # ctx.result().block_err(), or the payload of the Blocked arm of a match on ctx.result()
        oke = any_atom(a3, "call:EntryContext::result") and (any_atom(a3, "call:TokenResult::block_err") or any("TokenResult::Blocked" in x for x in a3 if x.startswith("field:")))
        ctx.instance("C13.one-notification/error", b.path, "on_entry_blocked gets ctx.result().block_err(): %s" % oke, "true", oke, cfg)
        if not oke:
            ctx.violation("C13.one-notification", "C13.one-notification|error-origin", "the error delivered to statistic slots is not the stored verdict's error", b.loc(bl), config=cfg)
    return role_field


def _after_blocked(f, b, src):
    sl = Slicer(f, b)
    for d in b.dominators().get(src, ()):
        t = b.term(d)
        if t and t["k"] == "switch":
            a = sl.of_operand(t["op"])
            if any_atom(a, "call:TokenResult::is_blocked") or any_atom(a, "call:EntryContext::is_blocked"):
                te = bool_edge_targets(b, d)
                if te and b.dominates(te[0], src):
                    return True
    return False


def adds(ctx, f, role_field, cfg):
    table = {"prepare": "SlotChain::add_stat_prepare_slot", "check": "SlotChain::add_rule_check_slot", "stat": "SlotChain::add_stat_slot"}
    n = 0
    for role, name in table.items():
        b = f.one(name)
        if b is None:
            continue
        n += 1
        sl = Slicer(f, b)
        pushes = [(bb, t) for bb, t in b.calls() if callee_is(t, "Vec::<T, A>::push", "Vec::<T, A>::insert", "Vec::<T, A>::extend")]
        sorts = [(bb, t) for bb, t in b.calls() if callee_def(t).rsplit("::", 1)[-1] in ("sort_unstable_by_key", "sort_by_key", "sort_by_cached_key")]
        other_sorts = [(bb, t) for bb, t in b.calls() if callee_def(t).rsplit("::", 1)[-1].startswith("sort") and (bb, t) not in sorts]

        def fld(t):
            at = sl.of_operand(t["args"][0])
            return sorted({a.rsplit(".", 1)[-1] for a in at if a.startswith("field:") and "SlotChain." in a})
        pf = [fld(t) for _, t in pushes]
        sf = [fld(t) for _, t in sorts]
        ok = len(pushes) == 1 and len(sorts) == 1 and pf[0] == sf[0] and len(pf[0]) == 1
        # sort after push on every path to return
        if ok:
            w = must_pass(b, [pushes[0][0]], b.return_blocks(), [sorts[0][0]])
            ok = w is None and pushes[0][0] not in b.reachable(b.succs(sorts[0][0]))
        # nothing re-orders the vector after the sort (reverse, swap, rotate, a second sort, ...)
        later = []
        if ok:
            after = b.reachable(b.succs(sorts[0][0]))
            for bb, t in b.calls():
                if bb in after and t["args"] and (t.get("arg_tys") or [""])[0].startswith("&mut") and fld(t) == sf[0] \
                        and callee_def(t).rsplit("::", 1)[-1] not in ("deref_mut", "as_mut_slice", "as_mut", "borrow_mut", "index_mut"):
                    later.append(callee_def(t).rsplit("::", 1)[-1])
            ok = not later
        # key closure returns order() of its parameter
        keyok = False
        if sorts:
            for defs in sorts[0][1].get("arg_defs", []):
                for d in defs:
                    cb = f.bodies.get(d)
                    if cb is not None:
                        a0 = Slicer(f, cb).of_local(0)
                        keyok = any_atom(a0, "call:BaseSlot::order") and not any_atom(a0, "variant:Reverse") and not any_atom(a0, "call:Reverse") and "op:Neg" not in a0 and "op:Sub" not in a0 and "op:Not" not in a0
        same = role_field.get(role) is not None and pf and pf[0] == [role_field[role]]
        allok = ok and keyok and same
        ctx.instance("C13.add-sorts", b.path, {"pushes_to": pf, "sorts": sf, "key_is_order()": keyok, "vector_iterated_for_role": role_field.get(role), "other_sort_calls": len(other_sorts), "mutated_after_sort": later},
                     "push then sort_by_key(order) on the vector that entry() iterates for %s slots" % role, allok, cfg)
        if not allok:
            why = ("re-ordered after the sort: %s" % ",".join(later)) if later else "push/sort mismatch" if not ok else ("sort key is not order() ascending" if not keyok else "adds to a vector other than the one iterated for this role")
            ctx.violation("C13.add-sorts", "C13.add-sorts|%s|%s" % (role, why), "%s: %s" % (name, why), b.loc(), config=cfg)
    ctx.floor("C13.add-sorts", "SlotChain::add_* functions", n, 3)


def exit_rules(ctx, f, b, role_field, cfg):
    comp = _calls(b, "completed")
    if not ctx.floor("C13.completion", "on_completed call in SlotChain::exit", len(comp), 1):
        return
    cls = make_classifier([("iter", ["call:Iterator::next"], [])])

    def oname(t, atoms):
        return "call:" + callee_def(t).rsplit("::", 1)[-1]
    base_cls = cls

    def cls(atoms, op=None):
        if op is not None and discr_of_call(b, op, "Iterator::next"):
            return "iter"
        if "discr" in atoms and any_atom(atoms, "call:EntryContext::entry") and not any_atom(atoms, "call:Iterator::next"):
            return "entry"
        return base_cls(atoms, op)
    w = D.Walker(f, b, cls, opaque_name=oname)
    w.option_calls_as_disc = True       # `if ctx.entry().is_none() { return }` / `if let Some(e) = ctx.entry()` / nested if-else
    c0 = comp[0]
    scc = b.scc_of(c0)

    def stop(bb, env):
        if bb in scc:
            return ("runs-completion-loop",)
        return None
    paths = w.walk(0, stop)

    def outcome(p, asg):
        return p["outcome"][0] if p["outcome"][0] == "runs-completion-loop" else "returns"

    def expected(asg):
        isn = asg["opaque"].get("call:is_none")
        if asg["disc"].get("entry") == 0:
            isn = True
        ib = asg["opaque"].get("call:is_blocked")
        if ib is None:
            return None
        if isn:
            return None   # no entry attached: logged and skipped (not a case the property speaks about)
        return "returns" if ib else "runs-completion-loop"
    n, ncon, mism = run_table(ctx, "C13.completion", b.path, cfg, paths, outcome, expected)
    fields = _recv_field(f, b, c0)
    samev = fields == [role_field.get("stat")]
    its = _iter_info(f, b, scc)
    exits = [(s, d) for s, d in b.loop_exits(scc)]
    bad_exits = []
    for src, dst in exits:
        t = b.term(src)
        if (b.term(dst) or {}).get("k") == "unreachable":
            continue
        if t["k"] == "switch" and str(t.get("hof", "")).endswith("for_each") and dst == t["otherwise"]:
            continue      # iter().for_each(..): the unfolded closure loop is left only when every element was visited
        at = Slicer(f, b).of_operand(t["op"]) if t["k"] == "switch" else set()
        none_edge = [tg for v, tg in t.get("targets", []) if v == 0]
        if not (t["k"] == "switch" and "discr" in at and any_atom(at, "call:Iterator::next") and none_edge and dst == none_edge[0]):
            bad_exits.append(src)
    ok = not mism and ncon > 0 and samev and len(comp) == 1 and not bad_exits and len(scc) > 1
    ctx.instance("C13.completion", b.path, {"rows": n, "constrained": ncon, "mismatches": mism[:3], "vector": fields, "early_exits": len(bad_exits)},
                 "on_completed for every stat slot iff the entry was not blocked", ok, cfg)
    if not ok:
        ctx.violation("C13.completion", "C13.completion|table", "completion notifications are not sent exactly for passed entries: %s" % (
            mism[:1] or ("different vector" if not samev else "loop can stop early" if bad_exits else "guard not found")), b.loc(c0), config=cfg)


def build_rules(ctx, f, b, cfg):
    enum = f.adts.get("core::base::result::TokenResult")
    names = [v["name"] for v in enum["variants"]] if enum else []
    if "Blocked" not in names:
        ctx.violation("C13.build", "C13.build|enum", "TokenResult has no Blocked variant", config=cfg)
        return
    bi = names.index("Blocked")
    cls = make_classifier([("chain_result", ["call:SlotChain::entry"], [])])
    w = D.Walker(f, b, cls)
    w.summarise_predicates = True       # `match r { Blocked(_) => .. }`, `if r.is_blocked()`, `matches!(r, Blocked(_))`: one atom
    exits = {bb for bb, t in b.calls() if callee_is(t, "SentinelEntry::exit", "EntryStrongPtr::exit")}
    entries = [bb for bb, t in b.calls() if callee_is(t, "SlotChain::entry")]
    if not ctx.floor("C13.build", "SlotChain::entry call in EntryBuilder::build", len(entries), 1):
        return
    start = b.term(entries[0])["target"]
    paths = w.walk(start, lambda bb, env: None)
    sl = Slicer(f, b)

    def outcome(p, asg):
        ex = sum(1 for x in p["blocks"] if x in exits)
        kind = "?"
        tgt = 0        # `_0 = move _k` (the return of an inlined private helper that builds the result) hands the search on to _k
        for x in reversed(p["blocks"]):
            got = None
            t = b.term(x)
            if t and t["k"] == "call" and t["dest"]["l"] == tgt and not t["dest"]["p"] and x != p["blocks"][-1]:
                got = "call:" + callee_def(t).rsplit("::", 1)[-1]
            for s in reversed(b.blocks[x]["stmts"]):
                if got is not None:
                    break
                if s["k"] == "assign" and s["lhs"]["l"] == tgt and not s["lhs"]["p"]:
                    rv = s["rv"]
                    if rv["k"] == "agg" and rv.get("adt", "").endswith("result::Result"):
                        got = rv["variant"]
                    elif rv["k"] == "use" and rv["op"].get("pl") is not None and not rv["op"]["pl"]["p"]:
                        tgt = rv["op"]["pl"]["l"]
                    else:
                        got = "other"
            if got:
                kind = got
                break
        return "%s,exit=%d" % (kind, ex)

    def expected(asg):
        d = asg["disc"].get("chain_result")
        if d is None:
            return None
        return "Err,exit=1" if d == bi else "Ok,exit=0"
    n, ncon, mism = run_table(ctx, "C13.build", b.path, cfg, paths, outcome, expected)
    ctx.instance("C13.build", b.path, {"rows": n, "constrained": ncon, "mismatches": mism[:3], "Blocked_discriminant": bi},
                 "Blocked -> exit the entry once, return Err; otherwise return Ok without exiting", not mism and ncon >= 2, cfg)
    if mism or ncon < 2:
        ctx.violation("C13.build", "C13.build|table", "EntryBuilder::build does not map Blocked to Err-after-exit and everything else to Ok: %s" % (mism[:1] or "match on the chain's result not found"),
                      b.loc(), config=cfg)


def slot_stores(ctx, f, cfg):
    """The library's own check slots may overwrite the context's verdict only with a Blocked result: the chain notifies the statistic
    slots by testing is_pass / is_blocked on that verdict, so a stored Wait (or anything else) yields an entry that is admitted but
    recorded neither as passed nor as blocked (and later decrements in-flight counts it never raised)."""
    enum = f.adts.get("core::base::result::TokenResult")
    names = [v["name"] for v in enum["variants"]] if enum else []
    n = 0
    for b in f.impl_methods("RuleCheckSlot", "check"):
        b = f.view(f.raw(b))
        sl = Slicer(f, b)
        sites = [(bb, t) for bb, t in b.calls() if callee_is(t, "EntryContext::set_result")]
        if not sites:
            continue

        def is_verdict_test(op, b=b):
            """the operand tests (the discriminant of) a TokenResult value"""
            pl = op_place(op) if op else None
            for _ in range(5):
                if pl is None:
                    return False
                if "TokenResult" in b.local_ty(pl["l"]) and "Option" not in b.local_ty(pl["l"]):
                    return True
                ds = b.defs().get(pl["l"], [])
                if len(ds) != 1 or ds[0][0] != "assign":
                    return False
                rv = ds[0][3]["rv"]
                pl = rv["pl"] if rv["k"] in ("discr", "ref") else (op_place(rv["op"]) if rv["k"] in ("use", "cast") else None)
            return False

        def cls(atoms, op=None, b=b):
            if op is not None and discr_of_call(b, op, "Iterator::next"):
                return "iter"
            if op is not None and is_verdict_test(op):
                lids = sorted(x for x in atoms if x.startswith("lid:"))
                return "verdict:" + ",".join(lids[:3])
            return make_classifier([])(atoms, op)
        w = D.Walker(f, b, cls)
        w.summarise_predicates = True
        site_bbs = {bb for bb, t in sites}
        paths = w.walk(0, lambda bb, env: ("store", bb) if bb in site_bbs else None)
        for bb, t in sites:
            n += 1
            a = sl.of_operand(t["args"][1])
            constructed = any(x.startswith("call:") and "TokenResult::new_blocked" in x for x in a) and not any(x.startswith("call:") and x.endswith(("new_should_wait", "new_pass", "perform_checking")) for x in a)
            lids = {x for x in a if x.startswith("lid:")}
            # on the paths that reach this store: which variants can the stored verdict still be?  (tests on that very value only)
            possible = set()
            for p in paths:
                if p["outcome"] != ("store", bb):
                    continue
                vs = set(range(len(names)))
                for l in p["lits"]:
                    neg_ = False
                    e = l
                    while e[0] == "not":
                        neg_ = not neg_
                        e = e[1]
                    if e[0] in ("disc", "disc2", "discin", "disc_other") and str(e[1]).startswith("verdict:") and (set(str(e[1])[8:].split(",")) & lids):
                        if e[0] in ("disc", "disc2"):
                            sel = {e[2]}
                        elif e[0] == "discin":
                            sel = set(e[2])
                        else:
                            sel = set(range(len(names))) - set(e[2])
                        vs &= (set(range(len(names))) - sel) if neg_ else sel
                possible |= vs
            others = sorted(names[v] for v in possible if names[v] != "Blocked")
            ok = constructed or (bool(possible) and not others)
            ctx.instance("C13.verdict/slot-stores", b.path, {"constructed_blocked": constructed, "verdict_can_be": sorted(names[v] for v in possible)}, "set_result only with a Blocked result", ok, cfg)
            if not ok:
                ctx.violation("C13.verdict", "C13.verdict|slot-stores|%s|%s" % (b.impl_self.replace("core::", "", 1), (others or ["unknown"])[0]),
                              "%s stores a %s verdict in the context: the entry is admitted but no statistic slot is told pass or blocked" % (b.impl_self, "/".join(others) or "non-Blocked"), b.loc(bb), config=cfg)
    ctx.floor("C13.verdict", "set_result sites in the library's check slots", n, 4)
