"""Table discharge of panic sites (DESIGN Appendix C).  One row = one function role + one operand origin + the reason the
operand cannot make the call panic.  `indep` = the reason does not depend on what other threads do (so the site may run under a
shared lock).  Rows ending in '*' name a module-level role (all accessor closures over one thread-local / all initialisers of one
module); there are no catch-all rows.  A row whose premise is itself a rule instance names that rule.
"""
ROWS = [
    # ---- flow / hotspot controllers: G1 (generators install checker/calculator), G2 (owner back-pointers)
    ("flow::traffic_shaping::Controller::perform_checking", "unwrap", ["field:Controller.calculator"], "G1 (rule C12.generators): every built-in generator calls set_calculator before the Arc<Controller> is published", True),
    ("flow::traffic_shaping::Controller::perform_checking", "unwrap", ["field:Controller.checker"], "G1 (rule C12.generators): every built-in generator calls set_checker before publishing", True),
    ("flow::traffic_shaping::Controller::get_checker", "unwrap", ["field:Controller.checker"], "G1", True),
    ("flow::traffic_shaping::Controller::get_calculator", "unwrap", ["field:Controller.calculator"], "G1", True),
    ("hotspot::traffic_shaping::Controller::<C>::perform_checking", "unwrap", ["field:Controller.checker"], "G1: gen_reject / gen_throttling call set_checker before publishing", True),
    ("hotspot::traffic_shaping::Controller::<C>::get_checker", "unwrap", ["field:Controller.checker"], "G1", True),
    ("flow::traffic_shaping::Checker>::do_check", "unwrap", ["call:upgrade", "field:RejectChecker.owner"], "G2: the checker is reached only through &Controller (perform_checking), whose Arc is alive, and the generator set owner = downgrade(that Arc)", True),
    ("flow::traffic_shaping::Calculator>::calculate_allowed_threshold", "unwrap", ["call:upgrade", "field:WarmUpCalculator.owner"], "G2 (as above, calculator)", True),
    ("hotspot::traffic_shaping::Checker<C>>::do_check", "unwrap", ["call:upgrade", "field:RejectChecker.owner"], "G2 (hotspot reject checker)", True),
    ("hotspot::traffic_shaping::Checker<C>>::do_check", "unwrap", ["call:upgrade", "field:ThrottlingChecker.owner"], "G2 (hotspot throttling checker)", True),
    # ---- throttling arithmetic
    ("flow::traffic_shaping::throttling::ThrottlingChecker::new", "unwrap", ["call:try_into", "field:Rule.stat_interval_ms"], "milli2nano(u32) <= 4.3e9 * 1e6 < 2^63: the conversion to i64 cannot fail", True),
    ("flow::traffic_shaping::throttling::ThrottlingChecker::new", "unwrap", ["call:try_into", "field:Rule.max_queueing_time_ms"], "milli2nano(u32) < 2^63", True),
    ("flow::traffic_shaping::Checker>::do_check", "unwrap", ["call:try_into", "call:curr_time_nanos"], "Unix nanoseconds fit i64 until the year 2262", True),
    ("flow::traffic_shaping::Checker>::do_check", "unwrap", ["call:try_into", "field:ThrottlingChecker.last_passed_time"], "estimated_queue_duration is converted to u64 only on the `> 0` branch", True),
    # ---- rebuild helpers
    ("rule_manager::build_resource_traffic_shaping_controller", "index", ["call:calculate_reuse_index_for"], "index returned by calculate_reuse_index_for: produced by enumerate() over the same slice, compared against usize::MAX, no mutation of the slice in between (exclusive &mut)", True),
    ("rule_manager::build_resource_circuit_breaker", "index", ["call:calculate_reuse_index_for"], "index returned by calculate_reuse_index_for (as above)", True),
    # ---- breakers
    ("circuitbreaker::breaker::error_count::ErrorCountBreaker::new", "unwrap", ["call:get_rule_stat_sliding_window_bucket_count"], "LeapArray::new(n, interval) fails only if n == 0 or n does not divide interval; get_rule_stat_sliding_window_bucket_count returns 1 in exactly those cases", True),
    ("circuitbreaker::breaker::error_ratio::ErrorRatioBreaker::new", "unwrap", ["call:get_rule_stat_sliding_window_bucket_count"], "as above", True),
    ("circuitbreaker::breaker::slow_request::SlowRtBreaker::new", "unwrap", ["call:get_rule_stat_sliding_window_bucket_count"], "as above", True),
    ("circuitbreaker::breaker::BreakerBase::from_open_to_half_open", "unwrap", ["call:upgrade", "call:EntryContext::entry"], "the Arc of the entry is held by EntryBuilder::build for the whole SlotChain::entry call in which try_pass runs", True),
    ("base::entry::SentinelEntry::exit", "unwrap", ["call:Fn::call", "call:map_err", "param:self"], "every closure the library passes to when_exit returns Ok(()) on all paths (rule C03.rollback/hook checks `returns: [Ok]`)", True),
    # ---- slots
    ("base::slot_chain::SlotChain::entry", "unwrap", ["call:TokenResult::block_err"], "on the is_blocked() edge of the same verdict; block_err is Some exactly for Blocked", True),
    ("isolation::slot::AdaptiveSlot as core::base::slot_chain::RuleCheckSlot>::check", "unwrap", ["call:can_pass_check"], "every (false, r, s) returned by isolation::can_pass_check has r = Some and s = Some (rule C05.iso-report/tuple)", True),
    ("system::slot::AdaptiveSlot as core::base::slot_chain::RuleCheckSlot>::check", "unwrap", ["call:can_pass_check"], "every arm of system::can_pass_check that refuses sets snapshot = Some (rule C09.report/snapshot)", True),
    ("isolation::slot::can_pass_check", "unwrap", ["call:EntryContext::stat_node"], "the prepare slot of the global chain sets the node before any check slot runs (C13 phase order); custom chains without a prepare slot are outside C12's quantifier", True),
    ("flow::standalone_stat_slot::StandaloneStatSlot as core::base::slot_chain::StatSlot>::on_entry_pass", "unwrap", ["call:StandaloneStat::write_only_metric"], "dominated by !reuse_global(); every StandaloneStat::new(false, _, w) has w = Some (rule C01.wiring)", True),
    # ---- statistics
    ("stat::resource_node::ResourceNode::new", "unwrap", ["call:global_stat_sample_count_total"], "A9 (iii): ConfigEntity::check applied the same validity predicate to (sample_count_total, interval_ms_total) (rule C17.validator-agreement)", True),
    ("stat::resource_node::ResourceNode::new", "unwrap", ["call:metric_stat_sample_count"], "A9 (iii): ConfigEntity::check applied check_validity_for_reuse_statistic to the same four parameters (rule C17.validator-agreement)", True),
    ("stat::base::leap_array::LeapArray::<T>::get_bucket_of_time", "index", ["call:time2idx"], "idx = (now / bucket_len) % sample_count < sample_count = array.len() = mutex.len() (both vectors are filled by LeapArray::new)", True),
    ("stat::base::leap_array::LeapArray::<T>::reset_bucket", "index", ["param:idx"], "idx comes from time2idx in the only caller (get_bucket_of_time)", True),
    ("stat::base::leap_array::LeapArray::<T>::time2idx", "assert:div_zero", ["field:LeapArray.bucket_len_ms"], "bucket_len_ms = interval / sample_count >= 1: every constructor argument pair passed a validity test with interval != 0 (C02.construct, A9); LeapArray::new itself does not reject interval == 0, no caller can supply it (C02.who-may-construct)", True),
    ("stat::base::leap_array::LeapArray::<T>::time2idx", "assert:rem_zero", ["field:LeapArray.sample_count"], "sample_count != 0 is tested by LeapArray::new", True),
    ("stat::base::leap_array::LeapArray::<T>::calculate_start_stamp", "assert:rem_zero", ["field:LeapArray.bucket_len_ms"], "bucket_len_ms >= 1 (as for time2idx)", True),
    ("base::stat::check_validity_for_reuse_statistic", "assert:rem_zero", ["param:parent_interval_ms", "param:parent_sample_count"], "parent_bucket_length = parent_interval / parent_sample_count with parent_interval != 0 and parent_interval % parent_sample_count == 0 (validated two lines above): the quotient is >= 1", True),
    ("flow::rule_manager::generate_stat_for", "assert:rem_zero", ["call:global_stat_bucket_length_ms"], "global_stat_bucket_length_ms() = interval_total / sample_count_total >= 1 for a configuration that passed ConfigEntity::check (A9)", True),
    ("flow::rule_manager::generate_stat_for", "assert:div_zero", ["call:global_stat_bucket_length_ms"], "as above", True),
    ("config::base::global_stat_bucket_length_ms::{closure#0}", "assert:div_zero", ["call:global_stat_sample_count_total"], "sample_count_total != 0 for a configuration that passed ConfigEntity::check (A9)", True),
    ("hotspot::traffic_shaping::Checker<C>>::do_check", "assert:div_zero", ["field:Rule.duration_in_sec"], "QPS rules with duration_in_sec == 0 fail is_valid, and only valid rules reach a controller (rule C10.validity-filter)", True),
    # ---- time
    ("utils::time::cal_curr_time_millis", "assert:div_zero", ["static:UNIX_TIME_UNIT_OFFSET"], "constant Duration::MILLISECOND / Duration::NANOSECOND = 1_000_000", True),
    ("utils::time::format_time_nanos_curr", "unwrap", ["call:curr_time_nanos"], "the current time is a valid OffsetDateTime; the format description is a literal", True),
    ("utils::time::format_time_nanos_curr", "unwrap", ["call:format"], "formatting with a literal, valid description cannot fail", True),
    # ---- configuration accessors (module-level role: closures/accessors over the GLOBAL_CONFIG cell)
    ("config::base::*", "unwrap", ["call:try_with"], "LocalKey::try_with fails only during thread teardown", True),
    ("config::base::*", "borrow", ["param:c"], "no RefCell borrow of the configuration is held across a call: every accessor borrows, reads one field and returns", True),
    ("config::base::*", "unwrap", ["call:RwLock::<T>::read"], "poison-class after the configuration became process-wide", True),
    ("system_metric::get_process_memory_stat", "unwrap", ["call:process", "static:SYSTEM"], "System::process(pid) for the live current pid right after refresh_process(pid) is Some", True),
    ("system_metric::get_process_cpu_stat", "unwrap", ["call:process", "static:SYSTEM"], "as above", True),
    # ---- metric log search path (core-super)
    ("log::metric::searcher::DefaultMetricSearcher::search_offset_and_read", "index", ["call:list_metric_files"], "i ranges over file_no..filenames.len(): inside the vector returned by list_metric_files", True),
    ("log::metric::searcher::DefaultMetricSearcher::search_offset_and_read", "unwrap", ["call:to_str"], "every listed path is base_dir (built from a String) joined with a name that passed name.to_str() == Some", True),
    ("log::metric::list_metric_files_conditional", "unwrap", ["call:to_str", "param:file_pattern"], "the pattern path is built from a String (PathBuf::from(String))", True),
    ("log::metric::filename_comparator", "unwrap", ["call:file_name"], "compared paths are base_dir.join(name): they have a final component", True),
    ("log::metric::filename_comparator", "unwrap", ["call:to_str"], "names were pushed only on the name.to_str() == Some branch", True),
    ("log::metric::filename_comparator", "index", ["call:split", "const:2"], "names passed filename_matches for one base filename: <svc>-metrics.log.<rest> has >= 3 dot-separated parts, so parts[2] exists; a deeper constant index (parts[3] of a name without pid part, D26) is NOT covered by this row", True),
    ("log::metric::reader::MetricLogReader>::read_metrics", "index", ["param:file_no", "param:name_list"], "first read: file_no is the searcher's loop variable i in file_no..filenames.len() over the same list (search_offset_and_read), and the list is non-empty; later reads are guarded by `file_no >= name_list.len() -> break` (local)", True),
    ("log::metric::reader::MetricLogReader>::read_metrics_by_end_time", "index", ["param:file_no", "param:name_list"], "as for read_metrics", True),
    ("log::metric::reader::get_latest_second", "index", ["param:items", "call:len"], "items[len - 1] on the !is_empty() path", True),
    # ---- exporter (core-super): lazy_static initialisers
    ("exporter::*", "unwrap", ["call:new"], "prometheus metric constructed from literal, distinct name/help/labels inside a lazy_static initialiser (runs once)", True),
    ("exporter::*", "unwrap", ["call:register"], "registered once per process from a lazy_static initialiser", True),
    ("exporter::PROCESS_NAME as std::ops::Deref>::deref::__static_ref_initialize", "index", ["call:args"], "std::env::args() always has argv[0] on the supported platforms", True),
]
