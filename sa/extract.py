"""Fact extraction: run the factgen driver over /repo's *current working tree*.

Configurations (DESIGN §1.1):
  core-default   sentinel-core lib, default features
  core-super     sentinel-core lib, features full,metric_log,ds_consul,exporter
  tower          harness over /repo/middleware/tower/src/lib.rs
  tower-http     same, feature http
  examples-full  cargo check --examples --features full

Freshness: a fact set is reused only if its key (SHA-256 over every relevant
file under the repo + the driver binary) equals the key of the current tree.
Otherwise the member crates' fingerprints are deleted, cargo re-runs the
wrapper, and we assert that a fact file stamped with this run's nonce exists.
"""
import fcntl
import glob
import hashlib
import json
import os
import shutil
import subprocess
import sys
import time
import uuid

VERIF = os.path.dirname(os.path.dirname(os.path.abspath(__file__)))
REPO = os.environ.get("VERIF_REPO", "/repo")
CACHE = os.environ.get("VERIF_CACHE", os.path.join(VERIF, ".cache"))
DRIVER_DIR = os.path.join(VERIF, "engine", "factgen")
DRIVER = os.path.join(DRIVER_DIR, "target", "debug", "factgen")
HARNESS_TOWER = os.path.join(VERIF, "engine", "harness", "tower")

KEY_DIRS = ["sentinel-core", "sentinel-macros", "middleware/tower", "examples", ".cargo"]
KEY_FILES = ["Cargo.toml", "Cargo.lock"]

CONFIGS = {
    "core-default": dict(cwd="{repo}", args=["check", "-p", "sentinel-core", "--lib"],
                         members=["sentinel-core", "sentinel_core"], crates=["sentinel_core"]),
    "core-super": dict(cwd="{repo}", args=["check", "-p", "sentinel-core", "--lib", "--features",
                                           "full,metric_log,ds_consul,exporter"],
                       members=["sentinel-core", "sentinel_core", "sentinel-macros", "sentinel_macros"],
                       crates=["sentinel_core"]),
    "tower": dict(cwd="{harness}", args=["check", "--lib"],
                  members=["sentinel-tower", "sentinel_tower"], crates=["sentinel_tower"]),
    "tower-http": dict(cwd="{harness}", args=["check", "--lib", "--features", "http"],
                       members=["sentinel-tower", "sentinel_tower"], crates=["sentinel_tower"]),
    "examples-full": dict(cwd="{repo}", args=["check", "-p", "sentinel-core", "--examples", "--features", "full"],
                          members=["sentinel-core", "sentinel_core", "sentinel-macros", "sentinel_macros"],
                          crates=None),
}


def sysroot_lib():
    out = subprocess.run(["rustc", "+nightly", "--print", "sysroot"], capture_output=True, text=True, check=True)
    return os.path.join(out.stdout.strip(), "lib")


def ensure_driver():
    """Build the driver if missing or older than its sources."""
    srcs = glob.glob(os.path.join(DRIVER_DIR, "src", "*.rs")) + [os.path.join(DRIVER_DIR, "Cargo.toml")]
    need = not os.path.exists(DRIVER) or any(os.path.getmtime(s) > os.path.getmtime(DRIVER) for s in srcs)
    if need:
        env = dict(os.environ, CARGO_NET_OFFLINE="true")
        r = subprocess.run(["cargo", "+nightly", "build", "--offline"], cwd=DRIVER_DIR, env=env,
                           capture_output=True, text=True)
        if r.returncode != 0:
            sys.stderr.write(r.stderr[-4000:])
            raise RuntimeError("factgen driver failed to build")
    return DRIVER


def tree_key(repo=None):
    repo = repo or REPO
    h = hashlib.sha256()
    files = []
    for d in KEY_DIRS:
        base = os.path.join(repo, d)
        for root, dirs, fs in os.walk(base):
            dirs[:] = sorted(x for x in dirs if x not in ("target", ".git"))
            for f in sorted(fs):
                files.append(os.path.join(root, f))
    for f in KEY_FILES:
        p = os.path.join(repo, f)
        if os.path.exists(p):
            files.append(p)
    for p in files:
        try:
            with open(p, "rb") as fh:
                data = fh.read()
        except OSError:
            continue
        h.update(os.path.relpath(p, repo).encode())
        h.update(b"\0")
        h.update(hashlib.sha256(data).digest())
    with open(ensure_driver(), "rb") as fh:
        h.update(hashlib.sha256(fh.read()).digest())
    return h.hexdigest()[:24]


def _rm_member_fingerprints(target, members):
    n = 0
    for prof in ("debug",):
        fp = os.path.join(target, prof, ".fingerprint")
        if not os.path.isdir(fp):
            continue
        for e in os.listdir(fp):
            stem = e.rsplit("-", 1)[0]
            if stem in members or any(stem == m for m in members):
                shutil.rmtree(os.path.join(fp, e), ignore_errors=True)
                n += 1
            # examples: fingerprint dirs are named after the package (sentinel-core-<hash>) too
    return n


def extract(config, repo=None, cache=None, force=False, quiet=True, target_dir=None):
    """Return (facts_dir, info).  facts_dir contains one JSON per analysed crate."""
    repo = repo or REPO
    cache = cache or CACHE
    spec = CONFIGS[config]
    os.makedirs(cache, exist_ok=True)
    key = tree_key(repo)
    facts_root = os.path.join(cache, "facts")
    os.makedirs(facts_root, exist_ok=True)
    scratch = os.path.realpath(repo) != os.path.realpath("/repo")
    out_dir = os.path.join(facts_root, "%s%s-%s" % ("scratch-" if scratch else "", config, key))
    lock_path = os.path.join(cache, "lock-%s" % config)
    t0 = time.time()
    with open(lock_path, "w") as lk:
        fcntl.flock(lk, fcntl.LOCK_EX)
        stamp = os.path.join(out_dir, "STAMP.json")
        if os.path.exists(stamp) and not force:
            info = json.load(open(stamp))
            info["reused"] = True
            info["wall_s"] = round(time.time() - t0, 2)
            return out_dir, info
        # drop fact sets of other tree keys for this config (disk hygiene)
        pref = ("scratch-" if scratch else "") + config
        for d in glob.glob(os.path.join(facts_root, pref + "-*")):
            if d != out_dir and os.path.basename(d).rsplit("-", 1)[0] == pref:
                shutil.rmtree(d, ignore_errors=True)
        shutil.rmtree(out_dir, ignore_errors=True)
        tmp_out = out_dir + ".tmp"
        shutil.rmtree(tmp_out, ignore_errors=True)
        os.makedirs(tmp_out)
        target = target_dir or os.path.join(cache, "target-" + ("tower" if config.startswith("tower") else "core"))
        os.makedirs(target, exist_ok=True)
        _rm_member_fingerprints(target, spec["members"])
        nonce = uuid.uuid4().hex
        env = dict(os.environ)
        env.update({
            "LD_LIBRARY_PATH": sysroot_lib() + ":" + env.get("LD_LIBRARY_PATH", ""),
            "RUSTFLAGS": "-Zmir-opt-level=0 -Awarnings",
            "RUSTC_WORKSPACE_WRAPPER": ensure_driver(),
            "CARGO_TARGET_DIR": target,
            "CARGO_NET_OFFLINE": "true",
            "FACTGEN_OUT": tmp_out,
            "FACTGEN_NONCE": nonce,
            "CARGO_INCREMENTAL": "0",
        })
        cwd = spec["cwd"].format(repo=repo, harness=HARNESS_TOWER)
        cmd = ["cargo", "+nightly"] + spec["args"] + ["--offline"]
        if cwd == HARNESS_TOWER:
            if repo != "/repo":
                # scratch copies: the harness points at /repo by absolute path; build a
                # private harness that points at the scratch copy instead.
                cwd = _private_harness(repo, cache)
            lock = os.path.join(cwd, "Cargo.lock")
            if not os.path.exists(lock):
                shutil.copy(os.path.join(repo, "Cargo.lock"), lock)
        r = subprocess.run(cmd, cwd=cwd, env=env, capture_output=True, text=True)
        if r.returncode != 0:
            shutil.rmtree(tmp_out, ignore_errors=True)
            raise BuildError(config, r.stderr[-6000:])
        files = sorted(glob.glob(os.path.join(tmp_out, "*.json")))
        good = []
        for f in files:
            # cheap nonce check without parsing everything twice
            with open(f) as fh:
                head = fh.read(400)
            if nonce in head:
                good.append(f)
        want = spec["crates"]
        names = [os.path.basename(f).split(".")[0] for f in good]
        if want is not None:
            for w in want:
                if w not in names:
                    raise RuntimeError("factgen produced no fresh facts for crate %s in %s (got %s)" % (w, config, names))
        elif not good:
            raise RuntimeError("factgen produced no fresh facts in %s" % config)
        info = {"config": config, "key": key, "nonce": nonce, "files": [os.path.basename(f) for f in good],
                "crates": names, "extract_s": round(time.time() - t0, 2), "reused": False, "repo": repo}
        json.dump(info, open(os.path.join(tmp_out, "STAMP.json"), "w"))
        os.rename(tmp_out, out_dir)
        info["wall_s"] = round(time.time() - t0, 2)
        return out_dir, info


def _private_harness(repo, cache):
    d = os.path.join(cache, "harness-" + hashlib.sha256(repo.encode()).hexdigest()[:12])
    os.makedirs(os.path.join(d, ".cargo"), exist_ok=True)
    src = open(os.path.join(HARNESS_TOWER, "Cargo.toml")).read().replace("/repo/", repo.rstrip("/") + "/")
    open(os.path.join(d, "Cargo.toml"), "w").write(src)
    open(os.path.join(d, ".cargo", "config.toml"), "w").write("[net]\noffline = true\n")
    lock_src = os.path.join(HARNESS_TOWER, "Cargo.lock")
    if os.path.exists(lock_src):
        shutil.copy(lock_src, os.path.join(d, "Cargo.lock"))
    return d


class BuildError(Exception):
    def __init__(self, config, stderr):
        super().__init__("cargo check failed for %s" % config)
        self.config = config
        self.stderr = stderr


if __name__ == "__main__":
    import argparse
    ap = argparse.ArgumentParser()
    ap.add_argument("configs", nargs="*", default=["core-default"])
    ap.add_argument("--force", action="store_true")
    ap.add_argument("--repo", default=None)
    a = ap.parse_args()
    for c in a.configs:
        try:
            d, info = extract(c, repo=a.repo, force=a.force)
        except BuildError as e:
            sys.stderr.write(e.stderr)
            raise
        print(c, d, json.dumps(info))
