"""A1 — lock model, guard liveness, lock-order graph (DESIGN §2 A1)."""
import re
from collections import defaultdict

from .core import *

LOCK_FNS = {
    "std::sync::Mutex::<T>::lock": ("mutex", True),
    "std::sync::Mutex::<T>::try_lock": ("mutex", False),
    "std::sync::RwLock::<T>::read": ("read", True),
    "std::sync::RwLock::<T>::write": ("write", True),
    "std::sync::RwLock::<T>::try_read": ("read", False),
    "std::sync::RwLock::<T>::try_write": ("write", False),
}
GUARD_RE = re.compile(r"std::sync::(MutexGuard|RwLockReadGuard|RwLockWriteGuard)<")


def lock_call(t):
    d = callee_def(t)
    return LOCK_FNS.get(d)


def is_guard_ty(ty):
    return bool(GUARD_RE.search(ty))


class LockModel:
    def __init__(self, facts):
        self.f = facts
        self._static_fn = {}
        self._body = {}

    # ---- lock classes -------------------------------------------------
    def static_returned_by(self, path, depth=0):
        """If the body `path` returns a reference to a static (accessor fn), return its name."""
        if path in self._static_fn:
            return self._static_fn[path]
        self._static_fn[path] = None
        b = self.f.bodies.get(path)
        if b is None or depth > 2:
            return None
        at = Slicer(self.f, b).of_local(0)
        st = sorted(a[7:] for a in at if a.startswith("static:"))
        if len(st) == 1:
            self._static_fn[path] = st[0]
        return self._static_fn[path]

    def lock_class(self, body, t):
        """static:<path> for lazy_static / static locks (also through accessor fns); otherwise an instance class
        named by the lock's inner type (all instance locks of this crate have distinct inner types), annotated with
        the field when the receiver visibly is one."""
        sl = Slicer(self.f, body)
        at = sl.of_operand(t["args"][0])
        st = sorted(a[7:] for a in at if a.startswith("static:"))
        if st:
            return "static:" + _short_static(st[0])
        for a in sorted(at):
            if a.startswith("call:"):
                s = self.static_returned_by(a[5:])
                if s:
                    return "static:" + _short_static(s)
        inner = (t["callee"].get("targs") or ["?"])[0]
        return "inst:" + _short_ty(inner)

    def _field_ty(self, adt, fn):
        a = self.f.adts.get(adt)
        if not a:
            return None
        for v in a["variants"]:
            for fl in v["fields"]:
                if fl["name"] == fn:
                    return fl["ty"]
        return None

    # ---- guard liveness -----------------------------------------------
    def analyse(self, body):
        """Returns dict: 'acq' -> list of acquisitions {bb, mode, waits, cls, line};
        'held_in'[bb] -> frozenset of acquisition indices held on entry to bb's terminator (i.e. during the call);
        """
        key = (body.path, hasattr(body, "base"))
        if key in self._body:
            return self._body[key]
        acqs = []
        acq_at = {}
        for bb, t in body.calls(include_cleanup=False):
            lc = lock_call(t)
            if lc:
                idx = len(acqs)
                acqs.append({"bb": bb, "mode": lc[0], "waits": lc[1], "cls": self.lock_class(body, t), "loc": body.loc(bb), "dest": t["dest"]["l"]})
                acq_at[bb] = idx
        res = {"acq": acqs, "held_at_term": {}, "held_after": {}}
        if not acqs:
            self._body[key] = res
            return res
        def flow(must):
            IN = {0: frozenset()}
            work = [0]
            held_term = {}
            while work:
                bb = work.pop()
                st = set(IN[bb])
                blk = body.blocks[bb]
                for s in blk["stmts"]:
                    if s["k"] == "assign":
                        rv = s["rv"]
                        src = None
                        if rv["k"] == "use" and rv["op"].get("k") == "move":
                            src = rv["op"]["pl"]["l"]
                        elif rv["k"] == "agg":
                            for o in rv["ops"]:
                                if o.get("k") == "move" and any(l == o["pl"]["l"] for l, _ in st):
                                    src = o["pl"]["l"]
                        if src is not None:
                            moved = {(l, a) for l, a in st if l == src}
                            if moved:
                                st -= moved
                                dst = s["lhs"]["l"]
                                st |= {(dst, a) for _, a in moved}
                    elif s["k"] == "dead":
                        st = {(l, a) for l, a in st if l != s["l"]}
                cur = frozenset(a for _, a in st)
                if must:
                    held_term[bb] = cur if bb not in held_term else (held_term[bb] & cur)
                else:
                    held_term[bb] = cur | held_term.get(bb, frozenset())
                t = blk["term"]
                out = set(st)
                if t:
                    if t["k"] == "drop":
                        pl = t["pl"]
                        if not pl["p"]:
                            out = {(l, a) for l, a in out if l != pl["l"]}
                    elif t["k"] == "call":
                        moved_args = [a["pl"]["l"] for a in t["args"] if a.get("k") == "move" and not a["pl"]["p"]]
                        carried = {(l, a) for l, a in out if l in moved_args}
                        if carried:
                            out -= carried
                            dty = t.get("dest_ty", "")
                            if is_guard_ty(dty) or "MappedMutexGuard" in dty:
                                out |= {(t["dest"]["l"], a) for _, a in carried}
                            # else: consumed by the callee (mem::drop, ...) -> released
                        if bb in acq_at:
                            out.add((t["dest"]["l"], acq_at[bb]))
                fo = frozenset(out)
                for s2 in body.succs(bb):
                    old = IN.get(s2)
                    if old is None:
                        new = fo
                    elif must:
                        # an acquisition is held for sure only if it is held (in whatever local) on every incoming path
                        keep = {a for _, a in old} & {a for _, a in fo}
                        new = frozenset((l, a) for l, a in (old | fo) if a in keep)
                    else:
                        new = old | fo
                    if new != old:
                        IN[s2] = new
                        work.append(s2)
            return held_term
        held_term = flow(False)
        res["must_held_at_term"] = flow(True)
        res["held_at_term"] = held_term
        self._body[key] = res
        return res

    def held_classes_at(self, body, bb):
        r = self.analyse(body)
        return [r["acq"][i] for i in sorted(r["held_at_term"].get(bb, ()))]


def _short_static(s):
    return s.replace("core::", "", 1) if s.startswith("core::") else s


def _short_field(x):
    adt, _, fn = x.rpartition(".")
    return adt.rsplit("::", 1)[-1] + "." + fn


def _short_ty(t):
    t = re.sub(r"'[a-z_]+ ?", "", t)
    return re.sub(r"\b(?:[a-z_0-9]+::)+", "", t)
