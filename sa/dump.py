"""Debug helper: python3 -m sa.dump <config> <body path suffix> [--cleanup]"""
import json
import sys

from . import extract as X
from .core import Facts, place_str


def op_s(op):
    if op is None:
        return "?"
    k = op.get("k")
    if k in ("copy", "move"):
        return ("move " if k == "move" else "") + place_str(op["pl"])
    if k == "const":
        if "fn" in op:
            return "fn " + op["fn"]
        if "static" in op:
            return "&static " + op["static"]
        if "fval" in op:
            return "const %s" % op["fval"]
        if "val" in op:
            return "const %s" % op["val"]
        return "const " + op.get("text", "?")[:60]
    return "?"


def rv_s(rv):
    k = rv["k"]
    if k == "use":
        return op_s(rv["op"])
    if k == "ref":
        return ("&mut " if rv["mut"] else "&") + place_str(rv["pl"])
    if k == "bin":
        return "%s(%s, %s)" % (rv["op"], op_s(rv["a"]), op_s(rv["b"]))
    if k == "un":
        return "%s(%s)" % (rv["op"], op_s(rv["a"]))
    if k == "cast":
        return "%s as %s [%s]" % (op_s(rv["op"]), rv["ty"][:80], rv["kind"])
    if k == "agg":
        nm = rv.get("adt") and (rv["adt"] + "::" + rv["variant"]) or rv.get("closure") or rv.get("coroutine") or ("tuple" if rv.get("tuple") else "agg")
        return "%s{%s}" % (nm, ", ".join(op_s(o) for o in rv["ops"]))
    if k == "discr":
        return "discr(%s)" % place_str(rv["pl"])
    if k == "rawptr":
        return "&raw " + place_str(rv["pl"])
    return k + ":" + rv.get("text", "")[:60]


def term_s(t):
    if t is None:
        return "none"
    k = t["k"]
    if k == "call":
        c = t["callee"]
        nm = c.get("resolved") or c.get("def") or ("indirect " + op_s(c.get("indirect")))
        if c.get("rk") == "virtual":
            nm = "dyn " + c["def"]
        return "%s = %s(%s) -> bb%s unwind %s  @%s" % (place_str(t["dest"]), nm, ", ".join(op_s(a) for a in t["args"]),
                                                   t["target"], t["unwind"], t["line"])
    if k == "switch":
        return "switch %s [%s] else bb%s @%s" % (op_s(t["op"]), ", ".join("%s->bb%s" % (v, b) for v, b in t["targets"]),
                                             t["otherwise"], t.get("line"))
    if k == "goto":
        return "goto bb%s" % t["target"]
    if k == "drop":
        return "drop %s : %s -> bb%s @%s" % (place_str(t["pl"]), t["ty"][:70], t["target"], t.get("line"))
    if k == "assert":
        return "assert(%s == %s, %s) -> bb%s @%s" % (op_s(t["cond"]), t["expected"], t["msg"], t["target"], t.get("line"))
    if k == "yield":
        return "yield -> bb%s drop bb%s" % (t["target"], t.get("drop"))
    return k


def dump_body(b, cleanup=False):
    print("== %s [%s] %s:%s argc=%d impl_trait=%s impl_self=%s" % (b.path, b.kind, b.file, b.line, b.argc, b.impl_trait, b.impl_self))
    for i, l in enumerate(b.locals):
        nm = b.vname(i)
        print("   _%d: %s%s" % (i, l["ty"][:110], "  // " + nm if nm else ""))
    for i, blk in enumerate(b.blocks):
        if blk["cleanup"] and not cleanup:
            continue
        print(" bb%d%s:" % (i, " (cleanup)" if blk["cleanup"] else ""))
        for s in blk["stmts"]:
            if s["k"] == "assign":
                print("     %s = %s   @%s" % (place_str(s["lhs"]), rv_s(s["rv"]), s["line"]))
            elif s["k"] == "dead":
                print("     dead _%d" % s["l"])
        print("     > " + term_s(blk["term"]))


if __name__ == "__main__":
    cfg = sys.argv[1]
    suffix = sys.argv[2]
    d, info = X.extract(cfg)
    f = Facts(d, crates=X.CONFIGS[cfg]["crates"])
    bs = f.find(suffix) or [b for p, b in f.bodies.items() if suffix in p]
    for b in bs:
        dump_body(b, "--cleanup" in sys.argv)
