"""C08 — warm-up ramps from threshold/coldFactor up to threshold, and cools when idle.

The statement is a numerical trajectory; what is decided here are the structural clauses each of which is a NECESSARY condition of it
(breaking one breaks the stated behaviour for every rule), not the trajectory:

  C08.wiring        every built-in WarmUp strategy is registered once and its generator builds the warm-up calculator (no ramp otherwise)
  C08.needs-stat    a WarmUp rule needs statistics (it would read the no-op metric: rate always 0, the bucket never drains, cold for ever)
  C08.threading     the checker is given the calculator's allowance as its threshold (C01's rule, re-run)
  C08.roles         the calculator's state is found by role, never by private name: two atomic cells (token balance, refill stamp), the
                    warning line, the capacity, the slope, the threshold, the cold factor (from the constructor's data flow)
  C08.construct     cold start (balance 0, stamp 0: the first refill fills the bucket to capacity), threshold copied from the rule, the
                    warning line / capacity / slope each depend on the period, the threshold and the cold factor; a cold factor <= 1 is
                    replaced before it divides
  C08.allowance     allowance = threshold iff balance < warning line, otherwise a value computed from balance, warning line, slope and
                    threshold; the balance is read after the refill/drain step on every path; that step is fed with the previous second's
                    Pass rate of the controller's own read metric
  C08.sync          the refill/drain step does nothing iff now <= stamp and otherwise installs the cooled-down balance with one CAS;
                    on the CAS success edge it drains the observed rate, clamps an underflow to 0 and advances the stamp to the `now` it tested
  C08.cooldown      refill iff balance < warning line or rate < floor(threshold / cold factor) (equalities unconstrained); the refill has
                    (now - stamp), the threshold and the ms->s constant 1000 in its origin; the result is capped at the capacity on every path
  C08.valid         is_valid refuses a WarmUp rule with period 0 (the slope would divide by zero and the allowance be NaN: everything passes)
"""
from .core import *
from . import decision as D
from .decrules import *

R = "C08"


def run(ctx):
    ctx.explanation = (
        "Structural necessary conditions of the warm-up behaviour, decided from MIR: generator table (WarmUp keys build the warm-up "
        "calculator), decision tables of the allowance test, of the refill/drain gate and of the cool-down condition compared with the "
        "documented algorithm on every ordering of their operands, origin completeness of the refill amount and of the constructor's "
        "derived quantities, must-pass rules for the refill step before the balance is read and for the stamp / drain / clamp on the "
        "CAS success edge, cap at capacity on every path, cold-start constants, validator clause. State cells are located by role "
        "(type and data flow), not by private names.")
    ctx.not_decided = ("the trajectory itself: that the allowance is about q/c when cold, never decreases under saturating demand, reaches q within "
                       "2p+2 s and is cold again after 2p s idle. Those are numerical statements about the formulae (warning line, capacity, "
                       "slope, refill amount) whose operands are checked here but whose arithmetic is not; a change that keeps every operand "
                       "and comparison but alters the algebra is invisible to this check.")
    ctx.assumptions = ["float NaN orderings ignored", "equalities in the cool-down condition and in the refill gate are not fixed by the statement"]
    cfg = "core-default"
    f = ctx.facts(cfg)
    from . import gentable
    gentable.check(ctx, f, "flow", cfg, "C08.wiring")
    needs_stat(ctx, f, cfg)
    from . import rules_C01
    rules_C01.threading(ctx, f, cfg)
    # the statistics a warm-up rule inherits on reload are real ones: the reuse predicate requires both rules to need statistics
    from . import rules_C11
    rules_C11.reuse_predicate(ctx, f, "flow", cfg, R="C08.needs-stat/reuse-predicate")
    ro = roles(ctx, f, cfg)
    if ro is None:
        return
    construct(ctx, f, cfg, ro)
    allowance(ctx, f, cfg, ro)
    sync(ctx, f, cfg, ro)
    cooldown(ctx, f, cfg, ro)
    valid(ctx, f, cfg)


# --------------------------------------------------------------------------------------------------------------------------------
def needs_stat(ctx, f, cfg):
    ns = f.raw(f.one("flow::rule::Rule::need_statistic"))
    if not ctx.floor("C08.needs-stat", "flow Rule::need_statistic", 1 if ns else 0, 1):
        return
    cls = make_classifier([("control", ["field:Rule.control_strategy"], []), ("Reject", ["variant:ControlStrategy::Reject"], []),
                           ("calc", ["field:Rule.calculate_strategy"], []), ("WarmUp", ["variant:CalculateStrategy::WarmUp"], [])])
    w = D.Walker(f, ns, cls)
    paths = w.walk(0, lambda bb, env: None)

    def outcome(p, asg):
        v = p["env"].get("_0")
        return "unknown" if v is None else ("need" if D.ev(v, asg) else "no-need")

    def expected(asg):
        r = D.rel_of(asg, "calc", "WarmUp")
        return "need" if r == "=" else None
    n, ncon, mism = run_table(ctx, "C08.needs-stat", ns.path, cfg, paths, outcome, expected)
    ok = not mism and ncon > 0
    ctx.instance("C08.needs-stat", ns.path, {"rows": n, "constrained": ncon, "mismatches": mism[:3]}, "calculate_strategy == WarmUp => need_statistic()", ok, cfg)
    if not ok:
        ctx.violation("C08.needs-stat", "C08.needs-stat|need_statistic", "a WarmUp rule may be judged not to need statistics: its calculator would read the no-op metric "
                      "(rate 0 for ever), the bucket never drains and the rule stays cold", ns.loc(), config=cfg)


# --------------------------------------------------------------------------------------------------------------------------------
def _calc_type(f):
    cands = [b for b in f.impl_methods("flow::traffic_shaping::Calculator", "calculate_allowed_threshold") if (b.impl_self or "").endswith("::WarmUpCalculator")]
    # this module reads the calculator's own bodies as written (roles are found by data flow, whichever helper holds them)
    return f.raw(cands[0]) if cands else None


def _own_bodies(f, entry):
    """bodies of the calculator's own type reachable from the allowance method (helpers are private: found by reachability, not name)."""
    ty = entry.impl_self
    out = [entry]
    seen = {entry.path}
    work = [entry]
    while work:
        b = work.pop()
        for bb, t in b.calls():
            for tg in f.call_targets(b, t):
                nb = f.bodies.get(tg)
                if nb is not None and nb.path not in seen and (nb.impl_self == ty or nb.path.startswith(entry.path.rsplit("::", 1)[0] if False else ty.rsplit("::", 1)[0] + "::")):
                    if nb.impl_self == ty or nb.kind in ("Fn", "Closure"):
                        seen.add(nb.path)
                        out.append(nb)
                        work.append(nb)
    return out


def _fld(atom_set, ty):
    return sorted(a.rsplit(".", 1)[1] for a in atom_set if a.startswith("field:" + ty + "."))


def roles(ctx, f, cfg):
    entry = _calc_type(f)
    if not ctx.floor("C08.roles", "impl Calculator::calculate_allowed_threshold for WarmUpCalculator", 1 if entry else 0, 1):
        return None
    ty = entry.impl_self
    adt = f.adts.get(ty)
    if adt is None:
        ctx.violation("C08.roles", "C08.roles|adt", "the warm-up calculator type is not in the fact base", entry.loc(), config=cfg)
        return None
    fields = {x["name"]: x["ty"] for x in adt["variants"][0]["fields"]}
    atom_f = sorted(n for n, t in fields.items() if "Atomic" in t and "64" in t)
    bodies = _own_bodies(f, entry)
    # constructor: the body of the type that aggregates it
    ctor = None
    agg = None
    for p, nb in f.bodies.items():
        if nb.impl_self == ty:
            for bi, blk in enumerate(nb.blocks):
                if blk.get("cleanup"):
                    continue
                for s in blk["stmts"]:
                    if s["k"] == "assign" and s["rv"]["k"] == "agg" and s["rv"].get("adt") == ty:
                        ctor, agg = nb, s["rv"]
    if ctor is None:
        ctx.violation("C08.roles", "C08.roles|constructor", "no constructor of the warm-up calculator found", entry.loc(), config=cfg)
        return None
    csl = Slicer(f, ctor)
    corig = {}
    clocal = {}
    for name, op in zip(agg["fields"], agg["ops"]):
        corig[name] = csl.of_operand(op)
        pl = op_place(op)
        clocal[name] = pl["l"] if pl and not pl["p"] else None
    # stamp = the atomic cell that is stored a value derived from the clock; balance = the other one
    stamp = None
    for b in bodies:
        sl = Slicer(f, b)
        for bb, t in b.calls():
            if atomic_op(t) == "store":
                fa = _fld(sl.of_operand(t["args"][0]), ty)
                va = sl.of_operand(t["args"][1])
                if fa and any_atom(va, "call:curr_time_millis") or (fa and any(x.startswith("param:") for x in va) and "const:0" not in va and any("time" in x for x in va)):
                    stamp = fa[0]
    if stamp is None:
        # no store (that is what C08.sync reports): fall back to the cell whose load is compared with the clock
        for b in bodies:
            sl = Slicer(f, b)
            for blk in b.blocks:
                for s in blk["stmts"]:
                    if s["k"] == "assign" and s["rv"]["k"] == "bin" and s["rv"]["op"] in D.CMP_OPS:
                        a1, a2 = sl.of_operand(s["rv"]["a"]), sl.of_operand(s["rv"]["b"])
                        for x, y in ((a1, a2), (a2, a1)):
                            if any_atom(x, "call:curr_time_millis") and _fld(y, ty) and _fld(y, ty)[0] in atom_f and not any_atom(y, "call:curr_time_millis"):
                                stamp = _fld(y, ty)[0]
    bal = [x for x in atom_f if x != stamp]
    # scalar roles from the constructor's data flow
    thr = [n for n, a in corig.items() if fields[n] == "f64" and any_atom(a, "field:Rule.threshold") and not any(x.startswith("op:") for x in a)]
    cold = [n for n, a in corig.items() if fields[n].startswith("u") and any_atom(a, "field:Rule.warm_up_cold_factor") and not any_atom(a, "field:Rule.threshold")]
    u64s = [n for n in fields if fields[n] == "u64" and n not in atom_f]
    warn = cap = None
    lines_lids = None
    if len(u64s) == 2:
        a, b_ = u64s
        # named locals on the way to each operand: the capacity is computed from the warning line, so its set strictly contains the other
        la = {x for x in corig[a] if x.startswith("lid:")}
        lb = {x for x in corig[b_] if x.startswith("lid:")}
        if la < lb:
            warn, cap = a, b_
        elif lb < la:
            warn, cap = b_, a
        lines_lids = (la, lb) if warn == a else (lb, la)
    slope = [n for n in fields if fields[n] == "f64" and n not in thr]
    ro = {"type": ty, "entry": entry, "bodies": bodies, "ctor": ctor, "agg": agg, "corig": corig, "clocal": clocal,
          "stamp": stamp, "balance": bal[0] if len(bal) == 1 else None, "threshold": thr[0] if len(thr) == 1 else None,
          "cold": cold[0] if len(cold) == 1 else None, "warning": warn, "capacity": cap, "lids": lines_lids if warn else None, "slope": slope[0] if len(slope) == 1 else None}
    found = {k: ro[k] for k in ("stamp", "balance", "threshold", "cold", "warning", "capacity", "slope")}
    ok = all(found.values())
    ctx.instance("C08.roles", ty, dict(found, helper_bodies=[b.path.rsplit("::", 1)[-1] for b in bodies]),
                 "two atomic cells (balance, stamp), warning line < capacity by construction, slope, threshold, cold factor", ok, cfg)
    if not ok:
        ctx.violation("C08.roles", "C08.roles|not-recognised|" + ",".join(k for k, v in found.items() if not v),
                      "the warm-up calculator's state could not be identified by role (%s): expected two 64-bit atomic cells of which one is stamped "
                      "with the clock, two u64 lines of which the capacity is computed from the warning line, one f64 copied from rule.threshold "
                      "and one other f64 (slope)" % found, entry.loc(), config=cfg)
        return None
    return ro


def _named_root(b, op):
    """the user-named local an operand is a plain copy of (set of one local id), or the empty set"""
    for _ in range(4):
        pl = op_place(op)
        if pl is None or pl["p"]:
            return set()
        if b.vname(pl["l"]):
            return {pl["l"]}
        ds = [d for d in b.defs().get(pl["l"], []) if d[0] == "assign"]
        if len(ds) != 1 or ds[0][3]["rv"]["k"] != "use":
            return set()
        op = ds[0][3]["rv"]["op"]
    return set()


def F(ro, role):
    return "field:%s.%s" % (ro["type"], ro[role])


# --------------------------------------------------------------------------------------------------------------------------------
def construct(ctx, f, cfg, ro):
    ctor, corig = ro["ctor"], ro["corig"]
    # cold start
    for role in ("balance", "stamp"):
        a = corig[ro[role]]
        ok = "const:0" in a and not any(x.startswith(("field:", "param:", "call:core", "call:utils")) for x in a)
        ctx.instance("C08.construct/cold-start", "%s.%s" % (ro["type"].rsplit("::", 1)[-1], ro[role]), sorted(short(x) for x in a if x.startswith(("const:", "field:", "param:")))[:5],
                     "initialised to 0", ok, cfg)
        if not ok:
            ctx.violation("C08.construct", "C08.construct|cold-start|" + role, "the calculator does not start cold: its %s cell is not initialised to 0 "
                          "(with balance 0 and stamp 0 the first refill fills the bucket to capacity)" % role, ctor.loc(), config=cfg)
    need = {
        "warning": ["field:Rule.warm_up_period_sec", "field:Rule.threshold", "field:Rule.warm_up_cold_factor"],
        "capacity": ["field:Rule.warm_up_period_sec", "field:Rule.threshold", "field:Rule.warm_up_cold_factor"],
        "slope": ["field:Rule.threshold", "field:Rule.warm_up_cold_factor", "field:Rule.warm_up_period_sec"],
    }
    for role, pats in need.items():
        a = corig[ro[role]]
        if role == "capacity":
            # what the capacity adds on top of the warning line: slice again, stopping at the named local(s) of the warning line
            stop = _named_root(ctor, ro["agg"]["ops"][ro["agg"]["fields"].index(ro["warning"])])
            a = set()
            op = ro["agg"]["ops"][ro["agg"]["fields"].index(ro["capacity"])]
            csl2 = Slicer(f, ctor)
            csl2._operand(op, a, set(stop))
        missing = [p for p in pats if not any_atom(a, p)]
        ctx.instance("C08.construct/inputs", "%s (%s)" % (role, ro[role]), sorted(short(x) for x in a if x.startswith("field:")), pats, not missing, cfg)
        if missing:
            ctx.violation("C08.construct", "C08.construct|inputs|%s|%s" % (role, ",".join(m.rsplit(".", 1)[-1] for m in missing)),
                          "the %s of the warm-up bucket%s does not depend on %s" % (role, " (the part above the warning line)" if role == "capacity" else "", missing), ctor.loc(), config=cfg)
    # slope depends on both lines
    a = corig[ro["slope"]]
    lw, lc = ro["lids"]
    uses_w = bool(lw) and lw <= a
    uses_c = bool(lc - lw) and (lc - lw) <= a
    oks = uses_w and uses_c
    ctx.instance("C08.construct/slope-lines", ro["slope"], {"uses_warning_line": uses_w, "uses_capacity": uses_c}, "slope = f(capacity - warning line)", oks, cfg)
    if not oks:
        ctx.violation("C08.construct", "C08.construct|slope-lines", "the slope is not computed from the capacity and the warning line (the allowance at capacity would not be threshold/coldFactor)",
                      ctor.loc(), config=cfg)
    # threshold copied
    a = corig[ro["threshold"]]
    okt = any_atom(a, "field:Rule.threshold") and not any(x.startswith("op:") for x in a)
    ctx.instance("C08.construct/threshold", ro["threshold"], sorted(short(x) for x in a if x.startswith(("field:", "op:"))), "rule.threshold unchanged", okt, cfg)
    if not okt:
        ctx.violation("C08.construct", "C08.construct|threshold", "the calculator's threshold is not the rule's threshold", ctor.loc(), config=cfg)
    # cold factor <= 1 is replaced before it is used as a divisor: every path to the aggregate on which the rule's factor is used unchanged has factor > 1
    cls = make_classifier([("cold", ["field:Rule.warm_up_cold_factor"], ["field:Rule.threshold"])])
    w = D.Walker(f, ctor, cls)
    aggbb = [bi for bi, blk in enumerate(ctor.blocks) for s in blk["stmts"] if s["k"] == "assign" and s["rv"] is ro["agg"]]
    paths = w.walk(0, lambda bb, env: ("built",) if bb in aggbb else None)
    # blocks that overwrite the local holding the factor with a constant
    cl = None
    for bi, blk in enumerate(ctor.blocks):
        for s in blk["stmts"]:
            if s["k"] == "assign" and not s["lhs"]["p"] and s["rv"]["k"] == "use":
                pl = op_place(s["rv"]["op"])
                if pl and any(x.endswith("Rule.warm_up_cold_factor") for x in field_names(pl)):
                    cl = s["lhs"]["l"]
    repl = set()
    if cl is not None:
        for bi, blk in enumerate(ctor.blocks):
            for s in blk["stmts"]:
                if s["k"] == "assign" and not s["lhs"]["p"] and s["lhs"]["l"] == cl and s["rv"]["k"] == "use" and s["rv"]["op"].get("k") == "const":
                    repl.add(bi)

    def outcome(p, asg):
        return "replaced" if any(x in repl for x in p["blocks"]) else "kept"

    def expected(asg):
        r = D.rel_of(asg, "cold", "const:1")
        if r is None:
            return None
        # factor == 1 is refused by is_valid and never reaches a generator: unconstrained
        return {"<": "replaced", ">": "kept", "=": None}[r]
    n, ncon, mism = run_table(ctx, "C08.construct/cold-factor", ctor.path, cfg, [p for p in paths if p["outcome"][0] == "built"], outcome, expected)
    okc = not mism and ncon > 0
    ctx.instance("C08.construct/cold-factor", ctor.path, {"rows": n, "constrained": ncon, "mismatches": mism[:3]}, "cold factor < 1 -> default; > 1 -> the rule's (== 1 is refused by is_valid)", okc, cfg)
    if not okc:
        ctx.violation("C08.construct", "C08.construct|cold-factor", "a cold factor <= 1 reaches the divisions of the constructor (factor - 1 = 0), or a valid factor is replaced: %s" % (mism[:2],),
                      ctor.loc(), config=cfg)


# --------------------------------------------------------------------------------------------------------------------------------
def _last_def_of_ret(b, sl, blocks):
    """origin atoms of the value assigned to _0 last on the given block path"""
    tgt = 0       # the local whose last definition on the path is looked for; a plain move (`_0 = move _7`, the return of an
    #               inlined helper) hands the search on to the source local
    for bi in reversed(blocks):
        blk = b.blocks[bi]
        t = blk["term"]
        if t and t["k"] == "call" and not t["dest"]["p"] and t["dest"]["l"] == tgt and bi != blocks[-1]:
            a = {"call:" + callee_def(t)}
            for x in t["args"]:
                a |= sl.of_operand(x)
            return a
        for s in reversed(blk["stmts"]):
            if s["k"] == "assign" and s["lhs"]["l"] == tgt and not s["lhs"]["p"]:
                rv = s["rv"]
                if rv["k"] == "use" and rv["op"].get("pl") is not None and not rv["op"]["pl"]["p"]:
                    tgt = rv["op"]["pl"]["l"]
                    continue
                at = set()
                sl._rvalue(rv, at, set())
                return at
    return set()


def allowance(ctx, f, cfg, ro):
    # the allowance method with its pure helpers inlined (a `threshold_for(balance)` helper is part of the formula); the helpers
    # that write a cell - the refill/drain step - stay calls: they are the anchors of refresh-first and are judged by sync()
    writers = [nb.path for nb in ro["bodies"] if nb.path != ro["entry"].path and _writes_cell(f, nb, ro, set())]
    b = f.view(ro["entry"], keep=writers)
    ty = ro["type"]
    sl = Slicer(f, b)
    cls = make_classifier([("balance", ["call:load", F(ro, "balance")], []), ("warning", [F(ro, "warning")], [F(ro, "balance")])])
    w = D.Walker(f, b, cls)
    paths = w.walk(0, lambda bb, env: None)

    def outcome(p, asg):
        a = _last_def_of_ret(b, sl, p["blocks"])
        fl = set(_fld(a, ty))
        if fl == {ro["threshold"]} and not any(x.startswith("op:") for x in a):
            return "threshold"
        if {ro["balance"], ro["warning"], ro["slope"], ro["threshold"]} <= fl:
            return "ramp(balance,warning,slope,threshold)"
        return "other:" + ",".join(sorted(fl))

    def expected(asg):
        r = D.rel_of(asg, "balance", "warning")
        if r is None:
            return None
        if r == "<":
            return "threshold"
        if r == ">":
            return "ramp(balance,warning,slope,threshold)"
        return None
    n, ncon, mism = run_table(ctx, "C08.allowance", b.path, cfg, [p for p in paths if p["outcome"][0] == "return"], outcome, expected)
    ok = not mism and ncon >= 2
    ctx.instance("C08.allowance/table", b.path, {"rows": n, "constrained": ncon, "mismatches": mism[:3]},
                 "balance < warning line -> threshold; balance > warning line -> f(balance, warning line, slope, threshold)", ok, cfg)
    if not ok:
        ctx.violation("C08.allowance", "C08.allowance|table", "the allowance is not `threshold below the warning line, ramp above it`: %s" % (mism[:2] or "comparison of the balance with the warning line not found"),
                      b.loc(), config=cfg)
    # the balance that is compared is read after the refill/drain step, on every path
    sync_calls = []
    for bb, t in b.calls():
        tg = [x for x in f.call_targets(b, t) if x in {nb.path for nb in ro["bodies"]} and x != b.path]
        if tg and _writes_cell(f, f.bodies[tg[0]], ro, set()):
            sync_calls.append((bb, t))
    inline_writes = [bb for bb, t in b.calls() if atomic_op(t) in ("store", "compare_exchange", "compare_exchange_weak", "fetch_sub", "fetch_add", "fetch_update", "swap")]
    loads = [bb for bb, t in b.calls() if atomic_op(t) == "load" and ro["balance"] in _fld(sl.of_operand(t["args"][0]), ty)]
    through = [bb for bb, _ in sync_calls] + inline_writes
    wp = must_pass(b, [0], loads, through) if loads else [0]
    oks = bool(loads) and bool(through) and wp is None
    ctx.instance("C08.allowance/refresh-first", b.path, {"refresh_sites": len(through), "balance_reads": len(loads), "path_without_refresh": fmt_path(b, wp) if wp else None},
                 "the balance is read only after the refill/drain step", oks, cfg)
    if not oks:
        ctx.violation("C08.allowance", "C08.allowance|refresh-first", "the allowance is computed from a balance that was not refreshed first (no cooling when idle, no draining under load)",
                      b.loc(), config=cfg)
    # the step is fed with qps_previous(Pass) of the owner's read-only metric
    okq = False
    found = {}
    for bb, t in sync_calls:
        for a in t["args"][1:]:
            at = sl.of_operand(a)
            if any_atom(at, "call:ReadStat::qps_previous"):
                found = {"event": sorted(x.rsplit("::", 1)[-1] for x in at if x.startswith("variant:") and "MetricEvent" in x),
                         "metric": sorted(short(x) for x in at if x.startswith("call:core") and "qps_previous" not in x)}
                okq = found["event"] == ["Pass"] and any_atom(at, "call:Controller::stat") and any_atom(at, "call:StandaloneStat::read_only_metric") and any_atom(at, "call:upgrade")
    if not sync_calls:
        for bb, t in b.calls():
            if callee_is(t, "ReadStat::qps_previous"):
                at = sl.of_operand(t["args"][0]) | sl.of_operand(t["args"][1])
                found = {"event": sorted(x.rsplit("::", 1)[-1] for x in at if x.startswith("variant:") and "MetricEvent" in x), "metric": sorted(short(x) for x in at if x.startswith("call:core"))}
                okq = found["event"] == ["Pass"] and any_atom(at, "call:Controller::stat") and any_atom(at, "call:StandaloneStat::read_only_metric")
    ctx.instance("C08.allowance/rate-source", b.path, found, "qps_previous(Pass) of owner.stat().read_only_metric()", okq, cfg)
    if not okq:
        ctx.violation("C08.allowance", "C08.allowance|rate-source", "the refill/drain step is not fed with the previous second's Pass rate of the controller's own read metric: %s" % found,
                      b.loc(), config=cfg)


def _writes_cell(f, b, ro, seen):
    if b.path in seen:
        return False
    seen.add(b.path)
    for bb, t in b.calls():
        if atomic_op(t) and atomic_op(t) != "load":
            return True
        for tg in f.call_targets(b, t):
            nb = f.bodies.get(tg)
            if nb is not None and nb.impl_self == ro["type"] and _writes_cell(f, nb, ro, seen):
                return True
    return False


# --------------------------------------------------------------------------------------------------------------------------------
def _sync_body(f, ro):
    """the body that writes the balance cell (CAS / store / fetch_*); failing that, the one that stores the stamp"""
    for role, ops in (("balance", ("compare_exchange", "compare_exchange_weak", "fetch_sub", "fetch_update", "swap", "store")), ("stamp", ("store",))):
        for b in ro["bodies"]:
            sl = Slicer(f, b)
            for bb, t in b.calls():
                if atomic_op(t) in ops and ro[role] in _fld(sl.of_operand(t["args"][0]), ro["type"]):
                    return b
    return None


def sync(ctx, f, cfg, ro):
    b = _sync_body(f, ro)
    if not ctx.floor("C08.sync", "body that advances the refill stamp", 1 if b else 0, 1, public_anchor=False):
        return
    ty = ro["type"]
    sl = Slicer(f, b)
    cls = make_classifier([
        ("now", ["call:curr_time_millis"], [F(ro, "stamp")]),
        ("stamp", ["call:load", F(ro, "stamp")], ["call:curr_time_millis"]),
        ("drained", ["call:fetch_sub"], []),
    ])
    writes = {bb for bb, t in b.calls() if atomic_op(t) and atomic_op(t) != "load"}
    own = {nb.path for nb in ro["bodies"]}

    def oname(t, atoms):
        n = callee_def(t).rsplit("::", 1)[-1]
        if n in ("is_ok", "is_err") and (any_atom(atoms, "call:compare_exchange") or any(x.endswith(("compare_exchange", "compare_exchange_weak")) for x in atoms)):
            return "cas." + n
        return "call:" + n
    w = D.Walker(f, b, cls, opaque_name=oname)
    paths = [p for p in w.walk(0, lambda bb, env: None) if p["outcome"][0] == "return"]

    def outcome(p, asg):
        return "touched" if any(x in writes for x in p["blocks"]) else "untouched"

    def expected(asg):
        r = D.rel_of(asg, "now", "stamp")
        if r is None:
            return None
        return {"<": "untouched", ">": "touched", "=": None}[r]
    n, ncon, mism = run_table(ctx, "C08.sync/gate", b.path, cfg, paths, outcome, expected)
    ok = not mism and ncon >= 2
    ctx.instance("C08.sync/gate", b.path, {"rows": n, "constrained": ncon, "mismatches": mism[:3]}, "now < stamp -> nothing happens; now > stamp -> the balance is refreshed (equality unconstrained)", ok, cfg)
    if not ok:
        ctx.violation("C08.sync", "C08.sync|gate", "the refill/drain step is not gated by `now <= stamp -> return`: %s" % (mism[:2] or "comparison of the clock with the stamp not found"), b.loc(), config=cfg)
    # sites
    cas = [(bb, t) for bb, t in b.calls() if atomic_op(t) in ("compare_exchange", "compare_exchange_weak") and ro["balance"] in _fld(sl.of_operand(t["args"][0]), ty)]
    st_stamp = [(bb, t) for bb, t in b.calls() if atomic_op(t) == "store" and ro["stamp"] in _fld(sl.of_operand(t["args"][0]), ty)]
    drain = [(bb, t) for bb, t in b.calls() if atomic_op(t) in ("fetch_sub", "fetch_update") and ro["balance"] in _fld(sl.of_operand(t["args"][0]), ty)]
    clamp = [(bb, t) for bb, t in b.calls() if atomic_op(t) == "store" and ro["balance"] in _fld(sl.of_operand(t["args"][0]), ty) and const_val(t["args"][1]) == 0]
    okc = False
    det = {"cas_sites": len(cas), "stamp_stores": len(st_stamp), "drain_sites": len(drain), "clamp_sites": len(clamp)}
    if len(cas) == 1:
        t = cas[0][1]
        exp_a, new_a = sl.of_operand(t["args"][1]), sl.of_operand(t["args"][2])
        cool = [x for x in new_a if x.startswith("call:") and x[5:] in own]
        inline_cool = "op:Add" in new_a and any_atom(new_a, F(ro, "threshold"))
        det["cas_expected_is_loaded_balance"] = any_atom(exp_a, "call:load") and ro["balance"] in _fld(exp_a, ty)
        det["cas_new_is_cooled_balance"] = bool(cool) or inline_cool
        det["cool_args"] = sorted(short(x) for x in new_a if x.startswith(("param:", "call:utils")))
        okc = det["cas_expected_is_loaded_balance"] and det["cas_new_is_cooled_balance"] and any_atom(new_a, "call:curr_time_millis") and any(x.startswith("param:") for x in new_a)
    ctx.instance("C08.sync/cas", b.path, det, "one CAS: balance(old) -> cool_down(now, rate)", okc, cfg)
    if not okc:
        ctx.violation("C08.sync", "C08.sync|cas", "the cooled-down balance is not installed by one compare-and-swap from the balance read before: %s" % det, b.loc(), config=cfg)
    # on the CAS-success edge: drain with the rate, clamp, stamp := now
    rate_params = [x for x in (sl.of_operand(cas[0][1]["args"][2]) if cas else set()) if x.startswith("param:") and x != "param:self"]
    def _cas_won(p):
        if ("opaque", "cas.is_ok") in p["lits"] or ("not", ("opaque", "cas.is_err")) in p["lits"]:
            return True
        if ("opaque", "cas.is_err") in p["lits"] or ("not", ("opaque", "cas.is_ok")) in p["lits"]:
            return False
        return None
    succ_paths = [p for p in paths if any(bb in p["blocks"] for bb, _ in cas) and _cas_won(p) is True]
    fail_paths = [p for p in paths if any(bb in p["blocks"] for bb, _ in cas) and _cas_won(p) is False]
    stamp_bbs = {bb for bb, t in st_stamp}
    drain_bbs = {bb for bb, t in drain}
    stamp_ok = bool(st_stamp) and all(any_atom(sl.of_operand(t["args"][1]), "call:curr_time_millis") and not _fld(sl.of_operand(t["args"][1]), ty) for bb, t in st_stamp)
    drain_ok = bool(drain) and all(any(x in rate_params for x in sl.of_operand(t["args"][1])) or atomic_op(t) == "fetch_update" for bb, t in drain)
    all_stamp = bool(succ_paths) and all(any(x in stamp_bbs for x in p["blocks"]) for p in succ_paths)
    all_drain = bool(succ_paths) and all(any(x in drain_bbs for x in p["blocks"]) for p in succ_paths)
    okp = stamp_ok and drain_ok and all_stamp and all_drain
    ctx.instance("C08.sync/success-edge", b.path, {"success_paths": len(succ_paths), "all_advance_stamp": all_stamp, "stamp_value_is_tested_now": stamp_ok,
                                                   "all_drain": all_drain, "drain_amount_is_rate": drain_ok, "failure_paths": len(fail_paths)},
                 "CAS ok -> balance -= rate; stamp := now", okp, cfg)
    if not (stamp_ok and all_stamp):
        ctx.violation("C08.sync", "C08.sync|stamp", "after a successful refresh the stamp is not advanced to the `now` that was tested (the next call would refill the same interval again, "
                      "or never again)", b.loc(), config=cfg)
    if not (drain_ok and all_drain):
        ctx.violation("C08.sync", "C08.sync|drain", "after a successful refresh the observed rate is not drained from the balance (the bucket would never leave the cold zone under load)", b.loc(), config=cfg)
    # clamp: a fetch_sub that wrapped is reset to 0
    if any(atomic_op(t) == "fetch_sub" for bb, t in drain):
        clamp_bbs = {bb for bb, t in clamp}

        def outcome2(p, asg):
            return "clamped" if any(x in clamp_bbs for x in p["blocks"]) else "kept"

        def rate_role(asg):
            for (a_, b_), r in asg["pairs"].items():
                if a_ == "drained" and b_ != "drained":
                    return r
                if b_ == "drained" and a_ != "drained":
                    return {"<": ">", ">": "<", "=": "="}[r]
            return None

        def expected2(asg):
            r = rate_role(asg)
            if r is None:
                return None
            return {"<": "clamped", ">": "kept", "=": None}[r]
        n2, ncon2, mism2 = run_table(ctx, "C08.sync/clamp", b.path, cfg, succ_paths, outcome2, expected2)
        ok2 = not mism2 and ncon2 >= 2
        ctx.instance("C08.sync/clamp", b.path, {"rows": n2, "constrained": ncon2, "mismatches": mism2[:3]}, "previous balance < drained amount -> balance := 0", ok2, cfg)
        if not ok2:
            ctx.violation("C08.sync", "C08.sync|clamp", "a drain that exceeds the balance is not clamped to 0 (the wrapped balance is far above capacity: allowance near 0): %s" % (mism2[:2] or "no test of the previous balance against the drained amount",),
                          b.loc(), config=cfg)


# --------------------------------------------------------------------------------------------------------------------------------
def _cool_body(f, ro):
    for b in ro["bodies"]:
        sl = Slicer(f, b)
        for bi, blk in enumerate(b.blocks):
            if blk.get("cleanup"):
                continue
            for s in blk["stmts"]:
                if s["k"] == "assign" and s["rv"]["k"] == "bin" and s["rv"]["op"].startswith("Add"):
                    a = set()
                    sl._rvalue(s["rv"], a, set())
                    if ro["balance"] in _fld(a, ro["type"]) and ro["threshold"] in _fld(a, ro["type"]) and "op:Mul" in a and \
                            (ro["stamp"] in _fld(a, ro["type"]) or s["rv"]["op"] == "AddWithOverflow") and ro["slope"] not in _fld(a, ro["type"]):
                        return b, bi, a
    return None, None, None


def cooldown(ctx, f, cfg, ro):
    b, addbb, add_atoms = _cool_body(f, ro)
    if not ctx.floor("C08.cooldown", "body that adds the refill to the balance", 1 if b else 0, 1, public_anchor=False):
        return
    ty = ro["type"]
    sl = Slicer(f, b)
    cls = make_classifier([
        ("balance", ["call:load", F(ro, "balance")], [F(ro, "threshold"), F(ro, "capacity")]),
        ("warning", [F(ro, "warning")], [F(ro, "balance")]),
        ("cold-rate", [F(ro, "threshold"), F(ro, "cold"), "op:Div"], [F(ro, "balance")]),
        ("capacity", [F(ro, "capacity")], [F(ro, "balance")]),
    ])

    def cls2(atoms, op=None):
        # the observed rate: a parameter of the helper and nothing else (no field, call or constant on the way)
        if any(x.startswith("param:") and x != "param:self" for x in atoms) and not any(x.startswith(("field:", "call:", "const:")) for x in atoms):
            return "rate"
        if any_atom(atoms, "call:ReadStat::qps_previous") and not _fld(atoms, ty)[:0] and ro["threshold"] not in _fld(atoms, ty) and ro["balance"] not in _fld(atoms, ty):
            return "rate"
        return cls(atoms, op)
    w = D.Walker(f, b, cls2)
    add_blocks = set()
    for bi, blk in enumerate(b.blocks):
        if blk.get("cleanup"):
            continue
        for s in blk["stmts"]:
            if s["k"] == "assign" and s["rv"]["k"] == "bin" and s["rv"]["op"].startswith("Add"):
                a = set()
                sl._rvalue(s["rv"], a, set())
                if ro["balance"] in _fld(a, ty) and ro["threshold"] in _fld(a, ty) and ro["slope"] not in _fld(a, ty):
                    add_blocks.add(bi)
    paths = [p for p in w.walk(0, lambda bb, env: None) if p["outcome"][0] == "return"]

    def outcome(p, asg):
        return "refill" if any(x in add_blocks for x in p["blocks"]) else "keep"

    def expected(asg):
        r1 = D.rel_of(asg, "balance", "warning")
        r2 = D.rel_of(asg, "rate", "cold-rate")
        if r1 is None or r2 is None:
            return None
        if r1 == "<" or r2 == "<":
            return "refill"
        if r1 == ">" and r2 == ">":
            return "keep"
        return None
    n, ncon, mism = run_table(ctx, "C08.cooldown/condition", b.path, cfg, paths, outcome, expected)
    ok = not mism and ncon >= 4
    ctx.instance("C08.cooldown/condition", b.path, {"rows": n, "constrained": ncon, "mismatches": mism[:3]},
                 "refill iff balance < warning line or rate < floor(threshold / cold factor) (equalities unconstrained)", ok, cfg)
    if not ok:
        ctx.violation("C08.cooldown", "C08.cooldown|condition", "the bucket is not refilled exactly when it is below the warning line or the observed rate is below threshold/coldFactor: %s"
                      % (mism[:2] or "the two comparisons were not found",), b.loc(), config=cfg)
    # refill amount: (now - stamp) * threshold / 1000
    need = {"now": lambda a: any(x.startswith("param:") and x != "param:self" for x in a) or any_atom(a, "call:curr_time_millis"),
            "stamp": lambda a: ro["stamp"] in _fld(a, ty), "threshold": lambda a: ro["threshold"] in _fld(a, ty),
            "elapsed = now - stamp": lambda a: "op:Sub" in a, "per-second scaling by 1000": lambda a: ("const:1000.0" in a or "const:1000" in a) and "op:Div" in a,
            "old balance": lambda a: ro["balance"] in _fld(a, ty)}
    # every refill site (there may be one per branch of the condition) has to be complete
    all_adds = []
    for bi in sorted(add_blocks):
        for s_ in b.blocks[bi]["stmts"]:
            if s_["k"] == "assign" and s_["rv"]["k"] == "bin" and s_["rv"]["op"].startswith("Add"):
                a_ = set()
                sl._rvalue(s_["rv"], a_, set())
                if ro["balance"] in _fld(a_, ty) and ro["threshold"] in _fld(a_, ty):
                    all_adds.append((bi, a_))
    missing = sorted({k for bi, a_ in all_adds for k, fn in need.items() if not fn(a_)} | {k for k, fn in need.items() if not fn(add_atoms)})
    for bi, a_ in all_adds:
        if any(not fn(a_) for fn in need.values()):
            addbb = bi
    extra_time = [x for x in add_atoms if x.startswith("const:") and x not in ("const:1000.0", "const:1000")]
    ctx.instance("C08.cooldown/refill-inputs", b.path, {"missing": missing, "other_constants": sorted(extra_time)}, sorted(need), not missing and not extra_time, cfg)
    if missing:
        ctx.violation("C08.cooldown", "C08.cooldown|refill-inputs|" + ",".join(missing), "the refill added to the balance lacks %s (expected old + (now - stamp) * threshold / 1000)" % missing, b.loc(addbb), config=cfg)
    elif extra_time:
        ctx.violation("C08.cooldown", "C08.cooldown|refill-scale|" + ",".join(sorted(extra_time)), "the refill is scaled by %s besides the ms->s constant 1000 (the bucket would cool at another pace than threshold tokens per second)" % sorted(extra_time),
                      b.loc(addbb), config=cfg)
    # cap at capacity on every path to the return
    mins = [bb for bb, t in b.calls() if callee_def(t).rsplit("::", 1)[-1] in ("min",) and any(ro["capacity"] in _fld(sl.of_operand(a), ty) for a in t["args"])
            and any(ro["balance"] in _fld(sl.of_operand(a), ty) for a in t["args"])]
    capped = False
    how = None
    if mins:
        wp = must_pass(b, [0], b.return_blocks(), mins)
        ret_a = sl.of_local(0)
        capped = wp is None and any(x.endswith("::min") for x in ret_a if x.startswith("call:"))
        how = "min(balance', capacity)"
    else:
        # comparison form: if new > capacity { capacity } else { new }
        def outcome3(p, asg):
            a = _last_def_of_ret(b, sl, p["blocks"])
            fl = set(_fld(a, ty))
            return "capacity" if fl == {ro["capacity"]} else "value"

        def expected3(asg):
            for (a_, b_), r in asg["pairs"].items():
                if b_ == "capacity" and a_ not in ("warning", "cold-rate", "rate"):
                    return {"<": "value", ">": "capacity", "=": None}[r]
                if a_ == "capacity" and b_ not in ("warning", "cold-rate", "rate"):
                    return {">": "value", "<": "capacity", "=": None}[r]
            return None
        n3, nc3, mm3 = run_table(ctx, "C08.cooldown/cap", b.path, cfg, paths, outcome3, expected3)
        capped = not mm3 and nc3 >= 2
        how = "comparison with the capacity (%d rows, %d mismatches)" % (n3, len(mm3))
    ctx.instance("C08.cooldown/cap", b.path, how, "the new balance never exceeds the capacity", capped, cfg)
    if not capped:
        ctx.violation("C08.cooldown", "C08.cooldown|cap", "the refreshed balance is not capped at the bucket capacity on every path (after a long idle period the allowance would fall "
                      "far below threshold/coldFactor)", b.loc(), config=cfg)


# --------------------------------------------------------------------------------------------------------------------------------
def valid(ctx, f, cfg):
    cands = [b for b in f.impl_methods("SentinelRule", "is_valid") if (b.impl_self or "").endswith("flow::rule::Rule")]
    if not ctx.floor("C08.valid", "impl SentinelRule::is_valid for flow::Rule", len(cands), 1):
        return
    b = f.view(cands[0])
    cls = make_classifier([("calc", ["field:Rule.calculate_strategy"], []), ("WarmUp", ["variant:CalculateStrategy::WarmUp"], []),
                           ("period", ["field:Rule.warm_up_period_sec"], [])])
    w = D.Walker(f, b, cls, max_paths=60000)
    errs = set()
    for bi, blk in enumerate(b.blocks):
        if blk.get("cleanup"):
            continue
        for s in blk["stmts"]:
            if s["k"] == "assign" and s["lhs"]["l"] == 0 and s["rv"]["k"] == "agg" and s["rv"].get("variant") == "Err":
                errs.add(bi)
        t_ = blk["term"]
        if t_ and t_["k"] == "call" and callee_def(t_).endswith("from_residual") and t_["dest"]["l"] == 0 and not t_["dest"]["p"]:
            errs.add(bi)        # `sub_check()?`: the error of a helper is handed on
    paths = [p for p in w.walk(0, lambda bb, env: ("err",) if bb in errs else None) if p["outcome"][0] in ("err", "return")]

    def outcome(p, asg):
        return "refused" if p["outcome"][0] == "err" else "accepted"

    def expected(asg):
        r1 = D.rel_of(asg, "calc", "WarmUp")
        r2 = D.rel_of(asg, "period", "const:0")
        if r1 == "=" and r2 == "=":
            return "refused"
        return None
    try:
        rows, atoms = D.table(paths, outcome)
    except OverflowError as e:
        # the validator has many independent clauses: project on the two atoms of this clause
        rows = None
    mism = []
    ncon = 0
    if rows is None:
        # projection: every path whose literals are consistent with calc == WarmUp and period == 0 and that is accepted is a counterexample,
        # unless it contradicts one of the two facts
        for p in paths:
            lits = p["lits"]
            contra = False
            for l in lits:
                for pos, e in ((True, l), (False, l[1]) if l[0] == "not" else (True, l)):
                    pass
            asg_pairs = {}
            ok_path = True
            for l in lits:
                e, pos = (l[1], False) if l[0] == "not" else (l, True)
                if e[0] == "cmp":
                    pair = (e[2], e[3])
                    if set(pair) == {"calc", "WarmUp"} or set(pair) == {"const:0", "period"}:
                        holds_under_eq = {"==": True, "!=": False, "<": False, ">": False, "<=": True, ">=": True}[e[1]]
                        if holds_under_eq != pos:
                            ok_path = False
            if ok_path:
                ncon += 1
                if p["outcome"][0] != "err":
                    mism.append(("calc == WarmUp, period == 0", ["accepted"], "refused"))
            # paths that end in another Err before reaching the clause are fine (refused)
    else:
        for asg, outs in rows:
            if not outs:
                continue
            exp = expected(asg)
            if exp is None:
                continue
            ncon += 1
            if outs != {exp}:
                mism.append((D.fmt_asg(asg), sorted(outs), exp))
    ok = not mism and ncon > 0
    ctx.instance("C08.valid", b.path, {"constrained": ncon, "mismatches": mism[:3]}, "WarmUp with warm_up_period_sec == 0 is refused", ok, cfg)
    if not ok:
        ctx.violation("C08.valid", "C08.valid|period-zero", "a WarmUp rule with warm_up_period_sec == 0 is accepted (capacity = warning line = 0, slope divides by zero, the allowance is NaN and "
                      "every request passes)", b.loc(), config=cfg)
