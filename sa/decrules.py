"""Shared helpers for decision-table rule instances (A6) and blocked-site constant checks."""
from .core import *
from . import decision as D


def short(atom):
    kind, _, rest = atom.partition(":")
    segs = rest.split("::")
    return kind + ":" + "::".join(segs[-2:]) if len(segs) > 2 else atom


def make_classifier(roles):
    """roles: list of (name, all_of patterns, none_of patterns)."""
    def classify(atoms, op=None):
        for name, all_of, none_of in roles:
            if atoms_have(atoms, *all_of) and not any(any_atom(atoms, p) for p in none_of):
                return name
        keep = sorted(short(a) for a in atoms if a.split(":", 1)[0] in ("field", "call", "param", "variant", "const", "static", "item", "upvar"))
        # drop ubiquitous transparent wrappers so the role name stays readable and stable
        keep = [a for a in keep if not a.endswith(("Deref::deref", "Option::<T>::unwrap", "Clone::clone", "Result::<T, E>::unwrap"))]
        return "other:" + ",".join(keep[:8])
    return classify


def run_table(ctx, rule, site, cfg, walker_paths, outcome_value, expected, fix_disc=None, describe=None, witness_body=None):
    """Compare extracted outcome with expected(asg) over all rows. expected -> outcome | None (don't care).
    Returns (n_rows, n_constrained, mismatches)."""
    try:
        rows, atoms = D.table(walker_paths, outcome_value, fix_disc=fix_disc)
    except OverflowError as e:
        ctx.violation(rule, "%s|%s|table-too-large" % (rule, site), str(e), config=cfg)
        return 0, 0, [("overflow", str(e))]
    mism = []
    n_con = 0
    for asg, outs in rows:
        if not outs:
            continue      # no feasible explored path (loop cut after one unrolled iteration / contradictory atoms)
        exp = expected(asg)
        if exp is None:
            continue
        n_con += 1
        if len(outs) != 1 or next(iter(outs)) != exp:
            mism.append((D.fmt_asg(asg), sorted(map(str, outs)), exp))
    return len(rows), n_con, mism


def blocked_sites(facts, body):
    """(bb, term, BlockType variant or None, with_cause) for each TokenResult::new_blocked* call."""
    out = []
    sl = Slicer(facts, body)
    for bb, t in body.calls():
        if callee_is(t, "TokenResult::new_blocked", "TokenResult::new_blocked_with_msg", "TokenResult::new_blocked_with_cause"):
            at = sl.of_operand(t["args"][0])
            vs = sorted(a.rsplit("::", 1)[1] for a in at if a.startswith("variant:") and "BlockType::" in a)
            out.append((bb, t, vs, callee_is(t, "TokenResult::new_blocked_with_cause")))
    return out


def check_block_constants(ctx, facts, body, rule, cfg, expect_type, rule_atoms, snapshot_atoms, family):
    """Each blocked site of `body`: block type constant, carries the rule and a snapshot."""
    sl = Slicer(facts, body)
    n = 0
    for bb, t, vs, cause in blocked_sites(facts, body):
        n += 1
        site = "%s@%s" % (body.path, callee_def(t).rsplit("::", 1)[1])
        ok = vs == [expect_type]
        ctx.instance(rule + "/block-type", site, vs, [expect_type], ok, cfg)
        if not ok:
            ctx.violation(rule, "%s|block-type|%s|%s" % (rule, family, ",".join(vs) or "?"),
                          "%s rejection is reported as BlockType::%s, expected BlockType::%s" % (family, ",".join(vs) or "?", expect_type),
                          body.loc(bb), config=cfg)
        if rule_atoms is not None:
            okc = cause
            ra = sl.of_operand(t["args"][2]) if cause and len(t["args"]) > 2 else set()
            sa_ = sl.of_operand(t["args"][3]) if cause and len(t["args"]) > 3 else set()
            okr = cause and any(any_atom(ra, p) for p in rule_atoms)
            oks = cause and any(any_atom(sa_, p) for p in snapshot_atoms)
            ctx.instance(rule + "/names-rule", site, {"with_cause": cause, "rule_from": sorted(short(a) for a in ra if not a.startswith(("call:std", "op:")))[:6],
                                                      "snapshot_from": sorted(short(a) for a in sa_ if not a.startswith(("call:std", "op:")))[:6]},
                         {"rule": rule_atoms, "snapshot": snapshot_atoms}, okr and oks, cfg)
            if not okr:
                ctx.violation(rule, "%s|names-rule|%s" % (rule, family),
                              "%s rejection does not carry the rule that triggered it" % family, body.loc(bb), config=cfg)
            if not oks:
                ctx.violation(rule, "%s|snapshot|%s" % (rule, family),
                              "%s rejection does not carry the observed value" % family, body.loc(bb), config=cfg)
    return n


def variant_is(asg, role, variants, name, const_roles=None):
    """Does the value with role `role` equal enum variant `name` under the assignment?  Understands both forms a test can take:
    a comparison with the variant constant (role pair `role` vs the constant's role, default the variant's name) and a match / matches!
    on the value's discriminant.  True / False / None (not determined by this row)."""
    cr = (const_roles or {}).get(name, name)
    r = D.rel_of(asg, role, cr)
    if r is not None:
        return r == "="
    # compared with ANOTHER variant constant and found equal -> not this one
    for other in variants:
        if other != name:
            r2 = D.rel_of(asg, role, (const_roles or {}).get(other, other))
            if r2 == "=":
                return False
            if r2 is not None and len(variants) == 2:
                return True
    d = asg["disc"].get(role)
    if d is None:
        return None
    if d == "other":
        return None
    return variants[d] == name if isinstance(d, int) and d < len(variants) else None


def variant_of(asg, role, variants):
    """Which variant does the value with role `role` have under the assignment?  From a match on its discriminant, or from equality
    tests against variant constants (roles named like the variants) by elimination.  None if undetermined or inconsistent."""
    d = asg["disc"].get(role)
    if isinstance(d, int) and d < len(variants):
        return variants[d]
    eq, ne = [], []
    for v in variants:
        r = D.rel_of(asg, role, v)
        if r is None:
            continue
        (eq if r == "=" else ne).append(v)
    if len(eq) == 1:
        return eq[0]
    if len(eq) > 1:
        return None
    rest = [v for v in variants if v not in ne]
    if len(rest) == 1 and ne:
        return rest[0]
    return None
