"""C02 — sliding-window statistics report exactly the events inside the window (structural part only).

Decided (DESIGN §3 C02): the second sentence of the statement plus necessary conditions of the first
  C02.construct      LeapArray / SlidingWindowMetric values are constructed only in their `new`, on the success edge of the validity test
                     (LeapArray: Ok iff sample_count != 0 && interval % sample_count == 0; SlidingWindowMetric: on the Continue edge of
                     check_validity_for_reuse_statistic(sample_count, interval_ms, inner.sample_count(), inner.interval_ms()))
  C02.reset-coverage MetricBucket::reset and the breaker Counter::reset store to every field; reset_bucket re-labels a slot AND resets its
                     value (otherwise counts older than the window would be reported under a new stamp)
  C02.expiry-filter  every reader that hands buckets of LeapArray.array to a statistic filters them: get_valid_values_conditional pushes iff
                     !is_deprecated(now, interval) && condition(stamp); valid_array iff !is_deprecated; get_bucket_value iff is_time_in_bucket;
                     is_deprecated == (now > start && now - start > interval); is_time_in_bucket == (start <= now && now < start + len)
  C02.window-gateway SlidingWindowMetric reads bucket values only through satisfied_buckets (predicate start <= stamp <= end from
                     bucket_start_range(now)) or get_valid_values_conditional with the caller's predicate; the range derives from
                     calculate_start_stamp(now), interval_ms and the array's bucket length
NOT decided: equality of sum/qps/avg/min with a direct computation for every (geometry, write time, read time).
"""
from .core import *
from . import decision as D
from .decrules import *

LEAP = "core::stat::base::leap_array::LeapArray"
SWM = "core::stat::base::sliding_window_metric::SlidingWindowMetric"


def run(ctx):
    ctx.explanation = (
        "Who-may-construct rule for LeapArray and SlidingWindowMetric with decision tables for the constructors' validity tests; "
        "field-coverage rule for the reset() implementations and pairing rule in reset_bucket; decision tables of the expiry filters and "
        "of the window predicate; gateway rule (every bucket-value read in SlidingWindowMetric flows from the filtered bucket lists).")
    ctx.not_decided = ("the first sentence proper: equality of sum / rate / average / minimum with a direct computation for every geometry, write "
                       "time and read time; the start-range arithmetic; behaviour at exact multiples. Numerical claims over runtime values are "
                       "outside what a sound static argument in reach can bound.")
    ctx.assumptions = ["external code cannot construct LeapArray / SlidingWindowMetric values (witnessed by compile_fail doctests in engine/witness, thorough tier)"]
    cfg = "core-default"
    f = ctx.facts(cfg)
    construct(ctx, f, cfg)
    reset_coverage(ctx, f, cfg)
    expiry(ctx, f, cfg)
    gateway(ctx, f, cfg)
    slot_decision(ctx, f, cfg)
    reuse_validator(ctx, f, cfg)
    array_readers(ctx, f, cfg)
    geometry_fields(ctx, f, cfg)
    rate_arithmetic(ctx, f, cfg)


def construct(ctx, f, cfg):
    for adt, want in ((LEAP, "LeapArray::<T>::new"), (SWM, "SlidingWindowMetric::new")):
        sites = []
        for p, b in f.bodies.items():
            for bi, blk in enumerate(b.blocks):
                if blk["cleanup"]:
                    continue
                for s in blk["stmts"]:
                    if s["k"] == "assign" and s["rv"]["k"] == "agg" and s["rv"].get("adt") == adt:
                        sites.append((b, bi))
        outside = [b.path for b, bi in sites if not b.path.endswith(want)]
        ctx.instance("C02.construct/who", adt, sorted({b.path for b, _ in sites}), "only %s" % want, not outside and bool(sites), cfg)
        for p in outside:
            ctx.violation("C02.construct", "C02.construct|outside|%s|%s" % (adt.rsplit("::", 1)[-1], p.replace("core::", "", 1)), "%s is constructed outside its validating constructor, in %s" % (adt, p), f.bodies[p].loc(), config=cfg)
        if not sites:
            ctx.violation("C02.construct", "C02.construct|no-site|" + adt.rsplit("::", 1)[-1], "no construction site of %s found" % adt, config=cfg)
    # LeapArray::new decision
    la = f.find("LeapArray::<T>::new")
    if la:
        b = la[0]
        roles = [("rem", ["op:Rem"], []), ("sample", ["param:sample_count"], ["op:Rem"]), ("interval", ["param:interval_ms"], ["op:Rem"])]
        w = D.Walker(f, b, make_classifier(roles), unroll=2)
        paths = [p for p in w.walk(0, lambda bb, env: None) if p["outcome"][0] == "return"]

        def outcome(p, asg):
            built = any(s["k"] == "assign" and s["rv"]["k"] == "agg" and s["rv"].get("adt") == LEAP for x in p["blocks"] for s in b.blocks[x]["stmts"])
            return "built" if built else "refused"

        def expected(asg):
            rs = D.rel_of(asg, "sample", "const:0")
            rr = D.rel_of(asg, "rem", "const:0")
            if rs is None:
                return None
            if rs == "=":
                return "refused"
            if rr is None:
                return None
            return "built" if rr == "=" else "refused"
        n, ncon, mism = run_table(ctx, "C02.construct/leap", b.path, cfg, paths, outcome, expected)
        ctx.instance("C02.construct/leap", b.path, {"rows": n, "constrained": ncon, "mismatches": mism[:3]}, "built iff sample_count != 0 && interval % sample_count == 0", not mism and ncon >= 4, cfg)
        if mism or ncon < 4:
            ctx.violation("C02.construct", "C02.construct|leap-test", "LeapArray::new does not refuse exactly the geometries it cannot serve: %s" % (mism[:1] or "test not found"), b.loc(), config=cfg)
    sw = f.one("SlidingWindowMetric::new")
    if sw is not None:
        sl = Slicer(f, sw)
        okd = False
        aggs = [bi for bi, blk in enumerate(sw.blocks) for s in blk["stmts"] if s["k"] == "assign" and s["rv"]["k"] == "agg" and s["rv"].get("adt") == SWM]
        okd = bool(aggs) and all(ok_edge_dominates(f, sw, ab, "call:check_validity_for_reuse_statistic", sl=sl) for ab in aggs)
        roles = []
        for bb, t in sw.calls():
            if callee_is(t, "check_validity_for_reuse_statistic"):
                for a in t["args"]:
                    at = sl.of_operand(a)
                    roles.append(sorted(x for x in at if x.startswith("param:") or x.endswith(("::sample_count", "::interval_ms"))))
        okr = len(roles) == 4 and "param:sample_count" in roles[0] and "param:interval_ms" in roles[1] and any(x.endswith("::sample_count") for x in roles[2]) and any(x.endswith("::interval_ms") for x in roles[3])
        ctx.instance("C02.construct/window", sw.path, {"dominated_by_validator_success": okd, "validator_args": roles}, "constructed only after check_validity_for_reuse_statistic(own geometry, array geometry)?", okd and okr, cfg)
        if not (okd and okr):
            ctx.violation("C02.construct", "C02.construct|window-test", "SlidingWindowMetric::new can build a window that does not tile the underlying array", sw.loc(), config=cfg)


def reset_coverage(ctx, f, cfg):
    n = 0
    for b in f.impl_methods("MetricTrait", "reset"):
        adt = f.adts.get(b.impl_self)
        if not adt:
            continue
        n += 1
        fields = [fl["name"] for fl in adt["variants"][0]["fields"]]
        sl = Slicer(f, b)
        stored = set()
        sites = {}
        for bb, t in b.calls():
            if atomic_op(t) == "store":
                a = sl.of_operand(t["args"][0])
                for fn in {x.rsplit(".", 1)[-1] for x in a if x.startswith("field:" + b.impl_self + ".")}:
                    stored.add(fn)
                    sites.setdefault(fn, set()).update(b.scc_of(bb))      # a store inside a loop: the loop itself is the site
        missing = [x for x in fields if x not in stored]
        # ... and on EVERY path: a reset that is skipped under some condition leaves the old counts in the recycled bucket
        conditional = []
        for fn in sorted(stored):
            w = must_pass(b, [0], b.return_blocks(), sorted(sites[fn]))
            if w is not None:
                conditional.append(fn)
        ctx.instance("C02.reset-coverage", b.path, {"fields": fields, "stored": sorted(stored), "stored_only_conditionally": conditional}, "every field is stored on every path", not missing and not conditional, cfg)
        if conditional:
            ctx.violation("C02.reset-coverage", "C02.reset-coverage|%s|conditional:%s" % (b.impl_self.rsplit("::", 1)[-1], ",".join(conditional)),
                          "%s::reset stores %s only under a condition: a recycled bucket can keep old counts under a new time stamp" % (b.impl_self, conditional), b.loc(), config=cfg)
        if missing:
            ctx.violation("C02.reset-coverage", "C02.reset-coverage|%s|%s" % (b.impl_self.rsplit("::", 1)[-1], ",".join(missing)),
                          "%s::reset leaves %s untouched: a recycled bucket reports old counts under a new time stamp" % (b.impl_self, missing), b.loc(), config=cfg)
    ctx.floor("C02.reset-coverage", "impls of MetricTrait::reset", n, 2)
    rb = f.find("LeapArray::<T>::reset_bucket")
    if rb:
        b = rb[0]
        sl = Slicer(f, b)
        calls = {}
        for bb, t in b.calls():
            nm = callee_def(t).rsplit("::", 1)[-1]
            if nm in ("reset_start_stamp", "reset_value"):
                a = sl.of_operand(t["args"][0])
                calls[nm] = ("param:idx" in a and any_atom(a, "field:LeapArray.array"))
        ok = calls.get("reset_start_stamp") and calls.get("reset_value")
        ctx.instance("C02.reset-coverage/relabel", b.path, calls, "array[idx] gets both a new stamp and a reset value", bool(ok), cfg)
        if not ok:
            ctx.violation("C02.reset-coverage", "C02.reset-coverage|relabel", "reset_bucket re-labels a slot without resetting its value (or not the same slot): %s" % calls, b.loc(), config=cfg)
    # the only other re-label (fresh bucket) is guarded by stamp == DEFAULT_TIME
    gb = f.find("LeapArray::<T>::get_bucket_of_time")
    if gb:
        b = gb[0]
        sl = Slicer(f, b)
        for bb, t in b.calls():
            if callee_def(t).rsplit("::", 1)[-1] == "reset_start_stamp":
                g = False
                for d in b.dominators()[bb]:
                    tt = b.term(d)
                    if tt and tt["k"] == "switch":
                        a = sl.of_operand(tt["op"])
                        if "op:Eq" in a and any_atom(a, "call:start_stamp") and (any(x.startswith("item:") and "DEFAULT_TIME" in x for x in a) or "const:0" in a):
                            te = bool_edge_targets(b, d)
                            if te and b.dominates(te[0], bb):
                                g = True
                ctx.instance("C02.reset-coverage/fresh", b.path, "stamp-only relabel guarded by stamp == DEFAULT_TIME (never-used bucket): %s" % g, "true", g, cfg)
                if not g:
                    ctx.violation("C02.reset-coverage", "C02.reset-coverage|fresh", "a bucket is given a new time stamp without resetting its value although it may have been used", b.loc(bb), config=cfg)



def reuse_validator(ctx, f, cfg, R="C02.construct/reuse-validator"):
    """check_validity_for_reuse_statistic answers Ok only when both geometries are valid on their own, the array's interval is a multiple
    of the window's interval and the window's bucket length is a multiple of the array's bucket length (the window tiles the array).
    Judged per feasible path: every Ok path carries `parent_interval % interval == 0` and `bucket_len % parent_bucket_len == 0`, with
    the operands in these roles."""
    from .rules_C19 import _implied_rel, _feasible, _returns_variant
    b = f.one("base::stat::check_validity_for_reuse_statistic")
    if not ctx.floor(R, "check_validity_for_reuse_statistic", 1 if b else 0, 1):
        return
    sl = Slicer(f, b)
    # operand roles of the two remainder operations
    rems = []
    for blk in b.blocks:
        for st in blk["stmts"]:
            if st["k"] == "assign" and st["rv"]["k"] == "bin" and st["rv"]["op"] in ("Rem", "RemWithOverflow"):
                a, c = sl.of_operand(st["rv"]["a"]), sl.of_operand(st["rv"]["b"])
                own = lambda x: "param:interval_ms" in x or "param:sample_count" in x
                par = lambda x: "param:parent_interval_ms" in x or "param:parent_sample_count" in x
                kind = "bucket" if ("op:Div" in a or "op:Div" in c) else "interval"
                good = (kind == "interval" and par(a) and not own(a) and own(c) and not par(c)) or \
                       (kind == "bucket" and own(a) and not par(a) and par(c) and not own(c))
                rems.append((kind, good))
    roles = [("rem_bucket", ["op:Rem", "op:Div"], []), ("rem_interval", ["op:Rem"], ["op:Div"])]
    w = D.Walker(f, b, make_classifier(roles), unroll=1)
    n_ok, bad = 0, []
    for pth in w.walk(0, lambda bb, env: None):
        if pth["outcome"][0] != "return" or not _feasible(pth) or not _returns_variant(b, pth, "Ok"):
            continue
        n_ok += 1
        ri = _implied_rel(pth["lits"], "rem_interval", "const:0")
        rb = _implied_rel(pth["lits"], "rem_bucket", "const:0")
        inner = sum(1 for x in pth["blocks"] for t in [b.term(x)] if t and t["k"] == "call" and callee_def(t).endswith("check_validity_for_statistic"))
        if ri != {"="} or rb != {"="} or inner < 2:
            bad.append({"parent_interval%interval": sorted(ri) if ri else "untested", "bucket%parent_bucket": sorted(rb) if rb else "untested", "own_validations": inner})
    ok = n_ok >= 1 and not bad and sorted(rems) == [("bucket", True), ("interval", True)]
    ctx.instance(R, b.path, {"ok_paths": n_ok, "ok_paths_missing_a_test": bad[:2], "remainders(kind, operands in role)": rems},
                 "Ok only if both geometries valid, parent_interval % interval == 0 and bucket_len % parent_bucket_len == 0", ok, cfg)
    if not ok:
        ctx.violation(R.split("/")[0], "%s|check_validity_for_reuse_statistic" % R, "a read window that does not tile the underlying array is accepted: %s" % (bad[:1] or rems), b.loc(), config=cfg)


def geometry_fields(ctx, f, cfg):
    """Each geometry field of LeapArray / SlidingWindowMetric is computed from the value's OWN constructor parameters:
    bucket_len_ms = interval_ms / sample_count (not the other array's bucket length), sample_count, interval_ms copied."""
    n = 0
    for adt, ctor in ((LEAP, "LeapArray::<T>::new"), (SWM, "SlidingWindowMetric::new")):
        bs = f.find(ctor)
        if not bs:
            continue
        b = bs[0]
        sl = Slicer(f, b)
        for blk in b.blocks:
            for st in blk["stmts"]:
                if st["k"] == "assign" and st["rv"]["k"] == "agg" and st["rv"].get("adt") == adt:
                    n += 1
                    bad = []
                    for nm, o in zip(st["rv"]["fields"], st["rv"]["ops"]):
                        at = sl.of_operand(o)
                        params = sorted(x[6:] for x in at if x.startswith("param:"))
                        calls = sorted(x for x in at if x.startswith("call:") and not x.endswith(("::branch", "from_residual")))
                        if nm == "bucket_len_ms":
                            good = set(params) == {"interval_ms", "sample_count"} and "op:Div" in at and not calls
                        elif nm in ("sample_count", "interval_ms"):
                            good = params == [nm] and not calls and not any(x.startswith("op:") for x in at)
                        else:
                            good = True
                        if not good:
                            bad.append("%s <- %s" % (nm, params + [short(c) for c in calls] + sorted(x for x in at if x.startswith("op:"))))
                    ctx.instance("C02.construct/fields", b.path, {"not_from_own_parameters": bad}, "bucket_len_ms = interval_ms / sample_count of this value; counts copied", not bad, cfg)
                    if bad:
                        ctx.violation("C02.construct", "C02.construct|fields|%s|%s" % (adt.rsplit("::", 1)[-1], ",".join(x.split(" ")[0] for x in bad)),
                                      "%s stores geometry that is not its own: %s" % (adt.rsplit("::", 1)[-1], bad), b.loc(), config=cfg)
    ctx.floor("C02.construct/fields", "geometry aggregates in the two constructors", n, 2)


def rate_arithmetic(ctx, f, cfg):
    """Per-second rates divide by the window length in seconds as a real number: no integer division whose truncated result is converted
    to f64 afterwards in the statistics readers."""
    from .lossy import int_div_sites
    bodies = [b for p, b in f.bodies.items() if (b.impl_self in (SWM, "core::stat::base::bucket_leap_array::BucketLeapArray") or ".::stat::" in p or "::stat::base::" in p or "::stat::resource_node::" in p) and "test" not in p]
    sites = []
    for b in bodies:
        for kind, bi, what in int_div_sites(f, b):
            if kind == "div-then-float":
                sites.append((b, bi, what))
    ctx.instance("C02.rate-arithmetic", "statistics readers", {"bodies": len(bodies), "lossy_sites": [x[0].path for x in sites]}, "no truncated division feeding a real-valued rate", not sites and len(bodies) >= 20, cfg)
    for b, bi, what in sites:
        ctx.violation("C02.rate-arithmetic", "C02.rate-arithmetic|%s" % b.path.replace("core::", "", 1), "%s: %s (a window that is not a whole number of seconds gets the wrong rate)" % (b.path, what), b.loc(bi), config=cfg)


# bodies allowed to touch LeapArray.array directly; each hands buckets out only through its own expiry / in-bucket test (the readers
# among them have a decision table in expiry() or are listed with the reason)
ARRAY_TOUCHERS = {
    "LeapArray::<T>::new": "builds the ring",
    "LeapArray::<T>::get_bucket_of_time": "write path (C02.slot-decision)",
    "LeapArray::<T>::reset_bucket": "roll-over (C02.reset-coverage/relabel)",
    "LeapArray::<T>::get_valid_values_conditional": "filtered reader (table)",
    "LeapArray::<T>::valid_array": "filtered reader (table)",
    "LeapArray::<T>::get_bucket_value": "filtered reader (table)",
    "LeapArray::<T>::get_previous_bucket": "returns a bucket only if it is not deprecated",
    "LeapArray::<T>::valid_head": "returns a bucket only if it is not deprecated",
    "<core::stat::base::leap_array::LeapArray<T> as std::fmt::Debug>::fmt": "debug printing",
}


def array_readers(ctx, f, cfg, R="C02.expiry-filter/who-reads-array"):
    """Nobody outside the listed LeapArray methods reads the ring itself: every other statistic (sliding windows, breaker counters,
    warm-up) goes through the filtered readers, so buckets older than the window are never summed."""
    touch = set()
    for p, b in f.bodies.items():
        for blk in b.blocks:
            if blk["cleanup"]:
                continue
            pls = []
            for st in blk["stmts"]:
                if st["k"] == "assign":
                    rv = st["rv"]
                    if "pl" in rv:
                        pls.append(rv["pl"])
                    for k in ("op", "a", "b"):
                        if isinstance(rv.get(k), dict) and rv[k].get("pl"):
                            pls.append(rv[k]["pl"])
                    pls.append(st["lhs"])
            t = blk["term"]
            if t and t["k"] == "call":
                pls += [a["pl"] for a in t["args"] if a.get("pl")]
            if any(pj.endswith("LeapArray.array") for pl in pls for pj in pl["p"]):
                touch.add(p)
    def listed(p):
        return any(p.endswith(k) or p == k for k in ARRAY_TOUCHERS)

    def only_from_listed(p, depth=0):
        """a private helper (or closure) that is used by listed readers only is part of them (it is inlined into their view)"""
        from . import inline
        b = f.bodies.get(p)
        if b is None or depth > 3:
            return False
        if b.kind == "Closure":
            return bool(b.root) and (listed(b.root) or only_from_listed(b.root, depth + 1))
        if not inline.default_policy(f, b, b):
            return False
        cs = {cb.path for cb, bb, t in f.callers_of(p)}
        cs = {(f.bodies[c].root or c) if f.bodies[c].kind == "Closure" else c for c in cs}
        return bool(cs) and all(listed(c) or only_from_listed(c, depth + 1) for c in cs)
    extra = sorted(p for p in touch if not listed(p) and "::test" not in p and not only_from_listed(p))
    ctx.instance(R, "LeapArray.array", {"bodies_touching_the_ring": len(touch), "outside_the_filtered_readers": extra}, "only the listed LeapArray methods", not extra and len(touch) >= 6, cfg)
    for p in extra:
        ctx.violation(R.split("/")[0], "%s|%s" % (R, p.replace("core::", "", 1)), "%s reads LeapArray.array directly, bypassing the expiry filter: buckets older than the window are reported" % p, f.bodies[p].loc(), config=cfg)


def slot_decision(ctx, f, cfg):
    """get_bucket_of_time, one attempt: a never-used slot is stamped and handed out; a slot of the requested bucket is handed out as it
    is; an older slot is recycled (reset + re-labelled) or retried; the request is refused only when the slot is NEWER than the requested
    bucket (time went backwards).  The decision must be a function of the order between the slot's stamp and the requested bucket
    start alone - any other test (e.g. the readers' strict expiry predicate) leaves orderings that are neither current nor recyclable
    and silently drops the event."""
    bs = f.find("LeapArray::<T>::get_bucket_of_time")
    if not ctx.floor("C02.slot-decision", "LeapArray::get_bucket_of_time", len(bs), 1):
        return
    b = bs[0]
    # the requested bucket's start = now - now % bucket_len, through a helper (any name) or inline
    # (the slot is selected by an index computed from `now`, so the stamp's slice also contains the index arithmetic: the stamp is what
    # came out of start_stamp(), the target is what did not)
    roles = [("stamp", ["call:BucketWrap::<T>::start_stamp"], ["call:calculate_start_stamp"]),
             ("target", ["call:calculate_start_stamp"], ["call:BucketWrap::<T>::start_stamp"]),
             ("target", ["param:now", "op:Rem", "op:Sub"], ["call:BucketWrap::<T>::start_stamp"])]

    def oname(t, atoms):
        n = callee_def(t).rsplit("::", 1)[-1]
        return n
    w = D.Walker(f, b, make_classifier(roles), opaque_name=oname)
    paths = w.walk(0, lambda bb, env: None)
    resets = set(call_or_inlined(b, "reset_bucket"))
    stamps = set(call_or_inlined(b, "reset_start_stamp"))
    yields = {bb for bb, t in b.calls() if callee_def(t).rsplit("::", 1)[-1] in ("yield_now",)}

    def outcome(p, asg):
        blocks = set(p["blocks"])
        if blocks & resets or blocks & yields:
            return "recycle-or-retry"
        if blocks & stamps:
            return "fresh"
        if p["outcome"][0] != "return":
            return "recycle-or-retry" if p["outcome"][0] in ("loop", "cut") else str(p["outcome"][0])
        is_err = any(st["k"] == "assign" and st["lhs"]["l"] == 0 and st["rv"]["k"] == "agg" and st["rv"].get("variant") == "Err" for x in p["blocks"] for st in b.blocks[x]["stmts"]) or \
            any(callee_def(t).endswith(("Error::msg", "anyhow::Error::msg", "::msg")) for x in p["blocks"] for t in [b.term(x)] if t and t["k"] == "call")
        return "refused" if is_err else "hit"

    def expected(asg):
        r0 = D.rel_of(asg, "stamp", "const:0")
        rt = D.rel_of(asg, "target", "stamp")
        if r0 is None or rt is None:
            return None
        if r0 == "=":
            return "fresh"
        return {"=": "hit", ">": "recycle-or-retry", "<": "refused"}[rt]
    n, ncon, mism = run_table(ctx, "C02.slot-decision", b.path, cfg, paths, outcome, expected)
    ok = not mism and ncon >= 4
    ctx.instance("C02.slot-decision", b.path, {"rows": n, "constrained": ncon, "mismatches": mism[:3]},
                 "never used -> stamp; stamp == bucket -> hit; stamp < bucket -> recycle/retry; stamp > bucket -> refuse", ok, cfg)
    if not ok:
        ctx.violation("C02.slot-decision", "C02.slot-decision|get_bucket_of_time", "the write path does not decide on the order of (slot stamp, requested bucket) alone: %s" % (mism[:2] or "comparisons not found (%d constrained rows)" % ncon), b.loc(), config=cfg)


def _bool_fn_table(ctx, f, b, rule, roles, expected, text, cfg, min_rows=3):
    w = D.Walker(f, b, make_classifier(roles))
    paths = w.walk(0, lambda bb, env: None)

    def outcome(p, asg):
        v = p["env"].get("_0")
        return "?" if v is None else str(D.ev(v, asg)).lower()
    n, ncon, mism = run_table(ctx, rule, b.path, cfg, paths, outcome, expected)
    ok = not mism and ncon >= min_rows
    ctx.instance(rule, b.path, {"rows": n, "constrained": ncon, "mismatches": mism[:3]}, text, ok, cfg)
    if not ok:
        ctx.violation(rule.split("/")[0], "%s|%s" % (rule, b.name), "%s differs from `%s`: %s" % (b.path, text, mism[:1] or "comparisons not found"), b.loc(), config=cfg)


def expiry(ctx, f, cfg):
    dep = f.find("BucketWrap::<T>::is_deprecated")
    if ctx.floor("C02.expiry-filter", "BucketWrap::is_deprecated", len(dep), 1):
        def exp(asg):
            r1 = D.rel_of(asg, "now", "start")
            r2 = D.rel_of(asg, "age", "interval")
            if r1 is None or r2 is None:
                return None
            if r1 == ">" and r2 == "=":
                return None      # a bucket exactly one interval old: the statement does not fix this boundary (exact multiples are not decided)
            return "true" if (r1 == ">" and r2 == ">") else "false"
        _bool_fn_table(ctx, f, dep[0], "C02.expiry-filter/is_deprecated",
                       [("age", ["param:now", "field:BucketWrap.start_stamp", "op:Sub"], []), ("start", ["field:BucketWrap.start_stamp"], ["param:now"]), ("now", ["param:now"], ["field:BucketWrap.start_stamp"]), ("interval", ["param:interval"], [])],
                       exp, "now > start && now - start > interval (equality unconstrained)", cfg, 8)
    tib = f.find("BucketWrap::<T>::is_time_in_bucket")
    if ctx.floor("C02.expiry-filter", "BucketWrap::is_time_in_bucket", len(tib), 1):
        def exp2(asg):
            r1 = D.rel_of(asg, "start", "now")
            r2 = D.rel_of(asg, "now", "end")
            if r1 is None or r2 is None:
                return None
            return "true" if (r1 in "<=" and r2 == "<") else "false"
        _bool_fn_table(ctx, f, tib[0], "C02.expiry-filter/is_time_in_bucket",
                       [("end", ["field:BucketWrap.start_stamp", "param:bucket_len_ms", "op:Add"], []), ("start", ["field:BucketWrap.start_stamp"], ["param:bucket_len_ms"]), ("now", ["param:now"], [])],
                       exp2, "start <= now && now < start + bucket_len", cfg, 9)
    # readers of LeapArray.array
    readers = {"get_valid_values_conditional": ("is_deprecated", True), "valid_array": ("is_deprecated", True), "get_bucket_value": ("is_time_in_bucket", False)}
    for name, (filt, negated) in readers.items():
        bs = f.find("LeapArray::<T>::" + name)
        if not ctx.floor("C02.expiry-filter", "LeapArray::" + name, len(bs), 1):
            continue
        b = bs[0]
        sl = Slicer(f, b)
        cls = make_classifier([("iter", ["call:Iterator::next"], [])])

        upmap = {}

        def oname(t, atoms, filt=filt):
            n = callee_def(t).rsplit("::", 1)[-1]
            if n == filt:
                # values captured by a predicate closure keep the origin they have in the enclosing method
                for a_ in list(atoms):
                    if a_.startswith("field:upvar."):
                        atoms = atoms | upmap.get(a_[len("field:upvar."):], set())
                own = any_atom(atoms, "field:LeapArray.interval_ms") or any_atom(atoms, "field:LeapArray.bucket_len_ms")
                return filt if own else filt + "(foreign interval)"
            if "indirect" in t["callee"] or n in ("call",):
                return "condition"
            return n
        w = D.Walker(f, b, cls, opaque_name=oname)
        pushes = {bb for bb, t in b.calls() if callee_def(t).rsplit("::", 1)[-1] == "push"}
        oks = set()
        for bi, blk in enumerate(b.blocks):
            for s in blk["stmts"]:
                if s["k"] == "assign" and s["lhs"]["l"] == 0 and not s["lhs"]["p"] and s["rv"]["k"] == "agg" and s["rv"].get("variant") == "Ok":
                    oks.add(bi)
        its = [bb for bb, t in b.calls() if callee_is(t, "Iterator::next")]
        chain = None
        if not pushes and not its:
            # iterator-chain form: self.array.iter().filter(<predicate>).cloned().collect(): the buckets handed out are those for which
            # the predicate closure returns true; the predicate is judged like the loop body of the explicit form
            rb = f.raw(b)
            for bb, t in rb.calls():
                if callee_def(t).endswith(("Iterator::filter", "iter::Iterator::filter")) and any_atom(Slicer(f, rb).of_operand(t["args"][0]), "field:LeapArray.array"):
                    for ds in t.get("arg_defs") or []:
                        for d in ds:
                            if d in f.bodies and f.bodies[d].kind == "Closure":
                                chain = f.view(f.bodies[d])
                                rsl = Slicer(f, rb)
                                for blk_ in rb.blocks:
                                    for s_ in blk_["stmts"]:
                                        if s_["k"] == "assign" and s_["rv"]["k"] == "agg" and s_["rv"].get("closure") == d:
                                            for nm_, o_ in zip(s_["rv"].get("fields", []), s_["rv"]["ops"]):
                                                upmap[nm_] = rsl.of_operand(o_)
            ret_a = Slicer(f, b).of_local(0)
            if chain is not None and not (any(x.endswith("Iterator::filter") for x in ret_a if x.startswith("call:")) and any_atom(ret_a, "field:LeapArray.array")):
                chain = None
        if chain is not None:
            w = D.Walker(f, chain, cls, opaque_name=oname)
            paths = [p_ for p_ in w.walk(0, lambda bb, env: None) if p_["outcome"][0] == "return"]
        elif its:
            start = b.term(its[0])["target"]
            paths = w.walk(start, lambda bb, env: ("iteration-done",) if bb == its[0] else None)
        else:
            paths = w.walk(0, lambda bb, env: None)

        def outcome(p, asg):
            if chain is not None:
                v = p["env"].get("_0")
                return "unknown" if v is None else ("handed-out" if D.ev(v, asg) else "withheld")
            return "handed-out" if any(x in pushes or x in oks for x in p["blocks"]) else "withheld"

        def expected(asg, filt=filt, negated=negated, name=name):
            if its and chain is None and asg["disc"].get("iter") != 1:
                return None
            v = asg["opaque"].get(filt)
            if v is None:
                return None
            keep = (not v) if negated else v
            if name == "get_valid_values_conditional":
                c = asg["opaque"].get("condition")
                if c is None:
                    # the indirect predicate call may carry another opaque name
                    cs = [k for k in asg["opaque"] if k not in (filt, "log_enabled")]
                    c = asg["opaque"][cs[0]] if len(cs) == 1 else None
                if c is None:
                    return None
                keep = keep and c
            return "handed-out" if keep else "withheld"
        n, ncon, mism = run_table(ctx, "C02.expiry-filter/" + name, b.path, cfg, paths, outcome, expected)
        ok = not mism and ncon >= 2
        ctx.instance("C02.expiry-filter/" + name, b.path, {"rows": n, "constrained": ncon, "mismatches": mism[:3]},
                     "bucket handed out iff %s%s(.., own geometry)%s" % ("!" if negated else "", filt, " && condition(stamp)" if name == "get_valid_values_conditional" else ""), ok, cfg)
        if not ok:
            ctx.violation("C02.expiry-filter", "C02.expiry-filter|" + name, "LeapArray::%s hands out buckets without the expiry / in-bucket filter on its own geometry: %s" % (name, mism[:1] or "filter not found"), b.loc(), config=cfg)


def gateway(ctx, f, cfg):
    # by role: the method(s) of SlidingWindowMetric that ask the underlying array for its buckets under a predicate (private names are
    # not anchors; in the view the range helper is inlined, whatever it is called)
    sats = [f.view(b) for p, b in f.bodies.items() if b.impl_self == SWM and b.kind == "AssocFn" and not b.pub
            and any(callee_def(t).rsplit("::", 1)[-1] == "get_valid_values_conditional" for _, t in b.calls())]
    if not sats:
        sats = [f.view(b) for p, b in f.bodies.items() if b.impl_self == SWM and b.kind == "AssocFn"
                and any(callee_def(t).rsplit("::", 1)[-1] == "get_valid_values_conditional" for _, t in b.calls())][:1]
    if not ctx.floor("C02.window-gateway", "method of SlidingWindowMetric that filters the array's buckets by a window predicate", len(sats), 1):
        return
    sat = sats[0]
    # predicate closure: start <= curr && curr <= end
    clos = f.closures_of(f.raw(sat))
    # which captured value is the start and which the end of the range: by data flow in the parent (the start is the one computed
    # from the window length), never by the capture's name
    sl0 = Slicer(f, sat)
    up_start = up_end = None
    for blk in sat.blocks:
        for s_ in blk["stmts"]:
            if s_["k"] == "assign" and s_["rv"]["k"] == "agg" and s_["rv"].get("closure") and len(s_["rv"].get("fields", [])) == 2:
                for nm, o in zip(s_["rv"]["fields"], s_["rv"]["ops"]):
                    if any_atom(sl0.of_operand(o), "field:SlidingWindowMetric.interval_ms"):
                        up_start = nm
                    else:
                        up_end = nm
    if clos:
        c = clos[0]
        pcur = c.param_name(2) or "curr"

        def exp(asg):
            r1 = D.rel_of(asg, "curr", "start")
            r2 = D.rel_of(asg, "curr", "end")
            if r1 is None or r2 is None:
                return None
            return "true" if (r1 in ">=" and r2 in "<=") else "false"
        _bool_fn_table(ctx, f, c, "C02.window-gateway/predicate", [("start", ["field:upvar.%s" % (up_start or "start")], []), ("end", ["field:upvar.%s" % (up_end or "end")], []), ("curr", ["param:" + pcur], [])],
                       exp, "start <= stamp && stamp <= end", cfg, 9)
    sl = Slicer(f, sat)
    ok = False
    for bb, t in sat.calls():
        if callee_def(t).rsplit("::", 1)[-1] == "get_valid_values_conditional":
            a0 = sl.of_operand(t["args"][0])
            a1 = sl.of_operand(t["args"][1])
            ok = any_atom(a0, "field:SlidingWindowMetric.inner") and "param:now" in a1
    # what the predicate captures: the window's start range, computed from `now` (bucket-aligned), the window length and the bucket length
    up = set()
    for blk in sat.blocks:
        if blk["cleanup"]:
            continue
        for s in blk["stmts"]:
            if s["k"] == "assign" and s["rv"]["k"] == "agg" and s["rv"].get("closure"):
                for o in s["rv"]["ops"]:
                    up |= sl.of_operand(o)
    aligned = any_atom(up, "call:calculate_start_stamp") or ("op:Rem" in up and "op:Sub" in up)
    ok = ok and "param:now" in up and aligned
    ctx.instance("C02.window-gateway/satisfied", sat.path, {"filtered_by_inner_array_with_now": ok}, "inner.get_valid_values_conditional(now, range predicate from the bucket-aligned now)", ok, cfg)
    if not ok:
        ctx.violation("C02.window-gateway", "C02.window-gateway|satisfied", "satisfied_buckets does not select the buckets of [now's window] through the array's expiry filter", sat.loc(), config=cfg)
    # range inputs
    need = {"bucket-aligned time": lambda a: any_atom(a, "call:calculate_start_stamp") or ("op:Rem" in a and "op:Sub" in a),
            "field:SlidingWindowMetric.interval_ms": lambda a: any_atom(a, "field:SlidingWindowMetric.interval_ms"),
            "bucket_len_ms": lambda a: any_atom(a, "call:bucket_len_ms") or any_atom(a, "field:LeapArray.bucket_len_ms"),
            "the queried time": lambda a: "param:now" in a or "param:t_ms" in a}
    missing = [k for k, fn in need.items() if not fn(up)]
    ctx.instance("C02.window-gateway/range-inputs", sat.path, sorted(short(a) for a in up if a.startswith(("call:core", "field:core", "param:", "op:")))[:10], sorted(need), not missing, cfg)
    if missing:
        ctx.violation("C02.window-gateway", "C02.window-gateway|range-inputs|" + ",".join(missing), "the window's start range does not depend on %s" % missing, sat.loc(), config=cfg)
    # the window reaches the array's buckets only through that filter: no other data accessor of the underlying array is called on
    # `inner` (a delegated whole-ring statistic would report events older than the window)
    def _touches_array(path):
        par = f.reach_bodies([path])
        for q in par:
            for blk in f.bodies[q].blocks:
                if blk["cleanup"]:
                    continue
                for st in blk["stmts"]:
                    if st["k"] != "assign":
                        continue
                    rv = st["rv"]
                    pls = [rv["pl"]] if "pl" in rv else []
                    pls += [rv[k]["pl"] for k in ("op", "a", "b") if isinstance(rv.get(k), dict) and rv[k].get("pl")]
                    for pl in pls:
                        if any(pj.endswith("LeapArray.array") for pj in pl["p"]):
                            return True
        return False
    inner_calls, leaks = [], []
    for p2, b in f.bodies.items():
        if not (b.impl_self == SWM or p2.startswith(SWM + "::")):
            continue
        s3 = Slicer(f, b)
        for bb, t in b.calls():
            if not t["args"] or not any_atom(s3.of_operand(t["args"][0]), "field:SlidingWindowMetric.inner"):
                continue
            for tgt in f.call_targets(b, t) or []:
                if tgt in f.bodies and ("LeapArray" in tgt) and _touches_array(tgt):
                    nm = tgt.rsplit("::", 1)[-1]
                    inner_calls.append(nm)
                    if nm != "get_valid_values_conditional":
                        leaks.append("%s calls inner.%s" % (p2.rsplit("::", 1)[-1], nm))
    ctx.instance("C02.window-gateway/inner-access", SWM, {"data_accessors_called_on_inner": sorted(set(inner_calls)), "not_window_filtered": leaks},
                 "only get_valid_values_conditional", not leaks and "get_valid_values_conditional" in inner_calls, cfg)
    if leaks or "get_valid_values_conditional" not in inner_calls:
        ctx.violation("C02.window-gateway", "C02.window-gateway|inner-access|" + ",".join(sorted(set(x.rsplit(".", 1)[-1] for x in leaks)) or ["none"]),
                      "SlidingWindowMetric reads the underlying array's buckets without its window filter: %s" % (leaks or "filter call not found"), config=cfg)
    # every value read in SlidingWindowMetric's statistics comes from the filtered lists
    bad = []
    n = 0
    for p, b in f.bodies.items():
        if not (b.impl_self == SWM and b.kind == "AssocFn"):
            continue
        b = f.view(b)
        s2 = Slicer(f, b)
        for bb, t in b.calls():
            if callee_def(t).rsplit("::", 1)[-1] == "value" and "BucketWrap" in callee_def(t):
                n += 1
                a = s2.of_operand(t["args"][0])
                filtered = any_atom(a, "call:SlidingWindowMetric::satisfied_buckets") or any_atom(a, "call:get_valid_values_conditional")
                # a bucket that reaches the read through a local collection / a helper's parameter carries no accessor of the array at all;
                # what must not happen is a bucket taken from `inner` by anything but the filtered accessor
                from_array = any_atom(a, "field:SlidingWindowMetric.inner") or any(x.startswith("call:") and "LeapArray" in x and not x.endswith(("get_valid_values_conditional", "::value", "start_stamp")) for x in a)
                if from_array and not filtered:
                    bad.append(p)
    ctx.instance("C02.window-gateway/all-reads", SWM, {"value_reads": n, "unfiltered": bad}, "every bucket value read flows from satisfied_buckets / get_valid_values_conditional (or a bucket parameter)", not bad and n >= 4, cfg)
    if bad or n < 4:
        ctx.violation("C02.window-gateway", "C02.window-gateway|unfiltered-read|" + ",".join(sorted(set(x.rsplit("::", 1)[-1] for x in bad))), "statistics read bucket values that did not pass the window filter: %s" % bad, config=cfg)
