"""C10 — rule managers hold and enforce exactly the valid rules last given, incl. appends.

Decided (DESIGN §3 C10; sibling matrix over flow / circuit breaker / hotspot / isolation / system):
  C10.validity-filter   every rule set that reaches an *enforced* structure (the rules handed to build_resource_* for controllers /
                        breakers; the isolation / system RULE_MAP; the breaker BREAKER_RULES) is valid-only: each of its insertions is
                        dominated by the Ok edge of SentinelRule::is_valid on the inserted rule - transitively through local sets, maps
                        and the static maps they are read back from
  C10.unchanged         the early "unchanged" return is decided by comparing the new raw rules with the stored raw rules, and no global is
                        written before it
  C10.per-resource      in load_rules_of_resource / clear_rules_of_resource every mutating map operation on a global is keyed by `res`
  C10.append-protocol   build_resource_* moves reused objects out of the live list it is given; the returned list must be stored whole
                        under the same key (no indexing, no partial use), under the guard that supplied the old list
  C10.getters           get_rules / get_rules_of_resource read the enforced structure under one guard
"""
from .core import *
from .locks import LockModel

FAMILIES = ["flow", "hotspot", "circuitbreaker", "isolation", "system"]
MUTATORS = ("insert", "remove", "clear", "entry", "get_mut", "retain", "push", "extend", "append", "or_default", "or_insert_with")


def manager_bodies(f, fam):
    """the public operations of a rule manager in their normalised views (private helpers are read inside them)"""
    from . import inline
    mod = "core::%s::rule_manager" % fam
    return {p: f.view(b) for p, b in f.bodies.items() if p.startswith(mod + "::") and b.kind == "Fn"
            and not (inline.default_policy(f, b, b) and f.callers_of(p))}


def run(ctx):
    ctx.explanation = (
        "Provenance analysis of rule sets inside the five manager modules: a local HashSet/HashMap is 'valid-only' when every insertion "
        "into it is dominated by the Ok edge of is_valid on the inserted rule (or inserts a valid-only set); a static map is valid-only "
        "when every store into it is; the rules given to build_resource_* and the stores into the enforced maps must be valid-only. "
        "Path rules for the unchanged-return (no global write before it), key-origin rule for the per-resource operations, use-analysis "
        "of the vector returned by build_resource_* (stored whole, never indexed), single-guard rule for getters.")
    ctx.not_decided = "set equality of reported and expected rules over operation sequences with duplicate-but-differently-identified rules (hash vs equality)."
    ctx.assumptions = ["is_valid is the family's validity check (impl SentinelRule for Rule)"]
    cfg = "core-default"
    f = ctx.facts(cfg)
    lm = LockModel(f)
    n_mgr = 0
    for fam in FAMILIES:
        mod = "core::%s::rule_manager" % fam
        # the manager's functions in their normalised views; private helpers (lock wrappers, shared sub-steps) are read inside the
        # public operations that call them
        bodies = manager_bodies(f, fam)
        if not bodies:
            continue
        n_mgr += 1
        va = ValidSets(f, bodies, fam)
        validity(ctx, f, va, fam, bodies, cfg)
        unchanged(ctx, f, fam, bodies, cfg)
        # "unchanged" is decided by rule equality: it must see every parameter (all five families)
        from . import rules_C11
        rules_C11.eq_coverage(ctx, f, fam, "core::%s::rule::Rule" % fam, cfg, R="C10.unchanged/equality")
        per_resource(ctx, f, fam, bodies, cfg)
        raw_snapshot(ctx, f, fam, bodies, cfg)
        enforced_updated(ctx, f, fam, bodies, cfg)
        append_snapshot(ctx, f, fam, bodies, cfg)
        append_protocol(ctx, f, lm, fam, bodies, cfg)
        getters(ctx, f, lm, fam, bodies, cfg)
    ctx.floor("C10.anchor", "rule manager modules", n_mgr, 5)
    # a valid rule is held (enforced) only if a generator exists for its strategy: the registration tables are total and consistent
    from . import gentable
    for fam in ("flow", "hotspot", "circuitbreaker"):
        gentable.check(ctx, f, fam, cfg, "C10.generators")


CONTAINER_STEPS = ("iter", "iter_mut", "into_iter", "next", "values", "values_mut", "keys", "get", "get_mut", "unwrap", "unwrap_or", "expect", "entry",
                   "or_default", "or_insert_with", "deref", "deref_mut", "as_ref", "as_mut", "clone", "cloned", "borrow", "lock", "read", "write")


def container_roots(f, b, op, depth=0, seen=None):
    """Locals / statics whose *container* (not merely some value computed from it) reaches the operand: follows copies, refs, pattern
    projections and iteration / lookup / guard calls only."""
    seen = seen if seen is not None else set()
    out = set()
    if op is None or depth > 25:
        return out
    if op.get("k") == "const":
        if "static" in op:
            out.add("static:" + op["static"])
        return out
    pl = op.get("pl")
    if pl is None:
        return out
    l = pl["l"]
    if l in seen:
        return out
    seen.add(l)
    ds = [d for d in b.defs().get(l, [])]
    if b.vname(l) and any(k in b.local_ty(l) for k in ("HashSet<", "HashMap<", "Vec<")) and not b.local_ty(l).startswith("&") and "Guard" not in b.local_ty(l) and "Iter" not in b.local_ty(l):
        out.add("lid:%d" % l)
        return out
    if 1 <= l <= b.argc:
        out.add("param:%s" % (b.vname(l) or l))
    for kind, bi, si, node, projs in ds:
        if kind == "assign":
            rv = node["rv"]
            if rv["k"] in ("use", "cast"):
                out |= container_roots(f, b, rv["op"], depth + 1, seen)
            elif rv["k"] == "ref":
                out |= container_roots(f, b, {"k": "copy", "pl": rv["pl"]}, depth + 1, seen)
            elif rv["k"] == "agg":
                pass
        else:
            t = node
            nm = callee_def(t).rsplit("::", 1)[-1]
            if nm in CONTAINER_STEPS and t["args"]:
                out |= container_roots(f, b, t["args"][0], depth + 1, seen)
            else:
                tg = [x for x in f.call_targets(b, t) if x in f.bodies]
                # accessor returning a static (e.g. lazy_static Deref)
                at = set()
                for a in t["args"]:
                    if a.get("k") == "const" and "static" in a:
                        out.add("static:" + a["static"])
    return out


class ValidSets:
    """Which locals / statics hold only rules that passed is_valid."""

    def __init__(self, f, bodies, fam):
        self.f = f
        self.bodies = bodies
        self.fam = fam
        self._local = {}
        self.static_ok = {}
        self.static_why = {}
        self._compute_statics()

    # --- is_valid guard
    def guarded(self, b, bb, val_op):
        sl = Slicer(self.f, b)
        vroots = {a for a in sl.of_operand(val_op) if a.startswith(("lid:", "param:"))}
        for d in sorted(b.dominators().get(bb, ())):
            t = b.term(d)
            if not t or t["k"] != "switch":
                continue
            a = sl.of_operand(t["op"])
            if t.get("ty") == "bool" and any_atom(a, "call:SentinelRule::is_valid") and (vroots & a or not vroots) and \
                    (any_atom(a, "call:Result::<T, E>::is_ok") or any_atom(a, "call:Result::<T, E>::is_err")):
                te = bool_edge_targets(b, d)
                if te:
                    good = te[0] if any_atom(a, "call:Result::<T, E>::is_ok") else te[1]
                    if "op:Not" in a:
                        good = te[1] if good == te[0] else te[0]
                    if b.dominates(good, bb):
                        return True
            if "discr" in a and any_atom(a, "call:SentinelRule::is_valid") and (vroots & a or not vroots):
                errs = [tg for v, tg in t["targets"] if v == 1]
                oks = [tg for v, tg in t["targets"] if v == 0]
                if not oks and errs:
                    oks = [t["otherwise"]]
                for o in oks:
                    if b.dominates(o, bb) and o not in errs:
                        return True
        return False

    def writes_to_local(self, b, l):
        """(bb, term, name) of mutator calls whose receiver derives from local l (directly, not through a static)."""
        sl = Slicer(self.f, b)
        out = []
        for bb, t in b.calls():
            nm = callee_def(t).rsplit("::", 1)[-1]
            if nm not in ("insert", "extend", "push", "append") or not t["args"]:
                continue
            ra = container_roots(self.f, b, t["args"][0])
            if ("lid:%d" % l) in ra and not any(x.startswith("static:") for x in ra):
                out.append((bb, t, nm))
        return out

    def local_valid(self, b, l, depth=0):
        key = (b.path, l)
        if key in self._local:
            return self._local[key]
        self._local[key] = (False, "recursive")
        ty = b.local_ty(l)
        ws = self.writes_to_local(b, l)
        sl = Slicer(self.f, b)
        res = (True, "no insertion")
        if not ws:
            # not built here: a parameter or the result of a call / collect
            d = def_of_local(b, l)
            if 1 <= l <= b.argc:
                res = (False, "parameter `%s` (raw caller input)" % b.vname(l))
            elif d and d[0] == "call":
                at = sl.of_place({"l": l, "p": []})
                ps = [a for a in at if a.startswith("param:")]
                st = [a for a in at if a.startswith("static:")]
                tgt = [x for x in self.f.call_targets(b, d[3]) if x in self.bodies]
                if tgt:
                    res = self.fn_returns_valid(self.bodies[tgt[0]])
                elif st:
                    oks = [self.static_ok.get(s[7:], False) for s in st]
                    res = (all(oks), "read from %s" % [s.rsplit("::", 1)[-1] for s in st])
                elif ps:
                    res = (False, "derived from parameter %s without validation" % ps)
                elif callee_def(d[3]).rsplit("::", 1)[-1] in ("new", "with_capacity", "default", "with_capacity_and_hasher"):
                    res = (True, "constructed empty")
                else:
                    # collect()/clone()/... : inherits the provenance of whatever containers feed it
                    lids = [int(a[4:]) for a in at if a.startswith("lid:") and int(a[4:]) != l and any(k in b.local_ty(int(a[4:])) for k in ("HashSet<", "HashMap<", "Vec<"))]
                    if lids:
                        rs = [self.local_valid(b, x, depth + 1) for x in lids]
                        res = (all(r[0] for r in rs), "; ".join(r[1] for r in rs if not r[0]) or "derived from valid-only sets")
                    else:
                        res = (False, "built by %s from values of unknown provenance" % callee_def(d[3]).rsplit("::", 1)[-1])
            self._local[key] = res
            return res
        for bb, t, nm in ws:
            # value inserted
            v = t["args"][-1]
            vt = (t.get("arg_tys") or [""])[-1]
            if "HashSet<" in vt or "HashMap<" in vt or "Vec<" in vt:
                pl = op_place(v)
                ok = False
                why = "inserted collection of unknown provenance"
                if pl is not None:
                    lids = [int(a[4:]) for a in container_roots(self.f, b, v) if a.startswith("lid:")]
                    cands = [x for x in lids if ("HashSet<" in b.local_ty(x) or "HashMap<" in b.local_ty(x)) and x != l]
                    if cands:
                        rs = [self.local_valid(b, x, depth + 1) for x in cands]
                        ok = all(r[0] for r in rs)
                        why = "; ".join(r[1] for r in rs if not r[0]) or "valid-only sets"
                if not ok:
                    res = (False, "`%s` receives %s" % (b.vname(l) or l, why))
                    break
            else:
                if not self.guarded(b, bb, v):
                    res = (False, "`%s`.%s(..) at %s is not dominated by is_valid() == Ok on the inserted rule" % (b.vname(l) or l, nm, b.loc(bb)))
                    break
        self._local[key] = res
        return res

    def fn_returns_valid(self, hb):
        at = container_roots(self.f, hb, {"k": "copy", "pl": {"l": 0, "p": []}})
        lids = [int(a[4:]) for a in at if a.startswith("lid:")]
        cands = [x for x in lids if "HashSet<" in hb.local_ty(x) or "HashMap<" in hb.local_ty(x)]
        if not cands:
            return (False, "%s returns a collection of unknown provenance" % hb.path)
        rs = [self.local_valid(hb, x) for x in cands]
        return (all(r[0] for r in rs), "; ".join(r[1] for r in rs if not r[0]) or "built from validated rules in %s" % hb.name)

    # --- statics
    def static_stores(self):
        """(static name, body, bb, kind, value operand or None)"""
        out = []
        for p, b in self.bodies.items():
            sl = Slicer(self.f, b)
            for bi, blk in enumerate(b.blocks):
                if blk["cleanup"]:
                    continue
                for s in blk["stmts"]:
                    if s["k"] == "assign" and s["lhs"]["p"] == ["*"] and s["rv"]["k"] == "use":
                        a = container_roots(self.f, b, {"k": "copy", "pl": {"l": s["lhs"]["l"], "p": []}})
                        st = [x[7:] for x in a if x.startswith("static:")]
                        if st and ("HashMap<" in b.local_ty(s["lhs"]["l"]) or "Vec<" in b.local_ty(s["lhs"]["l"])):
                            out.append((st[0], b, bi, "assign", s["rv"]["op"]))
            for bb, t in b.calls():
                nm = callee_def(t).rsplit("::", 1)[-1]
                if nm in ("insert", "push", "extend") and t["args"]:
                    ra = container_roots(self.f, b, t["args"][0])
                    st = [x[7:] for x in ra if x.startswith("static:")]
                    if st and not any(x.startswith("lid:") for x in ra):
                        out.append((st[0], b, bb, nm, t["args"][-1]))
        return out

    def _compute_statics(self):
        stores = self.static_stores()
        names = sorted({s[0] for s in stores})
        # optimistic fixpoint: assume valid, refute
        self.static_ok = {n: True for n in names}
        for _ in range(4):
            self._local = {}
            changed = False
            for n in names:
                ok, why = True, "all stores valid-only"
                for sn, b, bb, kind, v in stores:
                    if sn != n:
                        continue
                    vt = ""
                    pl = op_place(v)
                    sl = Slicer(self.f, b)
                    lids = [int(a[4:]) for a in container_roots(self.f, b, v) if a.startswith("lid:")]
                    colls = [x for x in lids if any(k in b.local_ty(x) for k in ("HashSet<", "HashMap<", "Vec<"))]
                    if pl is not None and any(k in b.local_ty(pl["l"]) for k in ("HashSet<", "HashMap<", "Vec<")) or (colls and kind in ("assign",)):
                        cands = colls or [pl["l"]]
                        rs = [self.local_valid(b, x) for x in cands]
                        if not all(r[0] for r in rs):
                            ok, why = False, "%s: %s" % (b.path.rsplit("::", 1)[-1], "; ".join(r[1] for r in rs if not r[0]))
                            break
                    else:
                        if not self.guarded(b, bb, v):
                            ok, why = False, "%s: single-rule %s at %s not guarded by is_valid() == Ok" % (b.path.rsplit("::", 1)[-1], kind, b.loc(bb))
                            break
                if self.static_ok.get(n) != ok:
                    changed = True
                self.static_ok[n] = ok
                self.static_why[n] = why
            if not changed:
                break


def validity(ctx, f, va, fam, bodies, cfg):
    # (1) rules handed to build_resource_*
    n = 0
    for p, b in bodies.items():
        sl = Slicer(f, b)
        for bb, t in b.calls():
            if not callee_def(t).rsplit("::", 1)[-1].startswith("build_resource_"):
                continue
            n += 1
            a = container_roots(f, b, t["args"][1])
            st = [x[7:] for x in a if x.startswith("static:")]
            lids = [int(x[4:]) for x in a if x.startswith("lid:")]
            colls = [x for x in lids if "HashSet<" in b.local_ty(x) and "Arc<" in b.local_ty(x) or "HashMap<" in b.local_ty(x)]
            ok, why = True, ""
            if st:
                for s in st:
                    if not va.static_ok.get(s, False):
                        ok, why = False, "read back from %s, which also stores rules that never passed is_valid (%s)" % (s.rsplit("::", 1)[-1], va.static_why.get(s, "raw store"))
            if ok and colls and not st:
                rs = [va.local_valid(b, x) for x in colls]
                bad = [r[1] for r in rs if not r[0]]
                if bad:
                    ok, why = False, bad[0]
            ctx.instance("C10.validity-filter", "%s -> %s" % (p, callee_def(t).rsplit("::", 1)[-1]), {"from_statics": [s.rsplit("::", 1)[-1] for s in st], "from_locals": [b.vname(x) for x in colls], "valid_only": ok, "why_not": why},
                         "the rules given to the builder are valid-only", ok, cfg)
            if not ok:
                ctx.violation("C10.validity-filter", "C10.validity-filter|%s" % p.replace("core::", "", 1),
                              "%s rebuilds the enforced list from rules that were not all validated: %s" % (p.replace("core::", "", 1), why), b.loc(bb), config=cfg)
    if fam in ("flow", "hotspot", "circuitbreaker"):
        ctx.floor("C10.validity-filter", "callers of build_resource_* in %s" % fam, n, 3)
    # (2) enforced statics of this family
    enforced = {"isolation": ["RULE_MAP"], "system": ["RULE_MAP"], "circuitbreaker": ["BREAKER_RULES"]}.get(fam, [])
    for e in enforced:
        full = [s for s in va.static_ok if s.endswith("::" + e)]
        if not ctx.floor("C10.validity-filter", "stores into %s::%s" % (fam, e), len(full), 1):
            continue
        ok = va.static_ok[full[0]]
        ctx.instance("C10.validity-filter/static", full[0], va.static_why.get(full[0]), "every store valid-only", ok, cfg)
        if not ok:
            ctx.violation("C10.validity-filter", "C10.validity-filter|%s::%s" % (fam, e), "%s::%s (enforced) can receive rules that did not pass is_valid: %s" % (fam, e, va.static_why.get(full[0])), config=cfg)


def _global_writes(f, b):
    """Blocks of b that mutate a static map (through a guard)."""
    sl = Slicer(f, b)
    out = []
    for bi, blk in enumerate(b.blocks):
        if blk["cleanup"]:
            continue
        for s in blk["stmts"]:
            if s["k"] == "assign" and s["lhs"]["p"] == ["*"]:
                a = sl.of_place({"l": s["lhs"]["l"], "p": []})
                if any(x.startswith("static:") for x in a) and b.local_ty(s["lhs"]["l"]).startswith("&mut"):
                    out.append((bi, "assign", None))
    for bb, t in b.calls():
        nm = callee_def(t).rsplit("::", 1)[-1]
        if nm in MUTATORS and t["args"] and (t.get("arg_tys") or [""])[0].startswith("&mut"):
            a = sl.of_operand(t["args"][0])
            if any(x.startswith("static:") for x in a):
                out.append((bb, nm, t))
    return out


def unchanged(ctx, f, fam, bodies, cfg):
    for name in ("load_rules", "load_rules_of_resource"):
        b = bodies.get("core::%s::rule_manager::%s" % (fam, name))
        if b is None:
            continue
        sl = Slicer(f, b)
        writes = {w[0] for w in _global_writes(f, b)}
        # the "unchanged" exits: return blocks reached through a block that sets _0 = false / Ok(false) / () after an eq test
        eq_sw = []
        for bi, blk in enumerate(b.blocks):
            t = blk["term"]
            if blk["cleanup"] or not t or t["k"] != "switch":
                continue
            a = sl.of_operand(t["op"])
            if any_atom(a, "call:PartialEq::eq") and any(x.startswith("static:") for x in a):
                eq_sw.append(bi)
        ok = bool(eq_sw)
        detail = {"eq_tests": len(eq_sw)}
        for d in eq_sw:
            te = bool_edge_targets(b, d)
            if not te:
                ok = False
                continue
            same_t = te[0]
            # (a) no global write before the test, (b) none on the unchanged edge up to the return
            before = [w for w in writes if d in b.reachable([w]) and b.dominates(w, d)]
            after = [w for w in writes if w in b.reachable([same_t], avoid=[te[1]])]
            detail.update({"writes_before_test": len(before), "writes_on_unchanged_edge": len(after)})
            if before or after:
                ok = False
            # the compared operands: stored raw rules vs the new raw rules
        ctx.instance("C10.unchanged", b.path, detail, "identical input -> return before any global is written", ok, cfg)
        if not ok:
            ctx.violation("C10.unchanged", "C10.unchanged|%s::%s" % (fam, name), "%s::%s does not detect an identical re-load before touching the stored rules: %s" % (fam, name, detail), b.loc(), config=cfg)


def per_resource(ctx, f, fam, bodies, cfg):
    for name in ("load_rules_of_resource", "clear_rules_of_resource"):
        b = bodies.get("core::%s::rule_manager::%s" % (fam, name))
        if b is None:
            continue
        sl = Slicer(f, b)
        bad = []
        n = 0
        for bb, kind, t in _global_writes(f, b):
            if t is None:
                bad.append("whole-map assignment at %s" % b.loc(bb))
                continue
            if kind in ("clear",):
                bad.append("clear() at %s" % b.loc(bb))
                continue
            if kind in ("insert", "remove", "entry", "get_mut") and len(t["args"]) > 1:
                n += 1
                ka = sl.of_operand(t["args"][1])
                if "param:res" not in ka:
                    bad.append("%s keyed by %s at %s" % (kind, sorted(x for x in ka if x.startswith(("param:", "field:")))[:3], b.loc(bb)))
        ok = not bad and n > 0
        ctx.instance("C10.per-resource", b.path, {"keyed_mutations": n, "problems": bad}, "every mutation of a global is keyed by `res`", ok, cfg)
        if not ok:
            ctx.violation("C10.per-resource", "C10.per-resource|%s::%s" % (fam, name), "%s::%s touches rules of other resources: %s" % (fam, name, bad or "no keyed mutation found"), b.loc(), config=cfg)


def append_protocol(ctx, f, lm, fam, bodies, cfg):
    for p, b in bodies.items():
        sl = Slicer(f, b)
        for bb, t in b.calls():
            if not callee_def(t).rsplit("::", 1)[-1].startswith("build_resource_"):
                continue
            res_l = t["dest"]["l"]
            # follow moves of the result
            holders = {res_l}
            changed = True
            while changed:
                changed = False
                for bi, blk in enumerate(b.blocks):
                    for s in blk["stmts"]:
                        if s["k"] == "assign" and s["rv"]["k"] == "use" and op_place(s["rv"]["op"]) and op_place(s["rv"]["op"])["l"] in holders and not s["lhs"]["p"] and s["lhs"]["l"] not in holders:
                            holders.add(s["lhs"]["l"])
                            changed = True
            uses = []
            stored_whole = False
            store_key = None
            for b2, t2 in b.calls():
                for i, a in enumerate(t2["args"]):
                    pl = op_place(a)
                    if pl is None:
                        continue
                    base = pl["l"]
                    via_ref = False
                    d = def_of_local(b, base)
                    if d and d[0] == "assign" and d[3]["rv"]["k"] == "ref" and d[3]["rv"]["pl"]["l"] in holders:
                        via_ref = True
                    if base in holders or via_ref:
                        nm = callee_def(t2).rsplit("::", 1)[-1]
                        uses.append(nm)
                        if nm == "insert" and a.get("k") == "move" and base in holders and i == len(t2["args"]) - 1:
                            stored_whole = True
                            store_key = sl.of_operand(t2["args"][1]) if len(t2["args"]) > 2 else set()
            partial = [u for u in uses if u in ("index", "index_mut", "get", "first", "last", "pop", "remove", "swap_remove", "truncate", "split_off", "drain", "into_iter", "iter")]
            # key of the old list == key of the store
            old_a = sl.of_operand(t["args"][2])
            key_ok = True
            if stored_whole and store_key is not None:
                okeys = {x for x in old_a if x.startswith(("param:res", "field:", "lid:"))}
                skeys = {x for x in store_key if x.startswith(("param:res", "field:", "lid:"))}
                key_ok = bool(okeys & skeys) or any(x.endswith("Rule.resource") for x in store_key) and any(x.endswith("Rule.resource") for x in old_a)
            # old list comes from the enforced static under a guard that is still held at the store
            old_static = sorted(x[7:].rsplit("::", 1)[-1] for x in old_a if x.startswith("static:"))
            ok = stored_whole and not partial and key_ok
            ctx.instance("C10.append-protocol", "%s -> %s" % (p, callee_def(t).rsplit("::", 1)[-1]),
                         {"uses_of_result": sorted(set(uses)), "stored_whole": stored_whole, "partial_uses": partial, "old_list_from": old_static, "same_key": key_ok},
                         "result moved whole into insert(key, ..) for the key whose old list was given", ok, cfg)
            if not ok:
                ctx.violation("C10.append-protocol", "C10.append-protocol|%s" % p.replace("core::", "", 1),
                              "%s does not store the list returned by %s as a whole (uses: %s): controllers that were moved out of the live list are dropped" % (
                                  p.replace("core::", "", 1), callee_def(t).rsplit("::", 1)[-1], sorted(set(uses))), b.loc(bb), config=cfg)


ENFORCED = {"flow": ["CONTROLLER_MAP"], "hotspot": ["CONTROLLER_MAP"], "circuitbreaker": ["BREAKER_MAP", "BREAKER_RULES"]}


def enforced_updated(ctx, f, fam, bodies, cfg):
    """Every path on which a load / append reports "changed" also updates the enforced structure of that resource (insert of the rebuilt
    list, or removal when nothing is left): otherwise the previously enforced rules stay in force and keep being reported."""
    # (append_rule is not listed: its re-read of the raw map in a second critical section has a benign "entry vanished" path)
    for name in ("load_rules", "load_rules_of_resource"):
        b = bodies.get("core::%s::rule_manager::%s" % (fam, name))
        if b is None or fam not in ENFORCED:
            continue
        changed = []
        for bi, blk in enumerate(b.blocks):
            if blk["cleanup"]:
                continue
            for st in blk["stmts"]:
                if st["k"] == "assign" and st["lhs"]["l"] == 0 and not st["lhs"]["p"]:
                    rv = st["rv"]
                    if rv["k"] == "use" and const_val(rv["op"]) == 1 and b.ret_ty == "bool":
                        changed.append(bi)
                    if rv["k"] == "agg" and rv.get("variant") == "Ok" and rv["ops"] and const_val(rv["ops"][0]) == 1:
                        changed.append(bi)
        for emap in ENFORCED[fam]:
            writes = []
            for bb, kind, t in _global_writes(f, b):
                if t is None:
                    for st in b.blocks[bb]["stmts"]:
                        if st["k"] == "assign" and st["lhs"]["p"] == ["*"]:
                            a = container_roots(f, b, {"k": "copy", "pl": {"l": st["lhs"]["l"], "p": []}})
                            if any(x.startswith("static:") and x.endswith("::" + emap) for x in a):
                                writes.append(bb)
                elif kind in ("insert", "remove", "clear"):
                    a = container_roots(f, b, t["args"][0])
                    if any(x.startswith("static:") and x.endswith("::" + emap) for x in a):
                        writes.append(bb)
            w = must_pass(b, [0], changed, writes) if changed else None
            ok = bool(changed) and bool(writes) and w is None
            ctx.instance("C10.enforced-updated", "%s#%s" % (b.path, emap), {"writes": len(set(writes)), "changed_exits": len(changed), "path_without_update": fmt_path(b, w) if w else None},
                         "every path that reports a change inserts into / removes from %s" % emap, ok, cfg)
            if not ok:
                ctx.violation("C10.enforced-updated", "C10.enforced-updated|%s::%s|%s" % (fam, name, emap),
                              "%s::%s can report a change without touching %s: the rules enforced before stay in force (and are still reported) although they are no longer loaded" % (fam, name, emap),
                              b.loc(), fmt_path(b, w) if w else None, config=cfg)


ENF1 = {"flow": "CONTROLLER_MAP", "hotspot": "CONTROLLER_MAP", "circuitbreaker": "BREAKER_MAP", "isolation": "RULE_MAP", "system": "RULE_MAP"}


def append_snapshot(ctx, f, fam, bodies, cfg):
    """append_rule records the rule in the raw snapshot (the list the next load is compared with) whenever it makes it enforced:
    otherwise a later load of the pre-append list is taken for "unchanged" and the appended rule stays in force for ever."""
    b = bodies.get("core::%s::rule_manager::append_rule" % fam)
    if b is None:
        return
    raw, enf = RAW[fam], ENF1[fam]

    def writes_of(name):
        out = []
        for bb, kind, t in _global_writes(f, b):
            if t is None:
                continue
            a = container_roots(f, b, t["args"][0])
            if any(x.startswith("static:") and x.endswith("::" + name) for x in a) and kind in ("insert", "push", "extend", "append"):
                out.append(bb)
        return out
    E, Rw = writes_of(enf), writes_of(raw)
    bad = []
    for e in E:
        before = any(b.dominates(r, e) for r in Rw)
        after = bool(Rw) and must_pass(b, [e], b.return_blocks(), Rw) is None
        if not (before or after):
            bad.append(b.loc(e))
    ok = bool(E) and bool(Rw) and not bad
    ctx.instance("C10.append-snapshot", b.path, {"enforced": enf, "snapshot": raw, "enforcing_sites": len(E), "snapshot_sites": len(Rw), "enforced_without_snapshot": bad},
                 "whenever the rule is inserted into %s it is also recorded in %s" % (enf, raw), ok, cfg)
    if not ok:
        ctx.violation("C10.append-snapshot", "C10.append-snapshot|%s" % fam,
                      "%s::append_rule makes the rule enforced (%s) without recording it in %s: a later load of the previous list is skipped as unchanged and the appended rule stays in force" % (fam, enf, raw), b.loc(), config=cfg)


def getters(ctx, f, lm, fam, bodies, cfg):
    enforced = {"flow": "CONTROLLER_MAP", "hotspot": "CONTROLLER_MAP", "circuitbreaker": "BREAKER_RULES", "isolation": "RULE_MAP", "system": "RULE_MAP"}[fam]
    for name in ("get_rules", "get_rules_of_resource"):
        b = bodies.get("core::%s::rule_manager::%s" % (fam, name))
        if b is None:
            continue
        r = lm.analyse(b)
        classes = [a["cls"].rsplit("::", 1)[-1] for a in r["acq"]]
        src = set()
        slg = Slicer(f, b)
        for bb, t in b.calls():
            if callee_def(t).rsplit("::", 1)[-1] in ("push", "append", "collect", "extend") and t["args"]:
                for a in t["args"]:
                    src |= {x[7:].rsplit("::", 1)[-1] for x in slg.of_operand(a) if x.startswith("static:")}
        src = sorted(src)
        ok = classes == [enforced] and src == [enforced]
        ctx.instance("C10.getters", b.path, {"locks": classes, "returns_from": src}, "one guard on %s, result read from it" % enforced, ok, cfg)
        if not ok:
            ctx.violation("C10.getters", "C10.getters|%s::%s" % (fam, name), "%s::%s does not report the enforced rules (%s) under one guard: locks %s, sources %s" % (fam, name, enforced, classes, src), b.loc(), config=cfg)


RAW = {"flow": "RULE_MAP", "hotspot": "RULE_MAP", "circuitbreaker": "CURRENT_RULES", "isolation": "CURRENT_RULES", "system": "CURRENT_RULES"}


def raw_snapshot(ctx, f, fam, bodies, cfg):
    """Every path on which a load reports "changed" (true / Ok(true)) also records the given raw rules in the snapshot that the
    next "unchanged?" comparison (and append's "already present?" test) reads - otherwise a later identical load is wrongly skipped."""
    raw = RAW[fam]
    for name in ("load_rules", "load_rules_of_resource"):
        b = bodies.get("core::%s::rule_manager::%s" % (fam, name))
        if b is None:
            continue
        sl = Slicer(f, b)
        writes = []
        for bb, kind, t in _global_writes(f, b):
            if t is None:
                # *guard = value
                for st in b.blocks[bb]["stmts"]:
                    if st["k"] == "assign" and st["lhs"]["p"] == ["*"]:
                        a = container_roots(f, b, {"k": "copy", "pl": {"l": st["lhs"]["l"], "p": []}})
                        if any(x.startswith("static:") and x.endswith("::" + raw) for x in a):
                            writes.append(bb)
            else:
                a = container_roots(f, b, t["args"][0])
                if any(x.startswith("static:") and x.endswith("::" + raw) for x in a) and kind in ("insert", "remove", "clear"):
                    writes.append(bb)
        # helper calls that do it (isolation's clear_rules_of_resource)
        for bb, t in b.calls():
            for tg in f.call_targets(b, t):
                hb = bodies.get(tg)
                if hb is not None and tg in bodies and tg != b.path:
                    if any(any(x.startswith("static:") and x.endswith("::" + raw) for x in container_roots(f, hb, tt["args"][0])) for _, tt in hb.calls() if tt["args"] and callee_def(tt).rsplit("::", 1)[-1] in ("insert", "remove", "clear")):
                        writes.append(bb)
        # blocks that make the function report "changed"
        changed = []
        for bi, blk in enumerate(b.blocks):
            if blk["cleanup"]:
                continue
            for st in blk["stmts"]:
                if st["k"] == "assign" and st["lhs"]["l"] == 0 and not st["lhs"]["p"]:
                    rv = st["rv"]
                    if rv["k"] == "use" and const_val(rv["op"]) == 1 and b.ret_ty == "bool":
                        changed.append(bi)
                    if rv["k"] == "agg" and rv.get("variant") == "Ok" and rv["ops"] and const_val(rv["ops"][0]) == 1:
                        changed.append(bi)
        if b.ret_ty == "()":
            # isolation / system load_rules return nothing: "changed" = any path that writes the enforced map
            emap = {"isolation": "RULE_MAP", "system": "RULE_MAP"}.get(fam)
            for bb, kind, t in _global_writes(f, b):
                if t is None:
                    for st in b.blocks[bb]["stmts"]:
                        if st["k"] == "assign" and st["lhs"]["p"] == ["*"]:
                            a = container_roots(f, b, {"k": "copy", "pl": {"l": st["lhs"]["l"], "p": []}})
                            if emap and any(x.endswith("::" + emap) for x in a):
                                changed.append(bb)
            goals = b.return_blocks()
            w = None
            for c in changed:
                if not (set(writes) & (b.reachable([c]) | {x for x in range(len(b.blocks)) if c in b.reachable([x])})):
                    w = [c]
        else:
            w = must_pass(b, [0], changed, writes) if changed else None
        ok = bool(changed) and bool(writes) and w is None
        ctx.instance("C10.raw-snapshot", b.path, {"snapshot": raw, "snapshot_writes": len(set(writes)), "changed_exits": len(changed), "path_without_snapshot_update": fmt_path(b, w) if w else None},
                     "every path that reports a change also updates the raw snapshot", ok, cfg)
        if not ok:
            ctx.violation("C10.raw-snapshot", "C10.raw-snapshot|%s::%s" % (fam, name),
                          "%s::%s can report a change without recording the given rules in %s: the next identical load (or append) is compared against a stale snapshot" % (fam, name, raw),
                          b.loc(), fmt_path(b, w) if w else None, config=cfg)
