"""Generator registration tables (flow / hotspot / circuit breaker GEN_FUN_MAP): key -> what the registered generator constructs.

Rule (sibling agreement + totality): every built-in strategy (combination) has exactly one registration, and the generator registered
under a key builds, on EVERY construction site (fresh and statistics-reusing branch alike), the implementation that belongs to that key.
The key -> implementation table is the repository's naming convention, frozen here with one line each."""
from .core import *

EXPECT = {
    "flow": {"CalculateStrategy::Direct": "DirectCalculator", "CalculateStrategy::WarmUp": "WarmUpCalculator", "CalculateStrategy::MemoryAdaptive": "MemoryAdaptiveCalculator",
             "ControlStrategy::Reject": "RejectChecker", "ControlStrategy::Throttling": "ThrottlingChecker"},
    "hotspot": {"ControlStrategy::Reject": "RejectChecker", "ControlStrategy::Throttling": "ThrottlingChecker"},
    "circuitbreaker": {"BreakerStrategy::SlowRequestRatio": "SlowRtBreaker", "BreakerStrategy::ErrorRatio": "ErrorRatioBreaker", "BreakerStrategy::ErrorCount": "ErrorCountBreaker"},
}
KINDS = ("Calculator", "Checker", "Breaker")


def registrations(f, fam):
    ps = [p for p in f.bodies if ("core::%s::rule_manager::GEN_FUN_MAP" % fam) in p and p.endswith("__static_ref_initialize")]
    if not ps:
        return None, []
    b = f.bodies[ps[0]]
    sl = Slicer(f, b)
    regs = []
    for bb, t in b.calls():
        if callee_def(t).endswith("::insert") and len(t["args"]) == 3:
            ka = sl.of_operand(t["args"][1])
            va = sl.of_operand(t["args"][2])
            key = tuple(sorted(x.split("::", 3)[-1] if False else "::".join(x.rsplit("::", 2)[-2:]) for x in ka if x.startswith("variant:")))
            gens = sorted(x.split(":", 1)[1] for x in va if x.startswith(("closure:", "fn:")))
            regs.append((key, gens, bb))
    return b, regs


def constructed(f, path, depth=0, seen=None):
    """Implementation types (…Calculator / …Checker / …Breaker) whose constructors the generator calls, per call site."""
    seen = seen if seen is not None else set()
    out = []
    if path in seen or depth > 2 or path not in f.bodies:
        return out
    seen.add(path)
    b = f.bodies[path]
    for bb, t in b.calls():
        cd = callee_def(t)
        segs = [x for x in cd.split("::") if not x.startswith("<")]
        if len(segs) >= 2 and segs[-1].startswith(("new", "with_")):
            ty = segs[-2].split("<")[0]
            if ty.endswith(KINDS):
                out.append(ty)
    for c in f.closures_of(b):
        if c.path.startswith(path + "::{closure"):
            out += constructed(f, c.path, depth + 1, seen)
    return out


def check(ctx, f, fam, cfg, R):
    b, regs = registrations(f, fam)
    exp = EXPECT[fam]
    if not ctx.floor(R, "%s GEN_FUN_MAP registrations" % fam, len(regs), {"flow": 6, "hotspot": 2, "circuitbreaker": 3}[fam]):
        return
    # totality / uniqueness over the built-in variants
    dims = {}
    for k in exp:
        dims.setdefault(k.split("::")[0], []).append(k)
    want = [()]
    for dname in sorted(dims):
        want = [w + (k,) for w in want for k in sorted(dims[dname])]
    want = {tuple(sorted(w)) for w in want}
    got = [r[0] for r in regs]
    missing = sorted(want - set(got))
    dup = sorted({k for k in got if got.count(k) > 1})
    unknown = sorted(set(got) - want)
    bad = []
    for key, gens, bb in regs:
        need = sorted(exp[k] for k in key if k in exp)
        built = []
        for g in gens:
            built += constructed(f, g)
        wrong = sorted({t for t in built if t not in need})
        lacking = sorted(t for t in need if t not in built)
        if wrong or lacking or not gens:
            bad.append({"key": key, "generator": [g.rsplit("::", 1)[-1] for g in gens], "builds": sorted(set(built)), "expected": need})
    ok = not missing and not dup and not unknown and not bad
    ctx.instance(R, "%s::rule_manager::GEN_FUN_MAP" % fam, {"registered": len(regs), "missing": missing, "registered_twice": dup, "unknown_keys": unknown, "wrong_implementation": bad},
                 "one registration per built-in strategy; each builds the implementation of its key on every site", ok, cfg)
    if missing or dup or unknown:
        ctx.violation(R, "%s|%s|keys|%s" % (R, fam, ";".join("+".join(k) for k in (missing or dup or unknown))),
                      "%s generator table: missing %s, registered twice %s, unknown %s - a valid rule with a missing strategy is accepted by the loader and silently never enforced" % (fam, missing, dup, unknown),
                      b.loc(), config=cfg)
    for x in bad:
        ctx.violation(R, "%s|%s|implementation|%s" % (R, fam, "+".join(x["key"])),
                      "%s generator registered for %s builds %s, expected %s (on every construction site, including the statistics-reusing branch)" % (fam, x["key"], x["builds"], x["expected"]),
                      b.loc(), config=cfg)
