//! Probe (not a deliverable): does the unchanged code already violate C12 through the
//! hotspot concurrency counter?  Overlapping entries for one argument with an LRU
//! capacity of 1 let the counter of an argument be re-created while an older entry is
//! still in flight; its exit then decrements the new counter below zero.

use sentinel_core::{hotspot, EntryBuilder};
use std::panic::catch_unwind;
use std::sync::Arc;

#[test]
fn probe() {
    let res = "c12-probe-hotspot-concurrency".to_string();
    hotspot::load_rules(vec![Arc::new(hotspot::Rule {
        resource: res.clone(),
        metric_type: hotspot::MetricType::Concurrency,
        param_index: 0,
        threshold: 100,
        params_max_capacity: 1,
        ..Default::default()
    })]);
    let build = |arg: &str| {
        EntryBuilder::new(res.clone())
            .with_args(Some(vec![arg.to_string()]))
            .build()
    };
    let e1 = build("a").unwrap(); // a = 1
    let e_b = build("b").unwrap(); // evicts a
    let e2 = build("a").unwrap(); // a re-created: 1
    e1.exit(); // a = 0
    e2.exit(); // a = u64::MAX
    e_b.exit();
    let r = catch_unwind(|| {
        let res = "c12-probe-hotspot-concurrency".to_string();
        if let Ok(e) = EntryBuilder::new(res)
            .with_args(Some(vec!["a".to_string()]))
            .build()
        {
            e.exit()
        }
    });
    assert!(r.is_ok(), "baseline already panics");
}
