// release-profile view of the same defect: the counter wraps to u64::MAX and the value is rejected from then on
use sentinel_core::{hotspot, EntryBuilder};
use std::sync::Arc;
#[test]
fn probe_release() {
    let res = "d21-probe-release".to_string();
    hotspot::load_rules(vec![Arc::new(hotspot::Rule {
        resource: res.clone(), metric_type: hotspot::MetricType::Concurrency, param_index: 0, threshold: 100, params_max_capacity: 1, ..Default::default()
    })]);
    let build = |arg: &str| EntryBuilder::new(res.clone()).with_args(Some(vec![arg.to_string()])).build();
    let e1 = build("a").unwrap();
    let e_b = build("b").unwrap();
    let e2 = build("a").unwrap();
    e1.exit(); e2.exit(); e_b.exit();
    // nothing is in flight now
    let r = build("a");
    println!("after all exits, build(a) = {:?}", r.as_ref().map(|_| "admitted").map_err(|e| e.to_string()));
    assert!(r.is_ok(), "value `a` is rejected although nothing is in flight");
    r.unwrap().exit();
}
