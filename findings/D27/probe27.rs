//! D27: a hotspot concurrency limit of 0 (rule threshold, or a per-value override) admits the first request of every value -
//! and one more after each LRU eviction of the value's counter - because a value seen for the first time is passed without
//! being held against the limit.  C05: "admitted exactly when the in-flight entries plus n do not exceed T ... per-value
//! overrides replacing T for that value only".
//! Run: cp probe27.rs sentinel-core/tests/ && cargo test --offline -p sentinel-core --test probe27 -- --test-threads=1
use sentinel_core::{hotspot, EntryBuilder};
use std::collections::HashMap;
use std::sync::Arc;

#[test]
fn a_limit_of_zero_admits_nothing_not_even_the_first_request() {
    let _ = sentinel_core::init_default();
    let res = "probe27_zero";
    let mut specific = HashMap::new();
    specific.insert("banned".to_string(), 0u64);
    hotspot::load_rules_of_resource(&res.to_string(), vec![Arc::new(hotspot::Rule {
        resource: res.into(),
        metric_type: hotspot::MetricType::Concurrency,
        param_index: 0,
        threshold: 5,
        specific_items: specific,
        ..Default::default()
    })]).unwrap();
    let first = EntryBuilder::new(res.into()).with_args(Some(vec!["banned".to_string()])).build();
    println!("first request of the value with override 0: {}", if first.is_ok() { "ADMITTED" } else { "rejected" });
    assert!(first.is_err(), "0 in flight + 1 > 0: the request must be rejected");
    // control: another value is governed by the rule's threshold
    let other = EntryBuilder::new(res.into()).with_args(Some(vec!["ok".to_string()])).build();
    assert!(other.is_ok());
    other.unwrap().exit();
}
