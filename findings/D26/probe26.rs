#![cfg(feature = "metric_log")]
//! D26: a metric directory that holds names WITH and WITHOUT the pid part of one application makes every search panic
//! (filename_comparator takes parts[3] of the second name because the FIRST name has a pid part).
//! Run: cp probe26.rs sentinel-core/tests/ && cargo test --offline -p sentinel-core --features metric_log --test probe26
use sentinel_core::log::metric::{DefaultMetricSearcher, MetricSearcher};

#[test]
fn search_in_a_directory_with_pid_and_plain_names_does_not_panic() {
    let tmp = tempfile::tempdir().unwrap();
    let dir = format!("{}/", tmp.path().to_str().unwrap());
    // two runs of the same application, one with use_pid, one without (both names match the base name "app-metrics.log")
    // (several of each, so that the sort compares a pid name with a plain one in both argument orders whatever order the directory is read in)
    for d in 1..=6 {
        for name in [format!("app-metrics.log.pid77.2100-01-0{}", d), format!("app-metrics.log.2100-01-0{}", d)] {
            std::fs::write(format!("{}{}", dir, name), b"").unwrap();
            std::fs::write(format!("{}{}.idx", dir, name), b"").unwrap();
        }
    }
    let s = DefaultMetricSearcher::new(dir.clone(), "app-metrics.log".into()).unwrap();
    let r = std::panic::catch_unwind(|| s.find_from_time_with_max_lines(4_102_444_800_000, 10).map(|v| v.len()));
    println!("search result: {:?}", r.as_ref().map_err(|_| "PANIC"));
    assert!(r.is_ok(), "the search panicked (index out of bounds in filename_comparator)");
}
