#![cfg(feature = "metric_log")]
use sentinel_core::base::MetricItem;
use sentinel_core::config::{self, ConfigEntity};
use sentinel_core::log::metric::{DefaultMetricLogWriter, DefaultMetricSearcher, MetricLogWriter, MetricSearcher};

fn item(ts: u64, res: &str, pass: u64) -> MetricItem {
    MetricItem::from_string(&format!("{}|x|{}|{}|0|0|0|0|0|0|0", ts, res, pass)).unwrap()
}
fn key(i: &MetricItem) -> u64 { let s = i.to_string(); s.split('|').nth(3).unwrap().parse().unwrap() }
fn setup(app: &str) -> (tempfile::TempDir, String) {
    let tmp = tempfile::tempdir().unwrap();
    let dir = format!("{}/", tmp.path().to_str().unwrap());
    let mut e = ConfigEntity::new();
    e.config.app.app_name = app.into();
    e.config.log.metric.dir = dir.clone();
    e.config.log.metric.use_pid = false;
    config::reset_global_config(e);
    (tmp, dir)
}

// (1) a long-lived searcher whose cached index file is removed by retention
#[test]
fn cached_file_removed_by_retention() {
    let (_t, dir) = setup("p23a");
    let base = (sentinel_core::utils::curr_time_millis() / 1000 + 5) * 1000;
    let mut w = DefaultMetricLogWriter::new(10, 3).unwrap(); // one second per file, keep 3
    let s = DefaultMetricSearcher::new(dir.clone(), "p23a-metrics.log".into()).unwrap();
    for sec in 0..2u64 { let ts = base + sec * 1000; w.write(ts, &mut vec![item(ts, "a", sec)]).unwrap(); }
    println!("q1 {:?}", s.find_by_time_and_resource(base, base + 1000, "a").map(|v| v.iter().map(key).collect::<Vec<_>>()));
    for sec in 2..8u64 { let ts = base + sec * 1000; w.write(ts, &mut vec![item(ts, "a", sec)]).unwrap(); }
    let r = s.find_by_time_and_resource(base + 6000, base + 7000, "a").map(|v| v.iter().map(key).collect::<Vec<_>>());
    println!("q2 (after retention removed the cached file) {:?}", r);
    assert_eq!(r.ok(), Some(vec![6, 7]));
}

// (2) a line torn inside a multi-byte character
#[test]
fn torn_inside_multibyte_char() {
    let (_t, dir) = setup("p23b");
    let base = (sentinel_core::utils::curr_time_millis() / 1000 + 5) * 1000;
    let mut w = DefaultMetricLogWriter::new(1 << 20, 3).unwrap();
    for sec in 0..3u64 { let ts = base + sec * 1000; w.write(ts, &mut vec![item(ts, "订单", sec)]).unwrap(); }
    drop(w);
    // crash: the log is a prefix that ends inside the resource name of the last line
    let f = std::fs::read_dir(&dir).unwrap().map(|e| e.unwrap().path()).find(|p| !p.to_str().unwrap().ends_with(".idx")).unwrap();
    let bytes = std::fs::read(&f).unwrap();
    let text = String::from_utf8(bytes.clone()).unwrap();
    let last_line_start = text[..text.len() - 1].rfind('\n').unwrap() + 1;
    let cut = last_line_start + text[last_line_start..].find("订").unwrap() + 1; // inside the 3-byte char
    std::fs::write(&f, &bytes[..cut]).unwrap();
    let s = DefaultMetricSearcher::new(dir.clone(), "p23b-metrics.log".into()).unwrap();
    let r1 = s.find_by_time_and_resource(base, base + 2000, "订单").map(|v| v.iter().map(key).collect::<Vec<_>>());
    println!("range {:?}", r1);
    let s = DefaultMetricSearcher::new(dir.clone(), "p23b-metrics.log".into()).unwrap();
    let r2 = s.find_from_time_with_max_lines(base, 100).map(|v| v.iter().map(key).collect::<Vec<_>>());
    println!("maxlines {:?}", r2);
    assert_eq!(r1.ok(), Some(vec![0, 1]));
    assert_eq!(r2.ok(), Some(vec![0, 1]));
}

// (3) the first second after a day roll-over, with the old day's file removed by retention
#[test]
fn first_second_of_new_day() {
    let (_t, dir) = setup("p23c");
    // pick "now" for the writer's first file; the written timestamps straddle the next UTC midnight
    let now = sentinel_core::utils::curr_time_millis();
    let midnight = (now / 86_400_000 + 1) * 86_400_000;
    let mut w = DefaultMetricLogWriter::new(1 << 20, 1).unwrap(); // keep one file
    for (i, ts) in [midnight - 2000, midnight - 1000, midnight, midnight + 1000, midnight + 2000].iter().enumerate() {
        w.write(*ts, &mut vec![item(*ts, "a", i as u64)]).unwrap();
    }
    let mut files: Vec<String> = std::fs::read_dir(&dir).unwrap().map(|e| e.unwrap().file_name().into_string().unwrap()).collect();
    files.sort();
    println!("files {:?}", files);
    let s = DefaultMetricSearcher::new(dir.clone(), "p23c-metrics.log".into()).unwrap();
    let r = s.find_by_time_and_resource(midnight, midnight + 2000, "a").map(|v| v.iter().map(key).collect::<Vec<_>>());
    println!("new day range {:?}", r);
    assert_eq!(r.ok(), Some(vec![2, 3, 4]));
}
