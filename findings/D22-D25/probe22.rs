//! D22 probe: a request that evaluated "Open and retry timeout elapsed" before another thread's complete (failed) probe cycle
//! still wins the Open -> Half-Open transition afterwards, i.e. passes while the breaker is Open BEFORE the (new) retry timeout.
//! The two steps of thread T1 inside `try_pass` (`retry_timeout_arrived()` and `from_open_to_half_open()`) are executed here in
//! the interleaved order, with thread T2's whole probe cycle in between; every step is the real library code.
use sentinel_core::base::{EntryContext, ResourceType, ResourceWrapper, SentinelEntry, SlotChain, TrafficType};
use sentinel_core::circuitbreaker::{BreakerStrategy, CircuitBreakerTrait, ErrorCountBreaker, Rule, State};
use std::sync::{Arc, RwLock};

fn new_ctx_with_entry(res: &str, sc: &Arc<SlotChain>) -> (Arc<RwLock<EntryContext>>, Arc<RwLock<SentinelEntry>>) {
    let mut ctx = EntryContext::new();
    ctx.set_resource(ResourceWrapper::new(res.into(), ResourceType::Common, TrafficType::Inbound));
    let ctx = Arc::new(RwLock::new(ctx));
    let entry = Arc::new(RwLock::new(SentinelEntry::new(Arc::clone(&ctx), Arc::clone(sc))));
    ctx.write().unwrap().set_entry(Arc::downgrade(&entry));
    (ctx, entry)
}

#[test]
fn stale_timeout_test_wins_after_a_failed_probe() {
    let res = "d22-probe";
    let rule = Arc::new(Rule {
        resource: res.into(),
        strategy: BreakerStrategy::ErrorCount,
        retry_timeout_ms: 2000,
        min_request_amount: 1,
        stat_interval_ms: 10000,
        threshold: 1.0,
        ..Default::default()
    });
    let b = ErrorCountBreaker::new(rule);
    let sc = Arc::new(SlotChain::new());
    let err = Some(sentinel_core::Error::msg("boom"));
    // trip it
    b.on_request_complete(1, &err);
    assert_eq!(b.current_state(), State::Open);
    std::thread::sleep(std::time::Duration::from_millis(2100));
    // T1, first half of try_pass: state is Open and the retry timeout has arrived
    assert_eq!(b.current_state(), State::Open);
    assert!(b.breaker().retry_timeout_arrived());
    // T2: the probe of this Half-Open phase, which fails -> Open again, next retry in 2 s
    let (ctx2, _e2) = new_ctx_with_entry(res, &sc);
    assert!(b.try_pass(&ctx2.read().unwrap()), "T2 is the probe");
    assert_eq!(b.current_state(), State::HalfOpen);
    b.on_request_complete(1, &err);
    assert_eq!(b.current_state(), State::Open);
    assert!(!b.breaker().retry_timeout_arrived(), "the breaker has just re-opened: no probe is due for 2 s");
    // T1, second half of try_pass
    let (ctx1, _e1) = new_ctx_with_entry(res, &sc);
    let admitted = b.breaker().from_open_to_half_open(&ctx1.read().unwrap());
    println!("T1 admitted = {}, state = {:?}", admitted, b.current_state());
    assert!(!admitted, "T1 passed while the breaker was Open before the retry timeout");
}
