#![cfg(feature = "metric_log")]
use sentinel_core::base::MetricItem;
use sentinel_core::config::{self, ConfigEntity};
use sentinel_core::log::metric::{DefaultMetricLogWriter, DefaultMetricSearcher, MetricLogWriter, MetricSearcher};

fn item(ts: u64, res: &str, pass: u64) -> MetricItem {
    MetricItem::from_string(&format!("{}|x|{}|{}|0|0|0|0|0|0|0", ts, res, pass)).unwrap()
}
fn key(i: &MetricItem) -> u64 {
    let s = i.to_string();
    let a: Vec<&str> = s.split('|').collect();
    a[3].parse::<u64>().unwrap()
}
#[test]
fn probe_many_rollovers() {
    for maxf in [4usize, 13] {
    let tmp = tempfile::tempdir().unwrap();
    let dir = format!("{}/", tmp.path().to_str().unwrap());
    let mut e = ConfigEntity::new();
    e.config.app.app_name = "p19".into();
    e.config.log.metric.dir = dir.clone();
    e.config.log.metric.use_pid = false;
    config::reset_global_config(e);
    let base = (sentinel_core::utils::curr_time_millis() / 1000 + 5) * 1000;
    let mut w = DefaultMetricLogWriter::new(10, maxf).unwrap();
    let n = 15u64;
    for s in 0..n {
        let ts = base + s * 1000;
        let mut items = vec![item(ts, "a", s)];
        w.write(ts, &mut items).unwrap();
    }
    let mut files: Vec<String> = std::fs::read_dir(&dir).unwrap().map(|e| e.unwrap().file_name().into_string().unwrap()).filter(|x| !x.ends_with(".idx")).collect();
    files.sort();
    println!("maxf={} files: {:?}", maxf, files);
    let name = "p19-metrics.log".to_string();
    // every second is one file; after n writes there is the (empty) current file plus maxf-1 files with data
    let first_kept = n - (maxf as u64 - 1).min(n);
    let s = DefaultMetricSearcher::new(dir.clone(), name.clone()).unwrap();
    let got: Vec<u64> = s.find_by_time_and_resource(base + first_kept * 1000, base + n * 1000, "a").unwrap().iter().map(key).collect();
    println!("maxf={} range from first kept {}: {:?}", maxf, first_kept, got);
    let s = DefaultMetricSearcher::new(dir.clone(), name.clone()).unwrap();
    let got2: Vec<u64> = s.find_from_time_with_max_lines(base + first_kept * 1000, 1000).unwrap().iter().map(key).collect();
    println!("maxf={} maxlines from first kept {}: {:?}", maxf, first_kept, got2);
    let want: Vec<u64> = (first_kept..n).collect();
    assert_eq!(got, want);
    assert_eq!(got2, want);
    }
}
