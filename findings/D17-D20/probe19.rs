#![cfg(feature = "metric_log")]
use sentinel_core::base::MetricItem;
use sentinel_core::config::{self, ConfigEntity};
use sentinel_core::log::metric::{DefaultMetricLogWriter, DefaultMetricSearcher, MetricLogWriter, MetricSearcher};

fn item(ts: u64, res: &str, pass: u64) -> MetricItem {
    MetricItem::from_string(&format!("{}|x|{}|{}|0|0|0|0|0|0|0", ts, res, pass)).unwrap()
}
fn key(i: &MetricItem) -> String {
    let s = i.to_string();
    let a: Vec<&str> = s.split('|').collect();
    format!("{}:{}", (a[0].parse::<u64>().unwrap() / 1000) % 100, a[3])
}
#[test]
fn probe() {
    let tmp = tempfile::tempdir().unwrap();
    let dir = format!("{}/", tmp.path().to_str().unwrap());
    let mut e = ConfigEntity::new();
    e.config.app.app_name = "p19".into();
    e.config.log.metric.dir = dir.clone();
    e.config.log.metric.use_pid = false;
    config::reset_global_config(e);
    let base = (sentinel_core::utils::curr_time_millis() / 1000 + 5) * 1000;
    let one_second: u64 = item(base, "a", 11).to_string().len() as u64 + 1;
    let mut w = DefaultMetricLogWriter::new(2 * one_second + 1, 8).unwrap();
    for s in 0..6u64 {
        let ts = base + s * 1000;
        let mut items = vec![item(ts, "a", s)];
        w.write(ts, &mut items).unwrap();
    }
    let mut files: Vec<String> = std::fs::read_dir(&dir).unwrap().map(|e| e.unwrap().file_name().into_string().unwrap()).collect();
    files.sort();
    println!("files: {:?}", files);
    let name = "p19-metrics.log".to_string();
    let s = DefaultMetricSearcher::new(dir.clone(), name.clone()).unwrap();
    println!("A maxlines from s0 limit 100: {:?}", s.find_from_time_with_max_lines(base, 100).unwrap().iter().map(key).collect::<Vec<_>>());
    let s = DefaultMetricSearcher::new(dir.clone(), name.clone()).unwrap();
    println!("B range s0..s5: {:?}", s.find_by_time_and_resource(base, base + 5000, "a").unwrap().iter().map(key).collect::<Vec<_>>());
    let s = DefaultMetricSearcher::new(dir.clone(), name.clone()).unwrap();
    println!("C range s3..s5 (begins in 2nd file): {:?}", s.find_by_time_and_resource(base + 3000, base + 5000, "a").unwrap().iter().map(key).collect::<Vec<_>>());
    let s = DefaultMetricSearcher::new(dir.clone(), name.clone()).unwrap();
    println!("D1 reuse: first s0..s5: {:?}", s.find_by_time_and_resource(base, base + 5000, "a").unwrap().iter().map(key).collect::<Vec<_>>());
    println!("D2 reuse: second s0..s5: {:?}", s.find_by_time_and_resource(base, base + 5000, "a").unwrap().iter().map(key).collect::<Vec<_>>());
    println!("D3 reuse: third s1..s5: {:?}", s.find_by_time_and_resource(base + 1000, base + 5000, "a").unwrap().iter().map(key).collect::<Vec<_>>());
}
