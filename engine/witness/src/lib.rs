//! Type-level witnesses.  Every `compile_fail,E....` test is paired with a `no_run` twin that differs only in the offending
//! line, so that a witness whose path is merely wrong (and therefore "fails to compile" for the wrong reason) is noticed:
//! the twin must compile.  Nothing here is executed.

/// W1 (C13): the shared global slot chain cannot be mutated after construction - its ordering is fixed once.
/// ```compile_fail,E0596
/// use sentinel_core::{api::global_slot_chain, flow};
/// let chain = global_slot_chain();
/// chain.add_rule_check_slot(flow::default_slot()); // needs &mut SlotChain, an Arc only gives &
/// ```
/// twin:
/// ```no_run
/// use sentinel_core::{base::SlotChain, flow};
/// let mut chain = SlotChain::new();
/// chain.add_rule_check_slot(flow::default_slot());
/// ```
pub struct W1GlobalChainImmutable;

/// W2 (C13): the sorted slot vectors have no external reader or writer.
/// ```compile_fail,E0616
/// use sentinel_core::base::SlotChain;
/// let chain = SlotChain::new();
/// let _n = chain.rule_checks.len(); // private field
/// ```
/// twin:
/// ```no_run
/// use sentinel_core::base::SlotChain;
/// let chain = SlotChain::new();
/// let _c = &chain;
/// ```
pub struct W2SlotVectorsPrivate;

/// W3 (C03 / C16): the breaker state mutex is not reachable from outside: only the guarded transition functions write it.
/// ```compile_fail,E0616
/// use sentinel_core::circuitbreaker::{CircuitBreakerTrait, ErrorCountBreaker, Rule};
/// use std::sync::Arc;
/// let b = ErrorCountBreaker::new(Arc::new(Rule::default()));
/// let _s = b.breaker().state.clone(); // private field
/// ```
/// twin:
/// ```no_run
/// use sentinel_core::circuitbreaker::{CircuitBreakerTrait, ErrorCountBreaker, Rule};
/// use std::sync::Arc;
/// let b = ErrorCountBreaker::new(Arc::new(Rule::default()));
/// let _s = b.breaker().current_state();
/// ```
pub struct W3BreakerStatePrivate;

/// W4 (C02): window objects can only be constructed by in-crate code (which the who-may-construct rule enumerates).
/// ```compile_fail,E0603
/// use sentinel_core::core::stat::LeapArray; // crate-private re-export
/// ```
/// twin:
/// ```no_run
/// use sentinel_core::core::stat::get_resource_node;
/// let _ = get_resource_node(&String::from("x"));
/// ```
pub struct W4LeapArrayNotNameable;

/// W5 (C04 / C13): a blocked entry hands the caller nothing to exit.
/// ```compile_fail,E0599
/// use sentinel_core::EntryBuilder;
/// if let Err(e) = EntryBuilder::new("w5".into()).build() {
///     e.exit(); // anyhow::Error has no exit()
/// }
/// ```
/// twin:
/// ```no_run
/// use sentinel_core::EntryBuilder;
/// if let Ok(e) = EntryBuilder::new("w5".into()).build() {
///     e.exit();
/// }
/// ```
pub struct W5BlockedEntryHasNoHandle;

/// W6 (C17): the configuration cell itself is private; outside code goes through the validated init_* entry points
/// (or the documented, unvalidated `reset_global_config`, which the evidence lists as an assumption).
/// ```compile_fail,E0432
/// use sentinel_core::config::GLOBAL_CONFIG; // private static: not part of the glob re-export, cannot be named
/// ```
/// twin:
/// ```no_run
/// use sentinel_core::config::ConfigEntity;
/// let _ = ConfigEntity::new();
/// ```
pub struct W6ConfigCellPrivate;
