// Minimal JSON value + writer (no external crates are available to the driver).
use std::fmt::Write;

#[derive(Clone, Debug)]
pub enum J {
    Null,
    Bool(bool),
    Int(i128),
    Str(String),
    Arr(Vec<J>),
    Obj(Vec<(&'static str, J)>),
}

impl J {
    pub fn s<S: Into<String>>(s: S) -> J {
        J::Str(s.into())
    }
    pub fn opt_s(s: Option<String>) -> J {
        match s {
            Some(s) => J::Str(s),
            None => J::Null,
        }
    }
    pub fn write(&self, out: &mut String) {
        match self {
            J::Null => out.push_str("null"),
            J::Bool(b) => out.push_str(if *b { "true" } else { "false" }),
            J::Int(i) => {
                let _ = write!(out, "{}", i);
            }
            J::Str(s) => write_str(s, out),
            J::Arr(v) => {
                out.push('[');
                for (i, x) in v.iter().enumerate() {
                    if i > 0 {
                        out.push(',');
                    }
                    x.write(out);
                }
                out.push(']');
            }
            J::Obj(v) => {
                out.push('{');
                for (i, (k, x)) in v.iter().enumerate() {
                    if i > 0 {
                        out.push(',');
                    }
                    write_str(k, out);
                    out.push(':');
                    x.write(out);
                }
                out.push('}');
            }
        }
    }
}

fn write_str(s: &str, out: &mut String) {
    out.push('"');
    for c in s.chars() {
        match c {
            '"' => out.push_str("\\\""),
            '\\' => out.push_str("\\\\"),
            '\n' => out.push_str("\\n"),
            '\r' => out.push_str("\\r"),
            '\t' => out.push_str("\\t"),
            c if (c as u32) < 0x20 => {
                let _ = write!(out, "\\u{:04x}", c as u32);
            }
            c => out.push(c),
        }
    }
    out.push('"');
}
