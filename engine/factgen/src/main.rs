// factgen: a rustc driver that dumps MIR facts (mir_built) of the crate being
// compiled as one JSON file.  Injected with RUSTC_WORKSPACE_WRAPPER under
// `cargo +nightly check`, so the real build flags / features / cfgs apply.
//
// Output: $FACTGEN_OUT/<crate>.<stable crate id>.json   (one write per process)
#![feature(rustc_private)]

extern crate rustc_abi;
extern crate rustc_driver;
extern crate rustc_hir;
extern crate rustc_interface;
extern crate rustc_middle;
extern crate rustc_session;
extern crate rustc_span;

mod json;
use json::J;

use rustc_driver::Compilation;
use rustc_hir::def::DefKind;
use rustc_hir::def_id::{DefId, LocalDefId};
use rustc_middle::mir::{
    self, AggregateKind, BasicBlock, Body, CastKind, Const, Operand, Place, PlaceElem, Rvalue,
    StatementKind, TerminatorKind,
};
use rustc_middle::ty::print::with_no_trimmed_paths;
use rustc_middle::ty::{self, Instance, Ty, TyCtxt, TypingEnv};
use rustc_span::Span;

struct Cb;

impl rustc_driver::Callbacks for Cb {
    fn after_expansion<'tcx>(
        &mut self,
        _compiler: &rustc_interface::interface::Compiler,
        tcx: TyCtxt<'tcx>,
    ) -> Compilation {
        if let Ok(out_dir) = std::env::var("FACTGEN_OUT") {
            dump(tcx, &out_dir);
        }
        Compilation::Continue
    }
}

fn main() {
    let mut args: Vec<String> = std::env::args().collect();
    // RUSTC_WORKSPACE_WRAPPER invokes: <wrapper> <rustc> <args...>
    if args.len() > 1 && (args[1].ends_with("rustc") || args[1].contains("/rustc")) {
        args.remove(1);
    }
    let mut cb = Cb;
    rustc_driver::run_compiler(&args, &mut cb);
}

fn ty_s<'tcx>(ty: Ty<'tcx>) -> String {
    with_no_trimmed_paths!(format!("{}", ty))
}

fn path_s(tcx: TyCtxt<'_>, d: DefId) -> String {
    with_no_trimmed_paths!(tcx.def_path_str(d))
}

fn root_span(mut sp: Span) -> Span {
    let mut n = 0;
    while sp.from_expansion() && n < 64 {
        sp = sp.source_callsite();
        n += 1;
    }
    sp
}

fn loc(tcx: TyCtxt<'_>, sp: Span) -> (String, i128) {
    let sp = root_span(sp);
    if sp.is_dummy() {
        return (String::new(), 0);
    }
    let sm = tcx.sess.source_map();
    let l = sm.lookup_char_pos(sp.lo());
    let name = format!("{}", l.file.name.prefer_local_unconditionally());
    (name, l.line as i128)
}

// line of the span itself (for macro_rules expansions: the line inside the macro
// definition) when it lies in a real local file; 0 otherwise
fn dline_of(tcx: TyCtxt<'_>, sp: Span) -> J {
    if sp.is_dummy() || !sp.from_expansion() {
        return J::Int(0);
    }
    let sm = tcx.sess.source_map();
    let l = sm.lookup_char_pos(sp.lo());
    let r = sm.lookup_char_pos(root_span(sp).lo());
    if l.file.name == r.file.name {
        J::Int(l.line as i128)
    } else {
        J::Int(0)
    }
}

fn line_of(tcx: TyCtxt<'_>, sp: Span) -> J {
    J::Int(loc(tcx, sp).1)
}

struct Cx<'a, 'tcx> {
    tcx: TyCtxt<'tcx>,
    body: &'a Body<'tcx>,
    env: TypingEnv<'tcx>,
}

impl<'a, 'tcx> Cx<'a, 'tcx> {
    fn place(&self, p: &Place<'tcx>) -> J {
        let tcx = self.tcx;
        let mut pty = mir::PlaceTy::from_ty(self.body.local_decls[p.local].ty);
        let mut projs = Vec::new();
        for elem in p.projection.iter() {
            let s = match elem {
                PlaceElem::Deref => "*".to_string(),
                PlaceElem::Field(f, _) => match pty.ty.kind() {
                    ty::Adt(adt, _) => {
                        let vi = pty.variant_index.unwrap_or(rustc_abi::FIRST_VARIANT);
                        let v = adt.variant(vi);
                        let name = v.fields[f].name;
                        if adt.is_enum() {
                            format!(".{}::{}.{}", path_s(tcx, adt.did()), v.name, name)
                        } else {
                            format!(".{}.{}", path_s(tcx, adt.did()), name)
                        }
                    }
                    ty::Closure(def, _) | ty::Coroutine(def, _) => {
                        let names = tcx.closure_saved_names_of_captured_variables(*def);
                        match names.get(f) {
                            Some(n) => format!(".upvar.{}", n),
                            None => format!(".{}", f.index()),
                        }
                    }
                    _ => format!(".{}", f.index()),
                },
                PlaceElem::Downcast(name, vi) => match name {
                    Some(n) => format!("as {}", n),
                    None => format!("as #{}", vi.index()),
                },
                PlaceElem::Index(l) => format!("[_{}]", l.index()),
                PlaceElem::ConstantIndex { offset, from_end, .. } => {
                    format!("[{}{}]", if from_end { "-" } else { "" }, offset)
                }
                PlaceElem::Subslice { .. } => "[..]".to_string(),
                _ => "?".to_string(),
            };
            projs.push(J::Str(s));
            pty = pty.projection_ty(tcx, elem);
        }
        J::Obj(vec![("l", J::Int(p.local.index() as i128)), ("p", J::Arr(projs))])
    }

    fn constant(&self, c: &mir::ConstOperand<'tcx>) -> J {
        let tcx = self.tcx;
        let ty = c.const_.ty();
        let mut o: Vec<(&'static str, J)> = vec![("k", J::s("const")), ("ty", J::Str(ty_s(ty)))];
        match ty.kind() {
            ty::FnDef(def, args) => {
                o.push(("fn", J::Str(path_s(tcx, *def))));
                o.push(("targs", J::Arr(args.iter().map(|a| J::Str(with_no_trimmed_paths!(format!("{}", a)))).collect())));
            }
            _ => {}
        }
        if let Some(d) = c.check_static_ptr(tcx) {
            o.push(("static", J::Str(path_s(tcx, d))));
        }
        match ty.kind() {
            ty::Bool | ty::Int(_) | ty::Uint(_) | ty::Float(_) | ty::Char => {
                if let Some(si) = c.const_.try_eval_scalar_int(tcx, self.env) {
                    let size = si.size();
                    let bits = si.to_bits(size);
                    let v: i128 = if let ty::Int(_) = ty.kind() {
                        si.to_int(size)
                    } else {
                        bits as i128
                    };
                    o.push(("val", J::Int(v)));
                    if let ty::Float(_) = ty.kind() {
                        let f = if size.bytes() == 8 {
                            f64::from_bits(bits as u64)
                        } else if size.bytes() == 4 {
                            f32::from_bits(bits as u32) as f64
                        } else {
                            f64::NAN
                        };
                        o.push(("fval", J::Str(format!("{:?}", f))));
                    }
                }
            }
            _ => {}
        }
        // unevaluated consts (named constants): remember the item
        if let Const::Unevaluated(uv, _) = c.const_ {
            o.push(("item", J::Str(path_s(tcx, uv.def))));
        }
        o.push(("text", J::Str(with_no_trimmed_paths!(format!("{}", c.const_)))));
        J::Obj(o)
    }

    fn operand(&self, op: &Operand<'tcx>) -> J {
        match op {
            Operand::Copy(p) => J::Obj(vec![("k", J::s("copy")), ("pl", self.place(p))]),
            Operand::Move(p) => J::Obj(vec![("k", J::s("move")), ("pl", self.place(p))]),
            Operand::Constant(c) => self.constant(c),
            #[allow(unreachable_patterns)]
            _ => J::Obj(vec![("k", J::s("other"))]),
        }
    }

    fn defs_in_ty(&self, t: Ty<'tcx>) -> J {
        let mut v = Vec::new();
        for ga in t.walk() {
            if let Some(t) = ga.as_type() {
                match t.kind() {
                    ty::Closure(d, _) | ty::FnDef(d, _) | ty::Coroutine(d, _) => {
                        v.push(J::Str(path_s(self.tcx, *d)))
                    }
                    _ => {}
                }
            }
        }
        J::Arr(v)
    }

    fn rvalue(&self, rv: &Rvalue<'tcx>) -> J {
        let tcx = self.tcx;
        match rv {
            Rvalue::Use(op, ..) => J::Obj(vec![("k", J::s("use")), ("op", self.operand(op))]),
            Rvalue::Ref(_, bk, p) => J::Obj(vec![
                ("k", J::s("ref")),
                ("mut", J::Bool(matches!(bk, mir::BorrowKind::Mut { .. }))),
                ("pl", self.place(p)),
            ]),
            Rvalue::RawPtr(_, p) => J::Obj(vec![("k", J::s("rawptr")), ("pl", self.place(p))]),
            Rvalue::BinaryOp(op, ab) => J::Obj(vec![
                ("k", J::s("bin")),
                ("op", J::Str(format!("{:?}", op))),
                ("a", self.operand(&ab.0)),
                ("b", self.operand(&ab.1)),
            ]),
            Rvalue::UnaryOp(op, a) => J::Obj(vec![
                ("k", J::s("un")),
                ("op", J::Str(format!("{:?}", op))),
                ("a", self.operand(a)),
            ]),
            Rvalue::Cast(kind, op, ty) => {
                let src_ty = op.ty(&self.body.local_decls, tcx);
                let mut o = vec![
                    ("k", J::s("cast")),
                    ("kind", J::Str(format!("{:?}", kind))),
                    ("op", self.operand(op)),
                    ("ty", J::Str(ty_s(*ty))),
                    ("src_ty", J::Str(ty_s(src_ty))),
                ];
                if let CastKind::PointerCoercion(..) = kind {
                    o.push(("src_defs", self.defs_in_ty(src_ty)));
                }
                J::Obj(o)
            }
            Rvalue::Aggregate(kind, ops) => {
                let mut o = vec![("k", J::s("agg"))];
                match &**kind {
                    AggregateKind::Adt(did, vi, _, _, _) => {
                        let adt = tcx.adt_def(*did);
                        let v = adt.variant(*vi);
                        o.push(("adt", J::Str(path_s(tcx, *did))));
                        o.push(("variant", J::Str(v.name.to_string())));
                        o.push((
                            "fields",
                            J::Arr(v.fields.iter().map(|f| J::Str(f.name.to_string())).collect()),
                        ));
                    }
                    AggregateKind::Closure(d, _) => {
                        o.push(("closure", J::Str(path_s(tcx, *d))));
                        let names = tcx.closure_saved_names_of_captured_variables(*d);
                        o.push(("fields", J::Arr(names.iter().map(|n| J::Str(n.to_string())).collect())));
                    }
                    AggregateKind::Coroutine(d, _) => {
                        o.push(("coroutine", J::Str(path_s(tcx, *d))));
                        let names = tcx.closure_saved_names_of_captured_variables(*d);
                        o.push(("fields", J::Arr(names.iter().map(|n| J::Str(n.to_string())).collect())));
                    }
                    AggregateKind::Tuple => o.push(("tuple", J::Bool(true))),
                    AggregateKind::Array(_) => o.push(("array", J::Bool(true))),
                    _ => o.push(("otherkind", J::Bool(true))),
                }
                o.push(("ops", J::Arr(ops.iter().map(|x| self.operand(x)).collect())));
                J::Obj(o)
            }
            Rvalue::Discriminant(p) => J::Obj(vec![("k", J::s("discr")), ("pl", self.place(p))]),
            Rvalue::Repeat(op, _) => J::Obj(vec![("k", J::s("repeat")), ("op", self.operand(op))]),
            Rvalue::CopyForDeref(p) => J::Obj(vec![
                ("k", J::s("use")),
                ("op", J::Obj(vec![("k", J::s("copy")), ("pl", self.place(p))])),
            ]),
            other => J::Obj(vec![("k", J::s("other")), ("text", J::Str(format!("{:?}", other)))]),
        }
    }

    fn callee(&self, func: &Operand<'tcx>) -> J {
        let tcx = self.tcx;
        let fty = func.ty(&self.body.local_decls, tcx);
        match fty.kind() {
            ty::FnDef(def, args) => {
                let mut o = vec![
                    ("def", J::Str(path_s(tcx, *def))),
                    (
                        "targs",
                        J::Arr(args.iter().map(|a| J::Str(with_no_trimmed_paths!(format!("{}", a)))).collect()),
                    ),
                    ("local", J::Bool(def.is_local())),
                ];
                if let Some(tr) = tcx.trait_of_assoc(*def) {
                    o.push(("trait", J::Str(path_s(tcx, tr))));
                }
                if let Some(imp) = tcx.inherent_impl_of_assoc(*def) {
                    let st = tcx.type_of(imp).instantiate_identity().skip_normalization();
                    o.push(("impl_self", J::Str(ty_s(st))));
                }
                let resolved = std::panic::catch_unwind(std::panic::AssertUnwindSafe(|| {
                    Instance::try_resolve(tcx, self.env, *def, args)
                }));
                if let Ok(Ok(Some(inst))) = resolved {
                    let rd = inst.def_id();
                    o.push(("resolved", J::Str(path_s(tcx, rd))));
                    o.push(("resolved_kind", J::Str(format!("{:?}", std::mem::discriminant(&inst.def)).to_string())));
                    let k = match inst.def {
                        ty::InstanceKind::Item(_) => "item",
                        ty::InstanceKind::Virtual(..) => "virtual",
                        ty::InstanceKind::ClosureOnceShim { .. } => "closure_once",
                        ty::InstanceKind::FnPtrShim(..) => "fnptr_shim",
                        ty::InstanceKind::DropGlue(..) => "drop_glue",
                        ty::InstanceKind::CloneShim(..) => "clone_shim",
                        ty::InstanceKind::Intrinsic(..) => "intrinsic",
                        _ => "other",
                    };
                    o.push(("rk", J::s(k)));
                }
                J::Obj(o)
            }
            _ => J::Obj(vec![("indirect", self.operand(func)), ("ty", J::Str(ty_s(fty)))]),
        }
    }

    fn real_target(&self, bb: BasicBlock) -> i128 {
        bb.index() as i128
    }

    fn unwind(&self, u: &mir::UnwindAction) -> J {
        match u {
            mir::UnwindAction::Cleanup(bb) => J::Int(bb.index() as i128),
            _ => J::Null,
        }
    }

    fn terminator(&self, t: &mir::Terminator<'tcx>) -> J {
        let tcx = self.tcx;
        let line = line_of(tcx, t.source_info.span);
        let exp = J::Bool(t.source_info.span.from_expansion());
        match &t.kind {
            TerminatorKind::Goto { target } => J::Obj(vec![("k", J::s("goto")), ("target", J::Int(self.real_target(*target)))]),
            TerminatorKind::FalseEdge { real_target, .. } => {
                J::Obj(vec![("k", J::s("goto")), ("target", J::Int(self.real_target(*real_target)))])
            }
            TerminatorKind::FalseUnwind { real_target, .. } => {
                J::Obj(vec![("k", J::s("goto")), ("target", J::Int(self.real_target(*real_target)))])
            }
            TerminatorKind::SwitchInt { discr, targets } => {
                let mut ts = Vec::new();
                for (v, bb) in targets.iter() {
                    ts.push(J::Arr(vec![J::Int(v as i128), J::Int(bb.index() as i128)]));
                }
                let dty = discr.ty(&self.body.local_decls, tcx);
                J::Obj(vec![
                    ("k", J::s("switch")),
                    ("op", self.operand(discr)),
                    ("ty", J::Str(ty_s(dty))),
                    ("targets", J::Arr(ts)),
                    ("otherwise", J::Int(targets.otherwise().index() as i128)),
                    ("line", line),
                ])
            }
            TerminatorKind::Return => J::Obj(vec![("k", J::s("return")), ("line", line)]),
            TerminatorKind::Unreachable => J::Obj(vec![("k", J::s("unreachable"))]),
            TerminatorKind::UnwindResume => J::Obj(vec![("k", J::s("resume"))]),
            TerminatorKind::UnwindTerminate(_) => J::Obj(vec![("k", J::s("abort"))]),
            TerminatorKind::Drop { place, target, unwind, .. } => J::Obj(vec![
                ("k", J::s("drop")),
                ("pl", self.place(place)),
                ("ty", J::Str(ty_s(place.ty(&self.body.local_decls, tcx).ty))),
                ("target", J::Int(target.index() as i128)),
                ("unwind", self.unwind(unwind)),
                ("line", line),
            ]),
            TerminatorKind::Call { func, args, destination, target, unwind, fn_span, .. } => {
                let arg_tys: Vec<J> = args
                    .iter()
                    .map(|a| J::Str(ty_s(a.node.ty(&self.body.local_decls, tcx))))
                    .collect();
                J::Obj(vec![
                    ("k", J::s("call")),
                    ("callee", self.callee(func)),
                    ("args", J::Arr(args.iter().map(|a| self.operand(&a.node)).collect())),
                    ("arg_tys", J::Arr(arg_tys)),
                    (
                        "arg_defs",
                        J::Arr(
                            args.iter()
                                .map(|a| self.defs_in_ty(a.node.ty(&self.body.local_decls, tcx)))
                                .collect(),
                        ),
                    ),
                    ("dest", self.place(destination)),
                    ("dest_ty", J::Str(ty_s(destination.ty(&self.body.local_decls, tcx).ty))),
                    ("target", match target { Some(b) => J::Int(b.index() as i128), None => J::Null }),
                    ("unwind", self.unwind(unwind)),
                    ("line", line_of(tcx, *fn_span)),
                    ("dline", dline_of(tcx, *fn_span)),
                    ("exp", exp),
                ])
            }
            TerminatorKind::Assert { cond, expected, msg, target, unwind } => {
                let kind = format!("{:?}", std::mem::discriminant(&**msg));
                let _ = kind;
                let m = match &**msg {
                    mir::AssertKind::BoundsCheck { .. } => "bounds".to_string(),
                    mir::AssertKind::Overflow(op, ..) => format!("overflow:{:?}", op),
                    mir::AssertKind::OverflowNeg(_) => "overflow:Neg".to_string(),
                    mir::AssertKind::DivisionByZero(_) => "div_zero".to_string(),
                    mir::AssertKind::RemainderByZero(_) => "rem_zero".to_string(),
                    _ => "other".to_string(),
                };
                let mut o = vec![
                    ("k", J::s("assert")),
                    ("cond", self.operand(cond)),
                    ("expected", J::Bool(*expected)),
                    ("msg", J::Str(m)),
                    ("target", J::Int(target.index() as i128)),
                    ("unwind", self.unwind(unwind)),
                    ("line", line),
                    ("exp", exp),
                ];
                match &**msg {
                    mir::AssertKind::DivisionByZero(op) | mir::AssertKind::RemainderByZero(op) => {
                        o.push(("divisor_of", self.operand(op)));
                    }
                    _ => {}
                }
                J::Obj(o)
            }
            TerminatorKind::Yield { value, resume, drop, .. } => J::Obj(vec![
                ("k", J::s("yield")),
                ("value", self.operand(value)),
                ("target", J::Int(resume.index() as i128)),
                ("drop", match drop { Some(b) => J::Int(b.index() as i128), None => J::Null }),
                ("line", line),
            ]),
            TerminatorKind::CoroutineDrop => J::Obj(vec![("k", J::s("coroutine_drop"))]),
            TerminatorKind::InlineAsm { .. } => J::Obj(vec![("k", J::s("asm"))]),
            TerminatorKind::TailCall { .. } => J::Obj(vec![("k", J::s("tailcall"))]),
        }
    }

    fn body_json(&self, ldid: LocalDefId) -> J {
        let tcx = self.tcx;
        let body = self.body;
        let did = ldid.to_def_id();
        let kind = tcx.def_kind(did);
        let (file, line) = loc(tcx, tcx.def_span(did));
        let mut o: Vec<(&'static str, J)> = vec![
            ("def", J::Str(path_s(tcx, did))),
            ("kind", J::Str(format!("{:?}", kind))),
            ("file", J::Str(file)),
            ("line", J::Int(line)),
            ("argc", J::Int(body.arg_count as i128)),
        ];
        // end line of body
        {
            let sp = root_span(body.span);
            if !sp.is_dummy() {
                let sm = tcx.sess.source_map();
                o.push(("end_line", J::Int(sm.lookup_char_pos(sp.hi()).line as i128)));
            }
        }
        let root = tcx.typeck_root_def_id(did);
        if root != did {
            o.push(("root", J::Str(path_s(tcx, root))));
        }
        if matches!(kind, DefKind::Fn | DefKind::AssocFn) {
            o.push(("vis", J::Str(format!("{:?}", tcx.visibility(did)))));
            o.push(("pub", J::Bool(tcx.visibility(did).is_public())));
        }
        if matches!(kind, DefKind::AssocFn) {
            let parent = tcx.parent(did);
            match tcx.def_kind(parent) {
                DefKind::Impl { of_trait } => {
                    let st = tcx.type_of(parent).instantiate_identity().skip_normalization();
                    o.push(("impl_self", J::Str(ty_s(st))));
                    if of_trait {
                        let tr = tcx.impl_trait_ref(parent).instantiate_identity().skip_normalization();
                        o.push(("impl_trait", J::Str(path_s(tcx, tr.def_id))));
                        o.push(("impl_trait_full", J::Str(with_no_trimmed_paths!(format!("{}", tr)))));
                    }
                }
                DefKind::Trait => {
                    o.push(("in_trait", J::Str(path_s(tcx, parent))));
                }
                _ => {}
            }
            let ai = tcx.associated_item(did);
            o.push(("name", J::Str(ai.name().to_string())));
        } else if let Some(n) = tcx.opt_item_name(did) {
            o.push(("name", J::Str(n.to_string())));
        }
        // locals
        let mut locals = Vec::new();
        for (_l, d) in body.local_decls.iter_enumerated() {
            locals.push(J::Obj(vec![
                ("ty", J::Str(ty_s(d.ty))),
                ("user", J::Bool(d.is_user_variable())),
                ("line", line_of(tcx, d.source_info.span)),
            ]));
        }
        o.push(("locals", J::Arr(locals)));
        let mut dbg = Vec::new();
        for v in body.var_debug_info.iter() {
            if let mir::VarDebugInfoContents::Place(p) = &v.value {
                dbg.push(J::Obj(vec![("name", J::Str(v.name.to_string())), ("pl", self.place(p))]));
            }
        }
        o.push(("vars", J::Arr(dbg)));
        // blocks
        let mut blocks = Vec::new();
        for (_bb, data) in body.basic_blocks.iter_enumerated() {
            let mut stmts = Vec::new();
            for st in data.statements.iter() {
                match &st.kind {
                    StatementKind::Assign(b) => {
                        let (lhs, rv) = &**b;
                        stmts.push(J::Obj(vec![
                            ("k", J::s("assign")),
                            ("lhs", self.place(lhs)),
                            ("rv", self.rvalue(rv)),
                            ("line", line_of(tcx, st.source_info.span)),
                            ("dline", dline_of(tcx, st.source_info.span)),
                            ("exp", J::Bool(st.source_info.span.from_expansion())),
                        ]));
                    }
                    StatementKind::StorageDead(l) => {
                        stmts.push(J::Obj(vec![("k", J::s("dead")), ("l", J::Int(l.index() as i128))]));
                    }
                    StatementKind::StorageLive(l) => {
                        stmts.push(J::Obj(vec![("k", J::s("live")), ("l", J::Int(l.index() as i128))]));
                    }
                    StatementKind::SetDiscriminant { place, variant_index } => {
                        stmts.push(J::Obj(vec![
                            ("k", J::s("setdiscr")),
                            ("lhs", self.place(place)),
                            ("variant", J::Int(variant_index.index() as i128)),
                        ]));
                    }
                    _ => {}
                }
            }
            let term = match &data.terminator {
                Some(t) => self.terminator(t),
                None => J::Null,
            };
            blocks.push(J::Obj(vec![
                ("stmts", J::Arr(stmts)),
                ("term", term),
                ("cleanup", J::Bool(data.is_cleanup)),
            ]));
        }
        o.push(("blocks", J::Arr(blocks)));
        o.push(("ret_ty", J::Str(ty_s(body.local_decls[mir::RETURN_PLACE].ty))));
        J::Obj(o)
    }
}

fn attrs_text(tcx: TyCtxt<'_>, did: DefId) -> J {
    let mut v = Vec::new();
    if let Some(l) = did.as_local() {
        let hir_id = tcx.local_def_id_to_hir_id(l);
        let sm = tcx.sess.source_map();
        for a in tcx.hir_attrs(hir_id) {
            if std::env::var("FACTGEN_DEBUG_ATTRS").is_ok() {
                eprintln!("ATTR {:?}: {:?}", did, a);
            }
            match a {
                rustc_hir::Attribute::Unparsed(item) => {
                    let sp = item.span;
                    if sp.is_dummy() {
                        continue;
                    }
                    if let Ok(s) = sm.span_to_snippet(sp) {
                        v.push(J::Str(s));
                    }
                }
                _ => {}
            }
        }
    }
    J::Arr(v)
}

fn dump(tcx: TyCtxt<'_>, out_dir: &str) {
    let krate = tcx.crate_name(rustc_hir::def_id::LOCAL_CRATE).to_string();
    if krate == "build_script_build" {
        return;
    }
    let mut bodies = Vec::new();
    let mut n_calls = 0i128;
    // Phase 1: clone every mir_built body before any other query can steal it
    // (const evaluation / instance resolution may force mir_promoted).
    let mut cloned: Vec<(LocalDefId, Body<'_>)> = Vec::new();
    for &ldid in tcx.mir_keys(()).iter() {
        let did = ldid.to_def_id();
        let kind = tcx.def_kind(did);
        match kind {
            DefKind::Fn
            | DefKind::AssocFn
            | DefKind::Closure
            | DefKind::Const { .. }
            | DefKind::AssocConst { .. }
            | DefKind::Static { .. }
            | DefKind::SyntheticCoroutineBody => {}
            _ => continue,
        }
        let steal = tcx.mir_built(ldid);
        let body = steal.borrow().clone();
        cloned.push((ldid, body));
    }
    for (ldid, body) in cloned.iter() {
        let ldid = *ldid;
        let did = ldid.to_def_id();
        let env = TypingEnv::post_analysis(tcx, did);
        let cx = Cx { tcx, body, env };
        for d in body.basic_blocks.iter() {
            if let Some(t) = &d.terminator {
                if let TerminatorKind::Call { .. } = t.kind {
                    n_calls += 1;
                }
            }
        }
        bodies.push(cx.body_json(ldid));
    }

    // ADTs, impls, traits, statics
    let mut adts = Vec::new();
    let mut impls = Vec::new();
    let mut traits = Vec::new();
    let mut statics = Vec::new();
    let mut fns = Vec::new();
    for ldid in tcx.hir_crate_items(()).definitions() {
        let did = ldid.to_def_id();
        let kind = tcx.def_kind(did);
        let (file, line) = loc(tcx, tcx.def_span(did));
        match kind {
            DefKind::Struct | DefKind::Enum | DefKind::Union => {
                let adt = tcx.adt_def(did);
                let mut variants = Vec::new();
                // discriminant values of enums (explicit `= n` or implicit): `as` casts and hand-written `From<int>` must agree
                let discrs: Vec<i128> = if adt.is_enum() {
                    adt.discriminants(tcx).map(|(_, d)| d.val as i128).collect()
                } else {
                    Vec::new()
                };
                for (vi, v) in adt.variants().iter().enumerate() {
                    let mut fields = Vec::new();
                    for f in v.fields.iter() {
                        let fty = tcx.type_of(f.did).instantiate_identity().skip_normalization();
                        fields.push(J::Obj(vec![
                            ("name", J::Str(f.name.to_string())),
                            ("ty", J::Str(ty_s(fty))),
                            ("pub", J::Bool(f.vis.is_public())),
                            ("vis", J::Str(format!("{:?}", f.vis))),
                            ("attrs", attrs_text(tcx, f.did)),
                            ("line", J::Int(loc(tcx, tcx.def_span(f.did)).1)),
                        ]));
                    }
                    variants.push(J::Obj(vec![
                        ("name", J::Str(v.name.to_string())),
                        ("discr", match discrs.get(vi) { Some(d) => J::Int(*d), None => J::Null }),
                        ("fields", J::Arr(fields)),
                        ("attrs", attrs_text(tcx, v.def_id)),
                        ("line", J::Int(loc(tcx, tcx.def_span(v.def_id)).1)),
                    ]));
                }
                adts.push(J::Obj(vec![
                    ("def", J::Str(path_s(tcx, did))),
                    ("kind", J::Str(format!("{:?}", kind))),
                    ("file", J::Str(file)),
                    ("line", J::Int(line)),
                    ("pub", J::Bool(tcx.visibility(did).is_public())),
                    ("vis", J::Str(format!("{:?}", tcx.visibility(did)))),
                    ("attrs", attrs_text(tcx, did)),
                    ("variants", J::Arr(variants)),
                ]));
            }
            DefKind::Impl { of_trait } => {
                let st = tcx.type_of(did).instantiate_identity().skip_normalization();
                let mut o = vec![
                    ("def", J::Str(path_s(tcx, did))),
                    ("self_ty", J::Str(ty_s(st))),
                    ("file", J::Str(file)),
                    ("line", J::Int(line)),
                    ("exp", J::Bool(tcx.def_span(did).from_expansion())),
                ];
                if of_trait {
                    let tr = tcx.impl_trait_ref(did).instantiate_identity().skip_normalization();
                    o.push(("trait", J::Str(path_s(tcx, tr.def_id))));
                    o.push(("trait_full", J::Str(with_no_trimmed_paths!(format!("{}", tr)))));
                }
                let mut items = Vec::new();
                for ai in tcx.associated_items(did).in_definition_order() {
                    let mut io = vec![
                        ("name", J::Str(ai.name().to_string())),
                        ("def", J::Str(path_s(tcx, ai.def_id))),
                        ("is_fn", J::Bool(ai.is_fn())),
                    ];
                    if let Some(t) = ai.trait_item_def_id() {
                        io.push(("trait_item", J::Str(path_s(tcx, t))));
                    }
                    items.push(J::Obj(io));
                }
                o.push(("items", J::Arr(items)));
                impls.push(J::Obj(o));
            }
            DefKind::Trait => {
                let mut items = Vec::new();
                for ai in tcx.associated_items(did).in_definition_order() {
                    items.push(J::Obj(vec![
                        ("name", J::Str(ai.name().to_string())),
                        ("def", J::Str(path_s(tcx, ai.def_id))),
                        ("is_fn", J::Bool(ai.is_fn())),
                        ("has_default", J::Bool(ai.defaultness(tcx).has_value())),
                    ]));
                }
                traits.push(J::Obj(vec![
                    ("def", J::Str(path_s(tcx, did))),
                    ("file", J::Str(file)),
                    ("line", J::Int(line)),
                    ("pub", J::Bool(tcx.visibility(did).is_public())),
                    ("items", J::Arr(items)),
                ]));
            }
            DefKind::Static { .. } | DefKind::Const { .. } => {
                let t = tcx.type_of(did).instantiate_identity().skip_normalization();
                statics.push(J::Obj(vec![
                    ("def", J::Str(path_s(tcx, did))),
                    ("kind", J::Str(format!("{:?}", kind))),
                    ("ty", J::Str(ty_s(t))),
                    ("file", J::Str(file)),
                    ("line", J::Int(line)),
                    ("exp", J::Bool(tcx.def_span(did).from_expansion())),
                ]));
            }
            DefKind::Fn | DefKind::AssocFn => {
                // signatures (also for trait methods without bodies)
                let sig = tcx.fn_sig(did).instantiate_identity().skip_normalization();
                let sig = sig.skip_binder();
                let names: Vec<J> = tcx
                    .fn_arg_idents(did)
                    .iter()
                    .map(|i| match i {
                        Some(i) => J::Str(i.name.to_string()),
                        None => J::Null,
                    })
                    .collect();
                fns.push(J::Obj(vec![
                    ("def", J::Str(path_s(tcx, did))),
                    ("inputs", J::Arr(sig.inputs().iter().map(|t| J::Str(ty_s(*t))).collect())),
                    ("output", J::Str(ty_s(sig.output()))),
                    ("params", J::Arr(names)),
                    ("pub", J::Bool(tcx.visibility(did).is_public())),
                    ("attrs", attrs_text(tcx, did)),
                    ("file", J::Str(file)),
                    ("line", J::Int(line)),
                ]));
            }
            _ => {}
        }
    }

    let features: Vec<J> = tcx
        .sess
        .config
        .iter()
        .filter_map(|(k, v)| {
            if k.as_str() == "feature" {
                v.map(|v| J::Str(v.to_string()))
            } else if v.is_none() {
                Some(J::Str(format!("cfg:{}", k)))
            } else {
                None
            }
        })
        .collect();

    let n_bodies = bodies.len() as i128;
    let root = J::Obj(vec![
        ("crate", J::Str(krate.clone())),
        ("nonce", J::Str(std::env::var("FACTGEN_NONCE").unwrap_or_default())),
        ("features", J::Arr(features)),
        ("n_bodies", J::Int(n_bodies)),
        ("n_calls", J::Int(n_calls)),
        ("bodies", J::Arr(bodies)),
        ("adts", J::Arr(adts)),
        ("impls", J::Arr(impls)),
        ("traits", J::Arr(traits)),
        ("statics", J::Arr(statics)),
        ("fns", J::Arr(fns)),
    ]);
    let mut s = String::with_capacity(1 << 24);
    root.write(&mut s);
    let id = format!("{:x}", tcx.stable_crate_id(rustc_hir::def_id::LOCAL_CRATE).as_u64());
    let path = format!("{}/{}.{}.json", out_dir, krate, id);
    let tmp = format!("{}.tmp{}", path, std::process::id());
    std::fs::write(&tmp, s).expect("factgen: write facts");
    std::fs::rename(&tmp, &path).expect("factgen: rename facts");
}
